import PrimaiteModel.Model.AgentsTap
import PrimaiteModel.Gen.AgentsGet
open Primaite Primaite.Agents

/-! Line protocol of the C19 driver (one op per line, one answer per line):

    p-init  <periodic|dm> start startVar freq var maxExec nodes(a,b|-) app d0 → ok <next> | raised
    p-step  t d k                                                          → nothing|exec <name> key=value …|raised  <next> <num>
    prob    <ins|key> nActions uNum uDen k:w,k:w,…                          → chose <i> | raised
    probn   <ins|key> nActions den uNum uDen k:w,…  (w ∈ ℤ, p = w/den)       → chose <i> | raised | rejected
    t1-init start freq var rkc rst pPn pPd pCn pCd pYn pYd attempts repeatScan exfil corrupt cont d0 k1 k2
            startingNodes defaultStartingNode targetIps defaultTargetIp networkAddresses
            c2Server c2Ip keepAlive masqPort masqProto exfilFolder targetUser targetPass      (lists: a,b,c or -)
    t1-step t d1 d2 uN uD dScan ok hostsEmpty containsTarget hasPg          → <name> key=value … | <cur> <nxt> <prog> <concluded> <nextExec>
    rand    nActions k                                                      → chose <k> | raised
    t3-init start freq var rkc rst pPn pPd pAn pAd pMn pMd pEn pEd d0 k startingNodes defaultStartingNode
            accts(host:user:newpw,…) acls(router:f1:…:f9,…) creds(host:user:pw:ip|~,…)
    t3-step t d1 uN uD ok hasReason hasLoginData                            → <name> key=value … | <cur> <nxt> <prog> <concluded> <nextExec>
-/

structure DState where
  pcfg : Option (Bool × PeriodicCfg) := none     -- (isDm, cfg)
  pst : Option PeriodicState := none
  c1 : Option Tap1.Cfg := none
  s1 : Option Tap1.St := none
  c3 : Option Tap3.Cfg := none
  s3 : Option Tap3.St := none

def ints (ws : List String) : Option (List Int) := ws.mapM String.toInt?

def csvNat (s : String) : Option (List Nat) :=
  if s = "-" then some [] else (s.splitOn ",").mapM String.toNat?

def csvPairs (s : String) : Option (List (Nat × Nat)) :=
  if s = "-" then some [] else
  (s.splitOn ",").mapM fun e =>
    match (e.splitOn ":").map String.toNat? with
    | [some a, some b] => some (a, b)
    | _ => none

def csvIntPairs (s : String) : Option (List (Nat × Int)) :=
  if s = "-" then some [] else
  (s.splitOn ",").mapM fun e =>
    match e.splitOn ":" with
    | [a, b] => match a.toNat?, b.toInt? with
      | some a, some b => some (a, b)
      | _, _ => none
    | _ => none

def tb (n : Int) : Bool := n ≠ 0

def showProg (p : Progress) : String := p.name
def showStage1 (s : Tap1.Stage) : String := s.name

def showKind1 : Tap1.Kind → String
  | .doNothing => "do-nothing" | .folderCreate => "node-folder-create" | .fileCreate => "node-file-create"
  | .fileAccess => "node-file-access" | .installRansomware => "node-application-install:ransomware-script"
  | .installC2 => "node-application-install:c2-beacon" | .configureC2 => "configure-c2-beacon"
  | .executeC2 => "node-application-execute:c2-beacon" | .ransomwareConfigure => "c2-server-ransomware-configure"
  | .exfiltrate => "c2-server-data-exfiltrate" | .ransomwareLaunch => "c2-server-ransomware-launch"
  | .pingScan => "node-nmap-ping-scan" | .portScan => "node-nmap-port-scan" | .reconScan => "node-network-service-recon"

def showPVal1 : Tap1.PVal → String
  | .str v => v | .hosts => "<hosts>" | .bool b => if b then "True" else "False"

/-- the rendered action: `name key=value …` (`do-nothing -` for the idle action) -/
def showAct1 (c : Tap1.Cfg) (s : Tap1.St) (a : Tap1.Act) : String :=
  let r := a.render c s
  if r.2.isEmpty then s!"{r.1} -" else s!"{r.1} " ++ " ".intercalate (r.2.map fun kv => s!"{kv.1}={showPVal1 kv.2}")

def showSt1 (s : Tap1.St) : String :=
  s!"{showStage1 s.cur} {showStage1 s.nxt} {showProg s.prog} {showBool s.concluded} {s.nextExec}"

def showStage3 (s : Tap3.Stage) : String := s.name

def showKind3 : Tap3.Kind → String
  | .doNothing => "do-nothing" | .changePwLocal => "node-account-change-password" | .remoteLogin => "node-session-remote-login"
  | .remoteChangePw => "node-send-remote-command:change_password" | .remoteAcl => "node-send-remote-command:add_rule"

def showPVal3 : Tap3.PVal → String
  | .str v => v | .list vs => ";".intercalate vs

def showAct3 (a : Tap3.Act) : String :=
  let r := a.render
  if r.2.isEmpty then s!"{r.1} -" else s!"{r.1} " ++ " ".intercalate (r.2.map fun kv => s!"{kv.1}={showPVal3 kv.2}")

def showSt3 (s : Tap3.St) : String :=
  s!"{showStage3 s.cur} {showStage3 s.nxt} {showProg s.prog} {showBool s.concluded} {s.nextExec}"

def showPOut (c : PeriodicCfg) (o : PeriodicOut) : String :=
  match o, o.render c with
  | .doNothing, _ => "nothing"
  | .execute _, some (name, ps) => s!"exec {name} " ++ " ".intercalate (ps.map fun kv => s!"{kv.1}={kv.2}")
  | .execute k, none => s!"exec ?{k}"
  | .raised, _ => "raised"

def csvStr (s : String) : List String := if s = "-" then [] else s.splitOn ","

def mkCfg1 (start f v rkc rst ppn ppd pcn pcd pyn pyd att rsc ex co cont : Int) (strs : List String) : Option Tap1.Cfg :=
  match strs with
  | [sn, dsn, ti, dti, addrs, c2s, c2ip, ka, mp, mpr, ef, tu, tp] =>
    some { startStep := start, frequency := f, variance := v, repeatKillChain := tb rkc, repeatStages := tb rst,
           pPropagate := ⟨ppn, ppd.toNat⟩, pC2 := ⟨pcn, pcd.toNat⟩, pPayload := ⟨pyn, pyd.toNat⟩, scanAttempts := att.toNat,
           repeatScan := tb rsc, exfiltrate := tb ex, corrupt := tb co, continueOnFailedExfil := tb cont,
           startingNodes := csvStr sn, defaultStartingNode := dsn, targetIps := csvStr ti, defaultTargetIp := dti,
           addrs := csvStr addrs, c2Server := c2s, c2Ip := c2ip, keepAlive := ka, masqPort := mp, masqProto := mpr,
           exfilFolder := ef, targetUser := tu, targetPass := tp }
  | _ => none

def parseAccts (s : String) : Option (List Tap3.AcctChange) :=
  (csvStr s).mapM fun e => match e.splitOn ":" with
    | [h, u, n] => some { host := h, user := u, newPw := n }
    | _ => none

def parseAcls (s : String) : Option (List Tap3.Acl) :=
  (csvStr s).mapM fun e => match e.splitOn ":" with
    | r :: fs => some { router := r, fields := fs }
    | _ => none

def parseCreds (s : String) : Option Tap3.Creds :=
  (csvStr s).mapM fun e => match e.splitOn ":" with
    | [h, u, p, ip] => some (h, { user := u, pw := p, ip := if ip = "~" then none else some ip })
    | _ => none

def mkCfg3 (start f v rkc rst ppn ppd pan pad pmn pmd pen ped : Int) (sn : List String) (dsn : String)
    (accts : List Tap3.AcctChange) (acls : List Tap3.Acl) (creds : Tap3.Creds) : Tap3.Cfg :=
  { startStep := start, frequency := f, variance := v, repeatKillChain := tb rkc, repeatStages := tb rst,
    pPlanning := ⟨ppn, ppd.toNat⟩, pAccess := ⟨pan, pad.toNat⟩, pManipulation := ⟨pmn, pmd.toNat⟩, pExploit := ⟨pen, ped.toNat⟩,
    startingNodes := sn, defaultStartingNode := dsn, accountChanges := accts, acls := acls, creds0 := creds }

def step (st : DState) : List String → DState × String
  | ["p-init", kind, a1, a2, a3, a4, a5, nodes, app, a7] =>
    match ints [a1, a2, a3, a4, a5, a7] with
    | some [start, sv, f, v, mx, d0] =>
      let cfg : PeriodicCfg := { startStep := start, startVariance := sv, frequency := f, variance := v,
                                 maxExecutions := mx, nodes := csvStr nodes, app := app }
      let isDm := kind = "dm"
      match (if isDm then dmInit cfg else periodicInit cfg d0) with
      | some s => ({ st with pcfg := some (isDm, cfg), pst := some s }, s!"ok {s.next}")
      | none => ({ st with pcfg := none, pst := none }, "raised")
    | _ => (st, "bad-op")
  | ["p-step", t, d, k] =>
    match st.pcfg, st.pst, ints [t, d, k] with
    | some (isDm, cfg), some s, some [t, d, k] =>
      let (s', o) := if isDm then dmStep cfg s t d k.toNat else periodicStep cfg s t d k.toNat
      ({ st with pst := some s' }, s!"{showPOut cfg o} {s'.next} {s'.numExec}")
    | _, _, _ => (st, "bad-op")
  | ["gen-vector", tb] =>
    -- counter-model search for `C19_gen_prob_vector`: the TRANSLATED `ProbabilisticAgent.probabilities` against the model's by-key vector
    match csvPairs tb with
    | some tb =>
      let sh : Option (List Nat) → String := fun o => match o with
        | none => "raised" | some ws => ",".intercalate (ws.map toString)
      (st, s!"{sh (Primaite.Gen.AgentsGet.probabilities tb)} {sh (Table.vectorByKey tb)}")
    | none => (st, "bad-op")
  | ["gen-periodic", mx, f, v, t, d, nx, ne] =>
    -- the TRANSLATED `PeriodicAgent.get_action` on one state (next, numExec)
    match ints [mx, f, v, t, d, nx, ne] with
    | some [mx, f, v, t, d, nx, ne] =>
      let g := Primaite.Gen.AgentsGet.periodicGetAction mx f v t d { next := nx, numExec := ne }
      (st, if g.1.raised then "raised" else s!"{g.2.1} {g.1.next} {g.1.numExec}")
    | _ => (st, "bad-op")
  | ["prob", ord, n, un, ud, tb] =>
    match n.toNat?, un.toNat?, ud.toNat?, csvPairs tb with
    | some n, some un, some ud, some tb =>
      let o := if ord = "key" then VectorOrder.byKey else VectorOrder.insertion
      if ¬ Table.covered tb then (st, "rejected") else
      match probAgentChoice o tb n { num := un, den := ud } with
      | .chose i => (st, s!"chose {i}")
      | .raised => (st, "raised")
    | _, _, _, _ => (st, "bad-op")
  | ["probn", ord, n, den, un, ud, tb] =>
    match n.toNat?, den.toNat?, un.toNat?, ud.toNat?, csvIntPairs tb with
    | some n, some den, some un, some ud, some tb =>
      let byKey : Option (List Int) := (List.range tb.length).mapM fun i => (tb.find? (·.1 == i)).map (·.2)
      let covered := (List.range tb.length).all fun i => (tb.find? (·.1 == i)).isSome
      let ws := if ord = "key" then byKey else some (tb.map (·.2))
      if ¬ covered ∨ ¬ validatorSumOk den (tb.map (·.2)) then (st, "rejected") else
      match ws with
      | none => (st, "raised")
      | some ws =>
        match choiceNp n den ws { num := un, den := ud } with
        | .chose i => (st, s!"chose {i}")
        | .raised => (st, "raised")
    | _, _, _, _, _ => (st, "bad-op")
  | "t1-init" :: args =>
    match ints (args.take 19), args.drop 19 with
    | some [start, f, v, rkc, rst, ppn, ppd, pcn, pcd, pyn, pyd, att, rsc, ex, co, cont, d0, k1, k2], strs =>
      match mkCfg1 start f v rkc rst ppn ppd pcn pcd pyn pyd att rsc ex co cont strs with
      | some cfg =>
        match Tap1.init cfg d0 k1.toNat k2.toNat with
        | some s => ({ st with c1 := some cfg, s1 := some s }, s!"ok {s.startNode} {s.targetIp} {showSt1 s}")
        | none => ({ st with c1 := none, s1 := none }, "raised")
      | none => (st, "bad-op")
    | _, _ => (st, "bad-op")
  | "t1-step" :: args =>
    match st.c1, st.s1, ints args with
    | some cfg, some s, some [t, d1, d2, un, ud, ds, ok, he, ct, pg] =>
      let i : Tap1.In := { d1 := d1, d2 := d2, u := ⟨un.toNat, ud.toNat⟩, dScan := ds.toNat,
                           resp := { ok := tb ok, hostsEmpty := tb he, containsTarget := tb ct, hasPg := tb pg } }
      let (s', o) := Tap1.step cfg s t i
      match o with
      | .act a => ({ st with s1 := some s' }, s!"{showAct1 cfg s' a} | {showSt1 s'}")
      | .raised => ({ st with s1 := some s' }, "raised")
    | _, _, _ => (st, "bad-op")
  | ["rand", n, k] =>
    match n.toNat?, k.toNat? with
    | some n, some k =>
      match randomAgentChoice n k with
      | .chose i => (st, s!"chose {i}")
      | .raised => (st, "raised")
    | _, _ => (st, "bad-op")
  | ["t3-init", start, f, v, rkc, rst, ppn, ppd, pan, pad, pmn, pmd, pen, ped, d0, k, sn, dsn, accts, acls, creds] =>
    match ints [start, f, v, rkc, rst, ppn, ppd, pan, pad, pmn, pmd, pen, ped, d0, k], parseAccts accts, parseAcls acls, parseCreds creds with
    | some [start, f, v, rkc, rst, ppn, ppd, pan, pad, pmn, pmd, pen, ped, d0, k], some accts, some acls, some creds =>
      let cfg := mkCfg3 start f v rkc rst ppn ppd pan pad pmn pmd pen ped (csvStr sn) dsn accts acls creds
      match Tap3.init cfg d0 k.toNat with
      | some s => ({ st with c3 := some cfg, s3 := some s }, s!"ok {s.startNode} {showSt3 s}")
      | none => ({ st with c3 := none, s3 := none }, "raised")
    | _, _, _, _ => (st, "bad-op")
  | "t3-step" :: args =>
    match st.c3, st.s3, ints args with
    | some cfg, some s, some [t, d1, un, ud, ok, hr, hl] =>
      let i : Tap3.In := { d1 := d1, u := ⟨un.toNat, ud.toNat⟩, resp := { ok := tb ok, hasReason := tb hr, hasLoginData := tb hl } }
      let (s', o) := Tap3.step cfg s t i
      match o with
      | .act a => ({ st with s3 := some s' }, s!"{showAct3 a} | {showSt3 s'}")
      | .raised => ({ st with s3 := some s' }, "raised")
    | _, _, _ => (st, "bad-op")
  | _ => (st, "bad-op")

def main : IO Unit := runDriver ({} : DState) step
