import PrimaiteModel.Model.Basic
import PrimaiteModel.Model.Link
import PrimaiteModel.Model.LinkAccept
open Primaite Primaite.Link

/-
Line protocol (one answer line per input line):

  link <bw> <enA> <enB>          append a wired link                      -> ok
  chan <cap0,cap1,...> <en0> <en1> ...   append a wireless channel (hz); cap_i = capacity of interface i's frequency name -> ok
  chan <caps> en <bits> mem <bits>       the same with the membership flags (in the frequency's interface list) given separately -> ok
  tick                           Network.pre_timestep                     -> dump
  setbw <k> <v>                  link k: bandwidth := v                   -> ok
  setcap <c> <i> <v>             channel c, interface i: capacity of its frequency name := v -> ok
  act <event tokens>             one top-level action (a forest)          -> records ` | ` dump
  dump                                                                    -> dump
  reset                          (handled by runDriver)                   -> ok
  far <h|r|s|w> <en> <mac> <ip> <plen> <dstMac> <dstIp> <ttl> <ownIp,ownIp,...|->
                                 answer of the far interface's receive_frame (C08's acceptance model) -> 1 | 0

event tokens:   S k a s acc [ events ]     wired send on link k from end A (a=1) / B (a=0), size s, far answer acc
                W c i s [ events ]         wireless send on channel c from interface i
                E k a v                    wired interface enable/disable took effect
                F c i v                    wireless interface enable/disable took effect
                L k a s [ events ]         wired send that never returned (an exception unwound through transmit_frame)
                M c i s [ events ]         wireless send that never returned (an exception unwound through AirSpace.transmit)
                J c i / Q c i              add_wireless_interface / remove_wireless_interface took effect for interface i of channel c
                R c i j                    (inside a wireless send by i) the loop of AirSpace.transmit hands the frame to interface j
-/

def showVerdict : Verdict → String
  | .nolink => "nolink" | .disabled => "disabled" | .down => "down" | .full => "full"
  | .rejected => "rejected" | .carried => "carried" | .lost => "lost" | .heard => "heard" | .deaf => "deaf"

def showRec (r : Rec) : String :=
  if r.verdict == .heard || r.verdict == .deaf then
    -- one turn of the loop of AirSpace.transmit: channel, interface reached, does it hear the frame
    s!"H{r.k}:{",".intercalate (r.rcv.map toString)}:{showVerdict r.verdict}"
  else if r.wireless then
    s!"W{r.k}:{showVerdict r.verdict}:{showBool r.enS}:{r.load}"
  else
    s!"S{r.k}:{showVerdict r.verdict}:{showBool r.enS}{showBool r.enR}:{r.load}"

def dump (n : Net) : String :=
  " ".intercalate (n.links.map fun l => s!"L:{l.bw}:{l.load}:{showBool l.enA}{showBool l.enB}") ++ " / " ++
  " ".intercalate (n.chans.map fun c =>
    s!"C:{",".intercalate (c.caps.map toString)}:{c.load}:{"".intercalate (c.en.map showBool)}:{"".intercalate (c.mem.map showBool)}")

mutual
/-- Parse one event from the token list (fuel = number of tokens). -/
def parseEv : Nat → List String → Option (Ev × List String)
  | 0, _ => none
  | fuel + 1, "S" :: k :: a :: s :: acc :: "[" :: rest =>
    match k.toNat?, parseBool a, s.toNat?, parseBool acc, parseEvs fuel rest with
    | some k, some a, some s, some acc, some (nested, rest') => some (.send k a s acc nested, rest')
    | _, _, _, _, _ => none
  | fuel + 1, "W" :: c :: i :: s :: "[" :: rest =>
    match c.toNat?, i.toNat?, s.toNat?, parseEvs fuel rest with
    | some c, some i, some s, some (nested, rest') => some (.wsend c i s nested, rest')
    | _, _, _, _ => none
  | fuel + 1, "L" :: k :: a :: s :: "[" :: rest =>
    match k.toNat?, parseBool a, s.toNat?, parseEvs fuel rest with
    | some k, some a, some s, some (nested, rest') => some (.lost k a s nested, rest')
    | _, _, _, _ => none
  | fuel + 1, "M" :: c :: i :: s :: "[" :: rest =>
    match c.toNat?, i.toNat?, s.toNat?, parseEvs fuel rest with
    | some c, some i, some s, some (nested, rest') => some (.wlost c i s nested, rest')
    | _, _, _, _ => none
  | _ + 1, "J" :: c :: i :: rest =>
    match c.toNat?, i.toNat? with
    | some c, some i => some (.wjoin c i, rest)
    | _, _ => none
  | _ + 1, "Q" :: c :: i :: rest =>
    match c.toNat?, i.toNat? with
    | some c, some i => some (.wleave c i, rest)
    | _, _ => none
  | _ + 1, "R" :: c :: i :: j :: rest =>
    match c.toNat?, i.toNat?, j.toNat? with
    | some c, some i, some j => some (.wrecv c i j, rest)
    | _, _, _ => none
  | _ + 1, "E" :: k :: a :: v :: rest =>
    match k.toNat?, parseBool a, parseBool v with
    | some k, some a, some v => some (.setEn k a v, rest)
    | _, _, _ => none
  | _ + 1, "F" :: c :: i :: v :: rest =>
    match c.toNat?, i.toNat?, parseBool v with
    | some c, some i, some v => some (.wsetEn c i v, rest)
    | _, _, _ => none
  | _ + 1, _ => none
/-- Parse events up to the closing bracket (or the end of the line at top level). -/
def parseEvs : Nat → List String → Option (List Ev × List String)
  | 0, _ => none
  | _ + 1, [] => some ([], [])
  | _ + 1, "]" :: rest => some ([], rest)
  | fuel + 1, toks =>
    match parseEv fuel toks with
    | some (e, rest) =>
      match parseEvs fuel rest with
      | some (es, rest') => some (e :: es, rest')
      | none => none
    | none => none
end

def parseNats (ws : List String) : Option (List Nat) :=
  ws.foldr (fun w acc => match w.toNat?, acc with
    | some b, some bs => some (b :: bs)
    | _, _ => none) (some [])

def parseBools (ws : List String) : Option (List Bool) :=
  ws.foldr (fun w acc => match parseBool w, acc with
    | some b, some bs => some (b :: bs)
    | _, _ => none) (some [])

def step' (n : Net) : List String → Net × String
  | ["link", bw, a, b] =>
    match bw.toNat?, parseBool a, parseBool b with
    | some bw, some a, some b => ({ n with links := n.links ++ [{ bw, load := 0, enA := a, enB := b }] }, "ok")
    | _, _, _ => (n, "bad-op")
  | ["link", bw, a, b, load] =>
    -- a link that starts with a load left over (traffic of construction / of `reset()` before the first tick boundary)
    match bw.toNat?, parseBool a, parseBool b, load.toNat? with
    | some bw, some a, some b, some load => ({ n with links := n.links ++ [{ bw, load, enA := a, enB := b }] }, "ok")
    | _, _, _, _ => (n, "bad-op")
  | ["chan", caps, "en", en, "mem", mem] =>
    -- flags as bit strings, e.g. `chan 5,5,7 en 110 mem 100`
    let bits (w : String) : Option (List Bool) := parseBools (w.toList.map fun ch => String.singleton ch)
    match parseNats (caps.splitOn ","), bits en, bits mem with
    | some caps, some en, some mem =>
      if caps.length == en.length && caps.length == mem.length then
        ({ n with chans := n.chans ++ [{ caps, load := 0, en, mem }] }, "ok") else (n, "bad-op")
    | _, _, _ => (n, "bad-op")
  | "chan" :: caps :: flags =>
    match parseNats (caps.splitOn ","), parseBools flags with
    | some caps, some en =>
      if caps.length == en.length then ({ n with chans := n.chans ++ [{ caps, load := 0, en }] }, "ok") else (n, "bad-op")
    | _, _ => (n, "bad-op")
  | ["tick"] => let r := step n .tick; (r.1, dump r.1)
  | ["setbw", k, v] =>
    match k.toNat?, v.toNat? with
    | some k, some v => let r := step n (.setBw k v); (r.1, "ok")
    | _, _ => (n, "bad-op")
  | ["setcap", c, i, v] =>
    match c.toNat?, i.toNat?, v.toNat? with
    | some c, some i, some v => let r := step n (.setCap c i v); (r.1, "ok")
    | _, _, _ => (n, "bad-op")
  | "act" :: toks =>
    match parseEvs (2 * toks.length + 2) toks with
    | some (evs, []) =>
      let r := step n (.act evs)
      (r.1, " ".intercalate (r.2.map showRec) ++ " | " ++ dump r.1)
    | _ => (n, "bad-op")
  | ["far", kind, en, mac, ip, plen, dmac, dip, ttl, own] =>
    let kind? : Option Forward.Kind := match kind with
      | "h" => some .host | "r" => some .router | "s" => some .switch | "w" => some .router | _ => none
    let isWap := kind == "w"
    let own? := if own == "-" then some [] else parseNats (own.splitOn ",")
    match kind?, parseBool en, mac.toNat?, ip.toNat?, plen.toNat?, dmac.toNat?, dip.toNat?, ttl.toInt?, own? with
    | some kind, some en, some mac, some ip, some plen, some dmac, some dip, some ttl, some own =>
      let nd := farNode kind (own.map (BitVec.ofNat 32))
      let ifc : Forward.Iface := { mac, ip := BitVec.ofNat 32 ip, plen, enabled := en }
      let f : Forward.Frame := { id := 0, srcMac := 0, dstMac := dmac, srcIp := 0, dstIp := BitVec.ofNat 32 dip, ttl, pl := .dataReq }
      (n, showBool (if isWap then farAnswerWap ifc f else farAnswer nd ifc f))
    | _, _, _, _, _, _, _, _, _ => (n, "bad-op")
  | ["dump"] => (n, dump n)
  | _ => (n, "bad-op")

def main : IO Unit := runDriver init step'
