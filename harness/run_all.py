#!/usr/bin/env python3
"""Run every registered check (quick by default) on /repo as it is and summarise; used before committing evidence."""
import json, subprocess, sys, time
from pathlib import Path
V = Path(__file__).resolve().parents[1]
tier = sys.argv[1] if len(sys.argv) > 1 else "quick"
only = sys.argv[2:]
m = json.loads((V / "MANIFEST.json").read_text())
bad = 0
for c in m["checks"]:
    if only and c["property_id"] not in only:
        continue
    cmd = c["quick_cmd"] if tier == "quick" else c["thorough_cmd"]
    t = time.time()
    p = subprocess.run(cmd, shell=True, cwd=V, stdout=subprocess.PIPE, stderr=subprocess.STDOUT, text=True)
    last = [l for l in p.stdout.splitlines() if l.startswith(("OK ", "VIOLATION", "KNOWN-FINDING", "INTERNAL"))]
    print(f"{c['property_id']} rc={p.returncode} {time.time() - t:.0f}s :: " + " | ".join(last)[:300])
    bad += p.returncode != 0
sys.exit(1 if bad else 0)
