"""C11 — the action mask agrees with what the simulator would refuse."""
from __future__ import annotations

import json
from typing import Any, Dict, List

from harness.extract import action_mask as x_mask
from harness.extract import action_templates as x_templ
from harness.extract import request_callers as x_callers
from harness.extract import request_core as x_core
from harness.extract import request_schema as x_schema
from harness.extract import request_validators as x_valid
from harness.lib import scen
from harness.lib.core import Ctx, lean_lock
from harness.props import c05
from harness.rigs import request as rig
from harness.rigs import request_siblings as sibs

MANIFEST = {
    "text": "Lean 4 proof, for every request tree, validator valuation and request, that the model of RequestManager.check_valid is true "
            "exactly when the model of __call__ reaches a handler (C11_mask_iff_reaches), hence a masked-out action is answered "
            "unreachable/failure and an allowed one is never refused; that the mask equals 'target exists and every permission rule on "
            "the path holds'; that action_mask lays the verdicts out by action number for every listing order of the action map "
            "(C11_mask_by_action_number, C11_masked_number_iff_reaches) and that a mask entry depends on nothing but its own action "
            "(C11_mask_entry_depends_only_on_its_action); with the valuation induced by the regenerated translation of every validator "
            "__call__ (proved equal to its declarative specification in C05Guards) and the falsy context action_mask passes, bit i = "
            "'the path of action i exists and every rule on it holds for the options it is given' (C11_mask_bit_iff_rules_hold), and a "
            "masked-out request has a missing target or a nameable false rule (C11_masked_out_names_a_false_rule). Sharing guard verdicts between the entries of one mask (a per-edge memo) is "
            "modelled and proved equal to the mask for every tree and map IF every rule ignores its options "
            "(C11_memo_sound_of_option_free), refuted for name-reading rules by a decided counterexample (C11_memo_counterexample), and "
            "the regenerated translation of every validator __call__ is classified: node/NIC/service/application/group rules are "
            "option-free, the five file-system rules give different verdicts to siblings (C11_gen_option_free_rules, "
            "C11_gen_option_reading_rules). The pre-repair leaf-only traversal is refuted by a decided counterexample (F-19, fixed). "
            "Tie: statement shape of check_valid / __call__ regenerated from core.py (C11_gen_check_valid_shape; an optional parameter "
            "is translated by specialising the body to its default, only if no call site passes it), shape of action_mask / "
            "action_masks / get_action / schema regenerated (C11_gen_action_mask_shape); rig R-req compares the real check_valid with "
            "the model on every route, mutation and action request of live trees; the environment-level rig compares, for EVERY "
            "action-map entry at EVERY step of random episodes (nodes shutting down/booting, services restarting; action maps re-listed "
            "in shuffled order; a sibling-divergence family whose action map aims every target-taking action type at two files of a "
            "folder / two folders, services, applications of a host / two ports of a network node and whose history drives the "
            "siblings apart), the real mask bit with whether the real __call__ reaches a (stubbed) handler, executes entries for real "
            "against their bit, steps the environment against the mask read before the step (countdown boundaries), checks that "
            "nothing of the mask survives a reset and that computing the mask is a pure observation. The step around the mask is tied by "
            "Gen/RequestCallers: the request the mask checks and the request the step executes are the same form_request of the same pair "
            "(C11_gen_mask_and_step_form_same_request), and pre_timestep assigns no field a permission rule reads "
            "(C11_gen_pretimestep_disjoint_from_rules).",
    "note": "C11-specific: form_request of each action is exercised on the real classes, not modelled; validator truth values are read "
            "from the real objects; that the step's own pre-processing changes no rule's truth is tested (boundary family), not proved; "
            "PrimaiteRayEnv wrappers are not driven.",
    "technique": "Lean 4 theorems (mask = reaches-handler; layout by number; memo soundness iff option-free) over the dispatch model; "
                 "regenerated shape tables and translated validators; differential rig incl. full and sibling action maps",
    "design_ref": "5/C11",
}
MODULES = ["PrimaiteModel.Props.C11", "PrimaiteModel.Props.C11Memo", "PrimaiteModel.Props.C11Rules", "PrimaiteModel.Props.C11Step"]
EXE = "drv_c05"
MASK_SCEN = ["data_manipulation", "test_primaite_session", "extended_config"]
OTHER_SIBLING_SCEN = ["uc7_config", "firewall_actions_network", "basic_switched_network", "nodes_with_initial_files",
                      "install_and_configure_apps", "test_application_install"]



def _relist_action_maps(cfg: Dict, order: str, rng) -> int:
    """Re-list the entries of every agent's `action_map` (a mapping: the order of its keys in the file is free; the schema only
    wants every number 0..N-1 to be a key). Returns how many entries no longer stand at the position of their number."""
    moved = 0
    for a in cfg.get("agents", []):
        am = (a.get("action_space") or {}).get("action_map")
        if not isinstance(am, dict) or len(am) < 2 or order == "as-listed":
            continue
        keys = list(am.keys())
        keys = list(reversed(keys)) if order == "reversed" else rng.shuffle(keys)
        a["action_space"]["action_map"] = {k: am[k] for k in keys}
        moved += sum(1 for pos, k in enumerate(keys) if k != pos)
    return moved


def _stepped_action_check(env, a: int) -> Dict[str, Any]:
    """Read the mask as a user does, take `env.step(a)`, and compare the bit of `a` with the response recorded for it. Only steps in
    which every OTHER agent did nothing are judged (another agent acting earlier in the same tick may legitimately change the
    state between the mask and the action)."""
    bit = bool(list(env.action_masks())[a])
    with rig.ValidatorSpy() as spy:
        env.step(a)
    item = env.agent.history[-1]
    st = getattr(item.response, "status", None)
    reason = (getattr(item.response, "data", {}) or {}).get("reason")
    others_idle = all(ag.history[-1].action == "do-nothing" for nm, ag in env.game.agents.items() if ag is not env.agent and ag.history)
    by_rule = st == "failure" and reason is not None and reason in spy.false_messages
    out = {"bit": int(bit), "status": st, "reason": reason, "violation": None,
           "class": ("allowed" if bit else "masked") + ":" + str(st) + ("" if others_idle else ":others-acted")}
    if others_idle:
        if bit and (by_rule or st == "unreachable"):
            out["violation"] = "allowed-action-refused-by-rule-in-step"
        elif not bit and st == "success":
            out["violation"] = "masked-out-action-succeeded-in-step"
    return out


def env_level(ctx: Ctx):
    """Every action-map entry at every step: mask bit == would reach a handler (checked with stubbed handlers)."""
    rng = ctx.rng.fork("mask-env")
    shipped = scen.shipped()
    names = [n for n in MASK_SCEN if n in shipped][: ctx.scale(2, 3)]
    total = agree = executed = stepped = 0
    variants = [(n, o) for n in names for o in (("as-listed", "shuffled") if not ctx.thorough else ("as-listed", "shuffled", "reversed"))]
    # sibling-divergence family: the same scenarios with an action map that aims every target-taking action type at >= 2 siblings
    # (two files of a folder, two folders / services / applications of a host, two ports of a router), driven apart by the history
    variants += [(n, "siblings") for n in [n for n in MASK_SCEN if n in shipped][: ctx.scale(3, 3)] for _ in range(ctx.scale(1, 2))]
    # … and on scenarios shipped WITHOUT action masking (other topologies: uc7, firewall, flat switched networks), masking switched on
    others = [n for n in sibs.other_scenarios() if n not in MASK_SCEN and n in OTHER_SIBLING_SCEN]
    variants += [(n, "siblings*") for n in (others if ctx.thorough else rng.shuffle(others)[:1])]
    if any(not o["ok"] for o in ctx.obligations):   # search stage: a tie or proof obligation is broken -> more sibling histories
        variants += [(n, "siblings") for n in names for _ in range(2)]
    for name, order in variants:
        sib, sib_seed = None, None
        try:
            cfg = scen.load_cfg(shipped[name])
            if order.startswith("siblings"):
                sib_seed = rng.below(10 ** 6)
                cfg, sib = sibs.sibling_cfg(cfg, sib_seed, force_masking=order.endswith("*"))
                relisted = 0
                ctx.count("siblings:entries-added", sib["added"])
            else:
                relisted = _relist_action_maps(cfg, order, rng)
            env = scen.make_env(cfg)
        except Exception as e:
            ctx.notes.append(f"scenario {name} not buildable as env: {type(e).__name__}: {str(e)[:100]}")
            continue
        key_order = [list(((a.get("action_space") or {}).get("action_map") or {}).keys()) for a in cfg.get("agents", [])]
        base_name = name
        rp0 = {"scenario": base_name, "key_order": key_order}
        if sib is not None:
            rp0["siblings"] = sib_seed
            rp0["siblings_force_masking"] = order.endswith("*")
        ctx.count(f"action-map-order:{order}")
        ctx.count("action-map-entries-listed-out-of-ascending-order", relisted)
        name = f"{name}[{order}]"
        shape_seen: set = set()
        for ep in range(ctx.scale(2, 3) if order == "as-listed" else 1):
            ep_seed = rng.below(10 ** 6)
            if ep > 0:
                # reset-boundary oracle: a user who read the mask after the LAST step of an episode and reads it again right after
                # reset() must get the mask of the NEW episode's initial state (nothing may be carried across the reset)
                before = [int(b) for b in env.action_masks()]
                env.reset(seed=ep_seed)
                after = [int(b) for b in env.action_masks()]
                fresh = [int(b) for b in env.game.action_mask(env._agent_name)] if env.agent.config.agent_settings.action_masking else after
                ctx.count("reset-boundary:" + ("mask-changed-over-reset" if before != after else "mask-same-over-reset"))
                if after != fresh:
                    bad = [i for i in range(len(after)) if after[i] != fresh[i]]
                    ctx.violation({"kind": "mask-carried-across-reset", "entries": len(bad)},
                                  f"{name} reset before ep{ep}: env.action_masks() right after reset() differs from the mask of the new "
                                  f"episode's state at {len(bad)} entries, e.g. action {bad[0]} {amap[bad[0]][0]} {amap[bad[0]][1]}: "
                                  f"handed out {after[bad[0]]}, state says {fresh[bad[0]]}",
                                  {"mode": "mask-reset", **rp0, "seed": prev_seed,
                                   "actions": list(taken), "reset_seed": ep_seed})
            else:
                env.reset(seed=ep_seed)
            prev_seed = ep_seed
            taken: List[Any] = []  # what led to the current state: action numbers (env.step) and raw requests (executed-action oracle)
            n_actions = env.action_space.n
            amap = env.agent.action_manager.action_map
            # bias towards power/service transitions so that transitional states are visited
            trans = [i for i, (ident, _) in amap.items() if any(k in ident for k in ("shutdown", "startup", "reset", "restart", "stop",
                                                                                       "install", "disable", "remove"))]
            raws: List[List[Any]] = []
            if sib is not None:   # drive SIBLINGS apart: delete one file of a folder, stop one service of a host, one folder of two …
                trans = sibs.diverging(amap, sib["first"]) or trans
                raws = sibs.raw_divergers(sib["hosts"])
            for step in range(ctx.scale(20, 120) if order == "as-listed" else (ctx.scale(32, 64) if sib is not None else ctx.scale(12, 60))):
                sim = env.game.simulation
                if raws and rng.chance(1, 5):
                    q = rng.choice(raws)
                    try:
                        sim.apply_request(list(q))
                    except Exception:
                        pass
                    taken.append(list(q))
                    ctx.count("siblings:raw-folder-request")
                mask = list(env.action_masks())
                if len(mask) != n_actions or sorted(amap) != list(range(n_actions)):
                    ctx.violation({"kind": "mask-length-or-numbering", "len": len(mask), "n": n_actions},
                                  f"{name}: mask has {len(mask)} bits for {n_actions} actions / keys {sorted(amap)[:5]}…",
                                  {"scenario": name, "episode": ep, "step": step})
                    break
                if step % (3 if sib is not None else 6) == 0:
                    # computing the mask is an observation: asking twice gives the same array and the simulation's described state
                    # is what it was (a verdict kept from the first computation, or a rule with a side effect, shows here)
                    before_state = json.dumps(sim.describe_state(), sort_keys=True, default=str)
                    again = list(env.game.action_mask(env._agent_name)) if env.agent.config.agent_settings.action_masking else list(env.action_masks())
                    after_state = json.dumps(sim.describe_state(), sort_keys=True, default=str)
                    ctx.count("mask-purity:checked")
                    if [int(b) for b in again] != [int(b) for b in mask] or before_state != after_state:
                        ctx.violation({"kind": "mask-computation-not-pure", "state_changed": before_state != after_state},
                                      f"{name} ep{ep} step{step}: computing the action mask a second time "
                                      + ("changed the simulation's described state" if before_state != after_state else
                                         f"gave a different mask at entries {[i for i in range(len(mask)) if int(mask[i]) != int(again[i])][:6]}"),
                                      {"mode": "mask-pure", **rp0, "seed": ep_seed, "actions": list(taken), "episode": ep, "step": step,
                                       "action_index": 0})
                if sib is not None:
                    # live-tree shape oracle: every live service / application / NIC / folder / file is routed, under its name, to ITS OWN
                    # request manager (a route whose func is anything else — a bound method, another component's manager — is a leaf or
                    # a stranger to `check_valid`, whatever `__call__` makes of it); evaluated after run-time creations too
                    for mm in rig.structure_mismatches(sim)[:3]:
                        if json.dumps(mm, sort_keys=True) in shape_seen:
                            continue   # one report per mismatch and variant (it stays in the tree for the rest of the episode)
                        shape_seen.add(json.dumps(mm, sort_keys=True))
                        ctx.violation({"kind": "live-route-shape", "what": mm.get("kind"), "level": mm.get("level")},
                                      f"{name} ep{ep} step{step}: live request tree: {mm}",
                                      {"mode": "mask-shape", **rp0, "seed": ep_seed, "actions": list(taken), "episode": ep, "step": step,
                                       "action_index": 0})
                if sib is not None:   # how often the history really has siblings in DIFFERENT conditions when the mask is computed
                    groups: Dict[Any, set] = {}
                    for i, (ident, opts) in amap.items():
                        if i >= sib["first"]:
                            groups.setdefault((ident, opts.get("node_name") or opts.get("target_nodename")), set()).add(int(mask[i]))
                    split = sorted({g[0].split("-")[1] for g, bits in groups.items() if len(bits) == 2})
                    ctx.count("siblings:masks-computed")
                    ctx.count("siblings:action-type-and-node-groups-with-both-bits", sum(1 for bits in groups.values() if len(bits) == 2))
                    for kind in split:
                        ctx.count(f"siblings:masks-with-split-{kind}-siblings")
                snap = rig.Snap(sim._request_manager)
                with rig.Probe(sim, snap, stub=True) as probe:
                    for i, (ident, opts) in amap.items():
                        req = env.agent.action_manager.form_request(ident, opts)
                        out, _ = probe.call(req)
                        reached = out.startswith("reached")
                        total += 1
                        ctx.count("mask:" + ("allowed" if mask[i] else "masked"))
                        ctx.case({"sc": name, "ep": ep, "step": step, "i": i, "m": int(mask[i])}, not mask[i])
                        if bool(mask[i]) == reached:
                            agree += 1
                        else:
                            ctx.violation({"kind": "mask-disagrees-with-execution", "mask": int(mask[i]), "outcome": out.split()[0],
                                           "action": ident},
                                          f"{name} ep{ep} step{step}: action {i} {ident} {opts}: mask={int(mask[i])} but __call__ -> {out}",
                                          {"mode": "mask-env", **rp0, "seed": ep_seed,
                                           "actions": list(taken), "episode": ep, "step": step, "action_index": i, "req": req})
                # executed-action oracle: the mask bit computed immediately before REALLY executing the entry's request
                fileops = [i for i, (ident, _) in amap.items() if ("file" in ident or "folder" in ident) and (sib is None or i >= sib["first"])]
                rt_entries = [] if sib is None else [
                    i for i, (ident, o) in amap.items() if i >= sib["first"] and (
                        o.get("application_name") in sib["runtime_apps"].get(o.get("node_name"), []) or o.get("folder_name") == sibs.RT_FOLDER
                        or o.get("file_name") == sibs.RT_FILE)]
                for pick in range(ctx.scale(3, 6) if sib is None else 2):
                    i = rng.choice(fileops) if fileops and rng.chance(1, 2) else rng.below(n_actions)
                    if sib is not None and pick == 1 and rt_entries:
                        i = rng.choice(rt_entries)   # really execute an entry aimed at a target created during the episode
                    ident, opts = amap[i]
                    req = env.agent.action_manager.form_request(ident, opts)
                    bit = bool(sim._request_manager.check_valid(list(req), {}))
                    with rig.ValidatorSpy() as spy:
                        taken.append(list(req))
                        try:
                            resp = sim.apply_request(list(req))
                        except Exception as e:
                            ctx.violation({"kind": "request-raises", "exc": type(e).__name__, "action": ident},
                                          f"{name}: executing action {i} {ident} {opts} raised {type(e).__name__}: {str(e)[:100]}",
                                          {"scenario": name, "req": req})
                            continue
                    st = getattr(resp, "status", None)
                    reason = (getattr(resp, "data", {}) or {}).get("reason")
                    by_rule = st == "failure" and reason is not None and reason in spy.false_messages
                    executed += 1
                    ctx.count("executed:" + ("allowed" if bit else "masked") + ":" + str(st))
                    if bit and (by_rule or st == "unreachable"):
                        ctx.violation({"kind": "allowed-action-refused-by-rule", "action": ident, "status": st},
                                      f"{name} ep{ep} step{step}: mask allowed action {i} {ident} {opts} but it was refused: {st} {reason!r}",
                                      {"mode": "mask-exec", **rp0, "seed": ep_seed,
                                       "actions": list(taken[:-1]), "episode": ep, "step": step, "action_index": i, "req": req, "reason": reason})
                    if not bit and st == "success":
                        ctx.violation({"kind": "masked-out-action-succeeded", "action": ident},
                                      f"{name} ep{ep} step{step}: masked-out action {i} {ident} {opts} succeeded",
                                      {"mode": "mask-exec", **rp0, "seed": ep_seed,
                                       "actions": list(taken[:-1]), "episode": ep, "step": step, "action_index": i, "req": req})
                a = rng.choice(trans) if trans and rng.chance(1, 2) else rng.below(n_actions)
                if sib is not None and not rng.chance(1, 6):   # stay among the sibling entries
                    a = rng.choice(trans) if rng.chance(1, 2) else sib["first"] + rng.below(sib["added"])
                if sib is not None and step < len(sib["prologue"]):
                    # the first steps bring the run-time targets into being (create folder / files, INSTALL an application the host does
                    # not have), one per step (= one tick): the whole mask is compared before every step, so every tick of INSTALLING
                    # and every later state of their life is seen
                    a = sib["prologue"][step]
                    ctx.count("siblings:run-time-target-created:" + amap[int(a)][0])
                # stepped-action oracle: the mask the USER holds (read before the step) against what `env.step(a)` does with
                # action a — "executing it now" includes whatever the step does before the agent acts (pre_timestep)
                v = _stepped_action_check(env, int(a))
                stepped += 1
                ctx.count("stepped:" + v["class"])
                if v["violation"]:
                    ident, opts = amap[int(a)]
                    ctx.violation({"kind": v["violation"], "action": ident, "status": v["status"]},
                                  f"{name} ep{ep} step{step}: env.step({int(a)}) = {ident} {opts}: mask bit read before the step = {v['bit']}, "
                                  f"answer {v['status']} {v['reason']!r}",
                                  {"mode": "mask-step", **rp0, "seed": ep_seed,
                                   "actions": list(taken), "episode": ep, "step": step, "action_index": int(a)})
                taken.append(int(a))
        # countdown-boundary family: a trigger (restart / shutdown / startup / reset) followed, after k idle steps for every k around
        # the configured durations, by an action on the same component — the step in which a countdown runs out is where the mask a
        # user holds and what the step does can come apart
        if order == "as-listed":
            idle = next((i for i, (ident, _) in amap.items() if ident == "do-nothing"), None)
            trig = [i for i, (ident, o) in amap.items() if ident in ("node-service-restart", "node-shutdown", "node-startup", "node-reset")]
            pairs = []
            for t in trig:
                tid, to = amap[t]
                for f, (fid, fo) in amap.items():
                    if f != t and fo.get("node_name") == to.get("node_name") and to.get("node_name") is not None \
                            and (to.get("service_name") is None or fo.get("service_name") == to.get("service_name")):
                        pairs.append((t, f))
            chosen = []
            for kind in ("node-service-restart", "node-shutdown", "node-startup", "node-reset"):   # every trigger kind gets its turn
                # restarts: every follow-up of up to two services (the countdown of a service is the one the step itself completes)
                chosen += rng.shuffle([pf for pf in pairs if amap[pf[0]][0] == kind])[: (ctx.scale(10, 30) if kind == "node-service-restart" else ctx.scale(2, 6))]
            # the follow-ups whose OWN rule flips when a power countdown completes (startup wants OFF, shutdown / reset want ON) are always
            # among them: they are the ones that tell a countdown completed early or late from one completed on time
            power = [pf for pf in pairs if amap[pf[0]][0] in ("node-shutdown", "node-startup", "node-reset")
                     and amap[pf[1]][0] in ("node-shutdown", "node-startup", "node-reset")]
            for kind in ("node-shutdown", "node-startup", "node-reset"):
                chosen += [pf for pf in rng.shuffle([pf for pf in power if amap[pf[0]][0] == kind]) if pf not in chosen][: ctx.scale(2, 4)]
            for t, f in (chosen if idle is not None else []):
                for k in range(0, ctx.scale(8, 10)):
                    plan = [t] + [idle] * k
                    if amap[t][0] == "node-startup":   # the node has to be off first
                        sd = next((i for i, (ident, o) in amap.items() if ident == "node-shutdown" and o.get("node_name") == amap[t][1].get("node_name")), None)
                        if sd is None:
                            break
                        plan = [sd] + [idle] * 4 + plan
                    for attempt in range(3):   # a step in which another agent acted is not judged: try another seed
                        ep_seed = rng.below(10 ** 6)
                        env.reset(seed=ep_seed)
                        for a in plan:
                            env.step(a)
                        v = _stepped_action_check(env, int(f))
                        if not v["class"].endswith("others-acted"):
                            break
                    stepped += 1
                    ctx.count("boundary:" + amap[t][0] + ":" + v["class"])
                    ctx.case({"sc": name, "boundary": [t, f, k]}, not v["bit"])
                    if v["violation"]:
                        ctx.violation({"kind": v["violation"], "action": amap[f][0], "status": v["status"], "after": amap[t][0]},
                                      f"{name}: {amap[t][0]} {amap[t][1]}, {k} idle steps, then env.step({f}) = {amap[f][0]} {amap[f][1]}: mask bit "
                                      f"read before the step = {v['bit']}, answer {v['status']} {v['reason']!r}",
                                      {"mode": "mask-step", **rp0, "seed": ep_seed,
                                       "actions": [int(x) for x in plan], "episode": -1, "step": len(plan), "action_index": int(f)})
        env.close()
    ctx.cov["mask_entries_compared"] = total
    ctx.cov["actions_really_executed_against_their_mask_bit"] = executed
    ctx.cov["actions_stepped_against_the_mask_read_before_the_step"] = stepped
    ctx.oblige("rig:mask bit == reaches handler, every action-map entry at every step", "correspondence", agree == total,
               f"{total - agree} of {total} entries disagree")


def replay(rec: dict) -> bool:
    rp = rec["replay"]
    if rp.get("mode") not in ("mask-env", "mask-exec", "mask-step", "mask-reset", "mask-pure", "mask-shape"):
        return c05.replay(rec)
    # rebuild the environment with the recorded listing order of every action map, re-seed, re-take the recorded actions, and
    # compare the mask bit of the recorded entry with what __call__ does (stubbed handlers) at that state
    cfg = scen.load_cfg(scen.shipped()[rp["scenario"]])
    if rp.get("siblings") is not None:
        cfg, _ = sibs.sibling_cfg(cfg, rp["siblings"], force_masking=bool(rp.get("siblings_force_masking")))
    for a, keys in zip(cfg.get("agents", []), rp["key_order"]):
        am = (a.get("action_space") or {}).get("action_map")
        if isinstance(am, dict) and keys:
            a["action_space"]["action_map"] = {k: am[k] for k in keys}
    env = scen.make_env(cfg)
    env.reset(seed=rp["seed"])
    if rp["mode"] == "mask-reset":
        for a in rp["actions"]:
            if isinstance(a, list):
                try:
                    env.game.simulation.apply_request(list(a))
                except Exception:
                    pass
            else:
                env.step(a)
        env.action_masks()
        env.reset(seed=rp["reset_seed"])
        after = [int(b) for b in env.action_masks()]
        fresh = [int(b) for b in env.game.action_mask(env._agent_name)] if env.agent.config.agent_settings.action_masking else after
        env.close()
        return after == fresh
    for a in rp["actions"]:
        if isinstance(a, list):
            try:
                env.game.simulation.apply_request(list(a))
            except Exception:
                pass
        else:
            env.step(a)
    sim = env.game.simulation
    i = rp["action_index"]
    if rp["mode"] == "mask-shape":
        bad = rig.structure_mismatches(sim)
        env.close()
        return not bad
    if rp["mode"] == "mask-pure":
        m1 = [int(b) for b in env.action_masks()]
        s1 = json.dumps(sim.describe_state(), sort_keys=True, default=str)
        m2 = [int(b) for b in env.game.action_mask(env._agent_name)] if env.agent.config.agent_settings.action_masking else m1
        s2 = json.dumps(sim.describe_state(), sort_keys=True, default=str)
        env.close()
        return m1 == m2 and s1 == s2
    if rp["mode"] == "mask-step":
        v = _stepped_action_check(env, i)
        env.close()
        return v["violation"] is None
    bit = bool(list(env.action_masks())[i])
    ident, opts = env.agent.action_manager.action_map[i]
    req = env.agent.action_manager.form_request(ident, opts)
    if rp["mode"] == "mask-exec":  # really execute the entry and apply the executed-action oracle
        bit = bool(sim._request_manager.check_valid(list(req), {}))
        with rig.ValidatorSpy() as spy:
            try:
                resp = sim.apply_request(list(req))
            except Exception:
                env.close()
                return False
        st = getattr(resp, "status", None)
        reason = (getattr(resp, "data", {}) or {}).get("reason")
        by_rule = st == "failure" and reason is not None and reason in spy.false_messages
        env.close()
        return not ((bit and (by_rule or st == "unreachable")) or (not bit and st == "success"))
    snap = rig.Snap(sim._request_manager)
    with rig.Probe(sim, snap, stub=True) as probe:
        out, _ = probe.call(req)
    env.close()
    return bit == out.startswith("reached")


def run(ctx: Ctx):
    with lean_lock():
        ctx.extract("RequestCore", x_core.emit)
        ctx.extract("ActionMask", x_mask.emit)
        ctx.extract(x_callers.GEN_NAME, x_callers.emit)   # Props/C11Step: mask and step form the same request; pre_timestep vs rules
        ctx.extract(x_templ.GEN_NAME, x_templ.emit)    # Props/C11Rules imports Props/C05Guards -> C05Schema -> Gen/ActionTemplates
        ctx.extract(x_schema.GEN_NAME, x_schema.emit)  # Props/C11Memo: on which edges of the tree those rules stand
        ctx.extract(x_valid.GEN_NAME, x_valid.emit)   # Props/C11Memo: which translated rules read their options
        ctx.prove(MODULES, exes=[EXE], leanchecker=ctx.thorough)
    ctx.cov["rule"] = ("(a) every route / mutation / action request of live trees at random states: real check_valid vs model checkValid and vs "
                       "real dispatch; (b) every action-map entry at every step of random episodes on scenarios with action masking; "
                       "non-trivial = masked-out entries; distinct by (scenario, episode/round, step, entry)")
    recs = c05.explore(ctx, want_live=False, structure=False)
    tot = ok = 0
    for r in recs:
        if r["kind"] == "tree":
            continue
        tot += 1
        ctx.cov["traces_validated_against_impl"] += 1
        ctx.case({"req": r["req"], "scenario": r["scenario"], "round": r["round"]}, r["model_mask"] == "0")
        reached = r["impl"].startswith("reached")
        if r["impl_mask"].startswith("raised"):
            ctx.violation({"kind": "check_valid-raises", "exc": r["impl_mask"].split()[1], "family": r["kind"].split(":")[0]},
                          f"check_valid({r['req']}) raised {r['impl_mask']}", {"scenario": r["scenario"], "round": r["round"], "req": r["req"]})
        elif r["impl_mask"] != r["model_mask"]:
            ctx.violation({"kind": "check_valid-differs-from-model", "family": r["kind"].split(":")[0]},
                          f"check_valid({r['req']}) = {r['impl_mask']} but the proved model says {r['model_mask']}",
                          {"scenario": r["scenario"], "round": r["round"], "req": r["req"], "impl": r["impl"], "model": r["model"]})
        elif (r["impl_mask"] == "1") != reached and not r["impl"].startswith("raised"):
            ctx.violation({"kind": "mask-disagrees-with-execution", "mask": int(r["impl_mask"]), "outcome": r["impl"].split()[0]},
                          f"check_valid({r['req']}) = {r['impl_mask']} but __call__ -> {r['impl']}",
                          {"scenario": r["scenario"], "round": r["round"], "req": r["req"]})
        else:
            ok += 1
    ctx.oblige("rig:R-req check_valid agrees with the model and with execution", "correspondence", ok == tot, f"{tot - ok} of {tot} differ")
    for r in recs[1:4]:
        ctx.sample({"scenario": r["scenario"], "req": r.get("req"), "mask": r.get("impl_mask"), "dispatch": r.get("impl")})
    env_level(ctx)
