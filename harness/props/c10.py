"""C10 — reward = weighted sum of components; shared rewards use same-step values; cyclic sharing rejected;
sticky vs non-sticky; episode total = sum of step rewards."""
from __future__ import annotations

import itertools
import json
from typing import Any, Dict, List, Optional, Tuple

from harness.lib.core import VERIF, Ctx, Rng, lean_lock, run_driver, shrink_ops
from harness.extract import reward as x_reward
from harness.rigs import reward as rig

MANIFEST = {
    "text": "Lean 4 proof, for every sharing graph, neighbour order, agent declaration order, component list, weight and "
            "step sequence, about an executable model of science.graph_has_cycle / topological_sort (as written), "
            "RewardFunction.update, the reward components and PrimaiteGame.setup_reward_sharing / update_agents: cyclic graphs "
            "are exactly the rejected ones; the evaluation order lists every agent once, dependencies first; each step reward "
            "is the weighted sum of the components on the post-step state and the agent's latest item, with every shared "
            "component equal to the other agent's reward of the same step; the rewards do not depend on the evaluation "
            "order or the declaration order; sticky components keep their value until the next qualifying event and "
            "non-sticky ones return to zero; totals are sums of step rewards. Tie: Gen/Reward.lean regenerated from "
            "rewards.py / game.py / science.py + differential rig R-rew through the real PrimaiteGame.from_config "
            "(every sharing graph on <= 4 agents; agents with two or more shared-reward components, cycles through any of them), "
            "real update_agents on synthetic states, and real PrimaiteGymEnv / PrimaiteGame runs on the shipped and on generated "
            "scenarios. The graph handed to graph_has_cycle is compared with the declared shares on every load; a Python step "
            "oracle (component taps) checks same-step shared values and the weighted sum on the implementation alone.",
    "note": "C10-specific: the theorems are about exact rational arithmetic (and, for the weighted sum, any associative arithmetic "
            "with a zero). The rig compares exactly where float arithmetic is exact (dyadic families) and otherwise (decimal weights "
            "such as 0.4 / 0.05, shipped scenarios as they are) gives the model the exact value of every double and requires the "
            "implementation's floats to lie within an accumulated forward rounding bound (2^-53 per operation). The simulation state "
            "is abstracted to the keys the components read.",
    "technique": "Lean 4 theorems over executable models of the graph functions and the reward layer; model tied by "
                 "regenerated tables and a differential rig",
    "design_ref": "5/C10",
}
MODULES = ["PrimaiteModel.Props.C10"]
EXE = "drv_c10"


# ----------------------------------------------------------------------------------------------- one case, both sides
def _answers(lines: List[str], model_out: List[str]) -> List[str]:
    return [o for l, o, keep in zip(lines, model_out, rig.answer_mask(lines)) if keep]


def _diff_case(case: dict):
    impl, capture = rig.run_impl(case)
    lines = rig.model_lines(case, capture)
    out = run_driver(EXE, lines)
    if "bad-op" in out:
        raise RuntimeError(f"driver rejected a line of {lines}")
    model = _answers(lines, out)
    cmp_case = dict(case, **capture["observed"]) if case["family"] == "env" else case
    i = rig.first_diff(cmp_case, impl, model, capture)
    return i < 0, impl, model, i, lines, capture


def _comp_tag(c: dict) -> str:
    return c["kind"] + (":" + ("sticky" if c["sticky"] else "nonsticky") if "sticky" in c else "")


def _sig(case: dict, impl: List[str], model: List[str], i: int) -> dict:
    if case["family"] == "graph":
        return {"kind": "model-vs-impl", "line": "graph"}
    line = "load" if i == 0 else ("step" if i % 2 == 1 else "mem")
    comps = sorted({_comp_tag(c) for a in case["agents"] for c in a["comps"]})
    return {"kind": "model-vs-impl", "line": line, "comps": ",".join(comps), "agents": len(case["agents"])}


def _shrink(case: dict) -> dict:
    """Smallest failing variant: fewer steps, then fewer components, then fewer agents."""
    if case["family"] != "game":
        return case

    def fails(c) -> bool:
        try:
            return not _diff_case(c)[0]
        except Exception:
            return False
    cur = case
    if len(cur["steps"]) >= 2:
        steps = shrink_ops(cur["steps"], lambda ops: fails(dict(cur, steps=ops)), budget=60)
        if fails(dict(cur, steps=steps)):
            cur = dict(cur, steps=steps)
    changed = True
    budget = 80
    while changed and budget > 0:
        changed = False
        for ai, a in enumerate(cur["agents"]):
            for ci in range(len(a["comps"])):
                budget -= 1
                agents = [dict(x, comps=[c for j, c in enumerate(x["comps"]) if not (k == ai and j == ci)])
                          for k, x in enumerate(cur["agents"])]
                cand = dict(cur, agents=agents)
                if fails(cand):
                    cur, changed = cand, True
                    break
            if changed:
                break
    for ai in range(len(cur["agents"]) - 1, -1, -1):
        if len(cur["agents"]) <= 1:
            break
        ref = cur["agents"][ai]["ref"]
        cand = dict(cur, agents=[x for k, x in enumerate(cur["agents"]) if k != ai],
                    steps=[dict(s, items={r: it for r, it in s["items"].items() if r != ref}) for s in cur["steps"]])
        if any(c.get("agent") == ref for x in cand["agents"] for c in x["comps"]):
            continue
        if fails(cand):
            cur = cand
    return cur


def _multishare_case(rng: Rng, decimal: bool) -> dict:
    """3..5 agents; one `hub` shares from 2..3 others (sometimes twice from the same one); the rest of the graph random and
    forward-only under a random labelling. Variants: acyclic / a back arc from one of the hub's dependencies (chosen at random
    among first, middle, last listed) to the hub or to an agent the hub is reached from."""
    n = rng.range(3, 5)
    lab = rng.shuffle(list(range(n)))          # lab[0] is the hub; arcs go from lower to higher position => acyclic
    k = rng.range(2, min(3, n - 1))
    deps = rng.shuffle(lab[1:])[:k]
    arcs = [(lab[0], d) for d in deps]
    if rng.chance(1, 4):
        arcs.append((lab[0], rng.choice(deps)))  # a second shared-reward component naming the same agent
    arcs += [(lab[i], lab[j]) for i in range(1, n) for j in range(i + 1, n) if rng.chance(1, 3)]
    if rng.chance(1, 3):                       # close a cycle through one of the hub's shares
        arcs.append((rng.choice(deps), lab[0]))
    arcs = rng.shuffle(arcs)
    return rig.gen_game_case(rng, n, arcs, rng.shuffle(list(range(n))), n_steps=rng.range(2, 5), rich=rng.chance(1, 4),
                             decimal=decimal)


def _share_coverage(ctx: Ctx, case: dict):
    """How the case exercises agents with several shares: out-degree, repeated names, and whether the verdict / the order
    depends on a share that is not the agent's last (or not its first) one."""
    g = rig.declared_graph(case["agents"])
    deg = max((len(set(v)) for v in g.values()), default=0)
    ctx.count("shares-per-agent-max:%d" % min(deg, 4))
    if any(len(set(v)) != len(v) for v in g.values()):
        ctx.count("shares:same-agent-named-twice")
    if deg >= 2:
        cyc = rig.has_cycle_ref(g)
        for tag, sub in (("last", {u: v[-1:] for u, v in g.items()}), ("first", {u: v[:1] for u, v in g.items()})):
            if cyc and not rig.has_cycle_ref(sub):
                ctx.count(f"shares:cycle-invisible-if-only-{tag}-share-kept")
        if not cyc:
            ctx.count("shares:acyclic-with-multi-share-agent")


def _oracle_kinds(c: dict) -> List[str]:
    impl, cap = rig.run_impl(c)
    return [m.split(":")[0][:40] for m in rig.oracle_all(c, impl, cap)]


def _shrink_oracle(case: dict, key: str) -> dict:
    """Smallest variant on which the Python oracle still reports a failure of kind `key`."""
    cur = case

    def fails(c) -> bool:
        try:
            return key in _oracle_kinds(c)
        except Exception:
            return False
    if not fails(case):
        return case
    if len(cur["steps"]) >= 2:
        steps = shrink_ops(cur["steps"], lambda ops: fails(dict(cur, steps=ops)), budget=40)
        if fails(dict(cur, steps=steps)):
            cur = dict(cur, steps=steps)
    budget = 60
    changed = True
    while changed and budget > 0:
        changed = False
        for ai, a in enumerate(cur["agents"]):
            for ci in range(len(a["comps"])):
                budget -= 1
                agents = [dict(x, comps=[c for j, c in enumerate(x["comps"]) if not (k == ai and j == ci)])
                          for k, x in enumerate(cur["agents"])]
                cand = dict(cur, agents=agents)
                if fails(cand):
                    cur, changed = cand, True
                    break
            if changed:
                break
    return cur


def replay(rec: dict) -> bool:
    with lean_lock():
        from harness.lib.core import lake_build
        lake_build([EXE])
    r = rec["replay"]
    if r.get("family") == "oracle":
        kinds = _oracle_kinds(r["case"])
        return (r["kind"] not in kinds) if "kind" in r else not kinds
    ok, *_ = _diff_case(r["case"])
    return ok


# ----------------------------------------------------------------------------------------------- case families
def _families(ctx: Ctx) -> List[Tuple[str, dict]]:
    cases: List[Tuple[str, dict]] = []
    for f in sorted((VERIF / "corpus" / "C10").glob("*.json")):
        cases.append(("corpus:" + f.name, json.loads(f.read_text())["case"]))
    rng = ctx.rng.fork("rew")
    # every sharing graph on <= 3 agents (self-loops included) x every declaration order
    for n in (1, 2, 3):
        for arcs in rig.all_arc_sets(n, self_loops=True):
            perms = list(itertools.permutations(range(n)))
            if n == 3 and any(u == v for u, v in arcs):
                perms = [rng.choice(perms)]
            for p in perms:
                cases.append((f"exh{n}", rig.gen_game_case(rng, n, arcs, list(p), n_steps=1)))
    # every sharing graph on 4 agents without self-loops: quick = one random declaration order each, thorough = all 24
    perms4 = list(itertools.permutations(range(4)))
    for arcs in rig.all_arc_sets(4, self_loops=False):
        for p in (perms4 if ctx.thorough else [rng.choice(perms4)]):
            cases.append(("exh4", rig.gen_game_case(rng, 4, arcs, list(p), n_steps=1)))
    # random larger graphs (5..7 agents), sparse so that many are acyclic
    for k in range(ctx.scale(150, 4000)):
        n = rng.range(5, 7)
        pairs = [(u, v) for u in range(n) for v in range(n)]
        if rng.chance(2, 3):  # acyclic by construction under a random relabelling
            lab = rng.shuffle(list(range(n)))
            arcs = [(lab[u], lab[v]) for (u, v) in pairs if u < v and rng.chance(1, 3)]
        else:
            arcs = [a for a in pairs if rng.chance(1, 8)]
        cases.append(("big", rig.gen_game_case(rng, n, arcs, rng.shuffle(list(range(n))), n_steps=2)))
    # rich component cases: all component kinds, sticky and not, synthetic states, longer histories
    for k in range(ctx.scale(250, 6000)):
        n = rng.range(1, 4)
        lab = rng.shuffle(list(range(n)))
        arcs = [(lab[u], lab[v]) for u in range(n) for v in range(n) if u < v and rng.chance(1, 2)]
        cases.append(("rich", rig.gen_game_case(rng, n, arcs, rng.shuffle(list(range(n))),
                                                n_steps=rng.range(3, ctx.scale(20, 40)), rich=True)))
    # malformed stream: a shared-reward naming an agent that does not exist, duplicate refs
    for k in range(ctx.scale(40, 400)):
        n = rng.range(1, 3)
        arcs = [(u, v) for u in range(n) for v in range(n + 1) if u != v and rng.chance(1, 3)]  # v == n is a ghost
        c = rig.gen_game_case(rng, n, arcs, None, n_steps=1)
        if rng.chance(1, 2) and n >= 2:
            c["agents"][1]["ref"] = c["agents"][0]["ref"]  # duplicate ref: later agent replaces the earlier one
            for s in c["steps"]:
                s["items"] = {a["ref"]: rig.gen_item(rng) for a in c["agents"]}
        cases.append(("malformed", c))
    # agents with TWO OR MORE shared-reward components (also two components naming the same agent), the shares shuffled among
    # the agent's other components; acyclic, or cyclic through a share chosen at random among the hub's shares; several steps with
    # changing rewards, so that a dependency evaluated too late shows as a stale value
    for k in range(ctx.scale(400, 8000)):
        cases.append(("multishare", _multishare_case(rng, decimal=False)))
    # decimal literals (0.4, 0.05, 0.33 ...), code lists of any length: the model computes on the exact values of the doubles,
    # the implementation's floats must lie within the accumulated rounding bound
    for k in range(ctx.scale(250, 5000)):
        if rng.chance(1, 3):
            cases.append(("decimal", _multishare_case(rng, decimal=True)))
        else:
            n = rng.range(1, 4)
            lab = rng.shuffle(list(range(n)))
            arcs = [(lab[u], lab[v]) for u in range(n) for v in range(n) if u < v and rng.chance(1, 2)]
            cases.append(("decimal", rig.gen_game_case(rng, n, arcs, rng.shuffle(list(range(n))),
                                                       n_steps=rng.range(3, ctx.scale(12, 30)), rich=True, decimal=True)))
    # the real pipeline: PrimaiteGymEnv.step on UC2 with dyadic weights, random sticky flags and declaration order
    for k in range(ctx.scale(2, 30)):
        cases.append(("env", rig.gen_env_case(rng, ctx.scale(40, 128))))
    # ... on UC2 with the shipped weights (0.4 / 0.05 / 0.25 ...), on the other shipped scenarios (own weights, and dyadic ones),
    # and on generated scenarios (harness/gen/scenario.py: switched LAN, routed, firewall+DMZ)
    cases.append(("env-asis", rig.gen_env_case(rng, ctx.scale(40, 128), "uc2", "asis")))
    shipped = list(rig.ENV_SHIPPED)
    for stem in (shipped if ctx.thorough else shipped[:3] + rng.shuffle(shipped[3:])[:4]):
        for mode in (("asis", "dyadic") if ctx.thorough or stem.startswith("uc7") else (rng.choice(["asis", "dyadic"]),)):
            cases.append(("env-shipped", rig.gen_env_case(rng, ctx.scale(24, 96), "shipped:" + stem, mode)))
    from harness.gen.scenario import FAMILIES as GEN_FAMILIES
    for k in range(ctx.scale(4, 40)):
        cases.append(("env-gen", rig.gen_env_case(rng, ctx.scale(24, 64), f"gen:{rng.choice(list(GEN_FAMILIES))}:{rng.range(1, 3)}",
                                                  rng.choice(["asis", "dyadic"]))))
    # the two science.py functions on raw graphs (lists with repeats, dangling names)
    for k in range(ctx.scale(600, 20000)):
        cases.append(("rawgraph", rig.gen_raw_graph(rng)))
    return cases


def run(ctx: Ctx):
    with lean_lock():
        ctx.extract("Reward", x_reward.emit)
        ctx.prove(MODULES, exes=[EXE], clean=False, leanchecker=ctx.thorough)
    ctx.cov["rule"] = ("cases = (agent set with reward components and weights, sharing graph, declaration order, step sequence of "
                       "(post-step state, per-agent history item)) or a raw graph; non-trivial when the load is refused, or some "
                       "agent has a shared component, or a sticky/non-sticky component sees a step without qualifying event; "
                       "distinct by canonical JSON")
    cases = _families(ctx)
    impl_all, lines_all, bounds, captures = [], [], [], []
    for name, case in cases:
        impl, capture = rig.run_impl(case)
        capture["oracle"] = rig.oracle_all(case, impl, capture)  # the property's own oracle, on the implementation only
        capture.pop("game", None)
        lines = rig.model_lines(case, capture)
        bounds.append((len(lines_all), len(lines)))
        lines_all += lines
        impl_all.append(impl)
        captures.append(capture)
    model_all = run_driver(EXE, lines_all)
    agree = 0
    oracle_kinds: set = set()   # each kind of oracle failure is reported once (first case that shows it, shrunk)
    diff_lines: Dict[str, int] = {}  # model-vs-implementation disagreements: at most 2 per answer kind (load / step / mem)
    for (name, case), impl, (st, ln), capture in zip(cases, impl_all, bounds, captures):
        lines = lines_all[st:st + ln]
        out = model_all[st:st + ln]
        if "bad-op" in out:
            raise RuntimeError(f"driver rejected a line of case {name}: {lines[out.index('bad-op')]!r}")
        model = _answers(lines, out)
        ctx.cov["traces_validated_against_impl"] += 1
        fam = name.split(":")[0]
        ctx.count("family:" + fam)
        if case["family"] == "env":
            case = dict(case, **capture["observed"])  # what the real run produced: agents, per-step states and items
        if case["family"] == "env":
            ctx.count("env-source:" + case.get("source", "uc2").split(":")[0] + ":" + case.get("weights", "dyadic"))
            for stp in case["steps"]:  # what the real describe_state() showed the components
                for _n, _s, codes, _f in stp["state"]["services"]:
                    ctx.count("env-state:web-server codes " + ("none" if not codes else ("all-200" if set(codes) == {200} else "some-not-200")))
                for _n, hist in stp["state"]["browsers"]:
                    ctx.count("env-state:browser last outcome " + (hist[-1] if hist else "empty"))
                for _n, _fo, _fi, h in stp["state"]["files"]:
                    ctx.count("env-state:file health %d" % h)
                for it in stp["items"].values():
                    if len(it["request"]) == 6 and it["request"][3] == "application" and it["request"][5] == "execute":
                        ctx.count("env-item:%s execute %s" % (it["request"][4], it["status"]))
        if case["family"] in ("game", "env"):
            _share_coverage(ctx, case)
            ctx.count("compare:" + ("exact" if case.get("exact", True) else "within-rounding-bound"))
            kinds = {rig_kind for a in case["agents"] for rig_kind in (_comp_tag(c) for c in a["comps"])}
            for kd in kinds:
                ctx.count("comp:" + kd)
            ctx.count("load:" + model[0].split()[0] + ("-" + model[0].split()[1] if model[0].startswith("raised") else ""))
            ctx.count("steps", len(case["steps"]))
            ctx.count("agents:%d" % len(case["agents"]))
            nontrivial = model[0].startswith("raised") or any(c["kind"] == "shared" for a in case["agents"] for c in a["comps"]) \
                or any("sticky" in c for a in case["agents"] for c in a["comps"])
        else:
            ctx.count("graph:" + model[0].split()[0])
            nontrivial = len(case["graph"]) > 1
        ctx.case(case, nontrivial)
        for orc in capture["oracle"]:
            kind = orc.split(":")[0][:40]
            if kind in oracle_kinds or len(oracle_kinds) >= 8:
                continue
            oracle_kinds.add(kind)
            ocase = _shrink_oracle(case, kind) if case["family"] == "game" else case
            ctx.violation({"kind": "oracle", "what": kind}, "C10 oracle fails on the implementation: " + orc,
                          {"family": "oracle", "case": ocase, "kind": kind, "oracle_says": orc, "from": name})
        if rig.first_diff(case, impl, model, capture) < 0:
            agree += 1
            if impl != model:
                ctx.count("rounding:floats-differ-from-exact-sum-within-bound")
            if fam in ("rich", "exh4", "big", "env"):
                ctx.sample({"case": name, "lines": lines[:10], "answers": model[:3]}, cap=4)
            continue
        i0 = rig.first_diff(case, impl, model, capture)
        lk = "graph" if case["family"] == "graph" else ("load" if i0 == 0 else ("step" if i0 % 2 == 1 else "mem"))
        if diff_lines.get(lk, 0) >= 2:
            continue
        diff_lines[lk] = diff_lines.get(lk, 0) + 1
        if case["family"] == "env":
            # re-run what the real pipeline produced through the synthetic surface: if it still disagrees it can be shrunk
            synth = {"family": "game", "agents": case["agents"], "steps": case["steps"], "exact": case.get("exact", True)}
            if not _diff_case(synth)[0]:
                case = synth
        small = _shrink(case)
        ok, impl2, model2, i2, lines2, _cap = _diff_case(small)
        if ok:
            small = case
            ok, impl2, model2, i2, lines2, _cap = _diff_case(case)
        ctx.violation(_sig(small, impl2, model2, i2),
                      f"reward layer differs from the proved model at answer {i2}: impl={impl2[i2] if 0 <= i2 < len(impl2) else None!r} "
                      f"model={model2[i2] if 0 <= i2 < len(model2) else None!r}",
                      {"family": "diff", "case": small, "lines": lines2, "impl": impl2, "model": model2, "first_diff": i2, "from": name})
    ctx.oblige("rig:R-rew agrees on every trace", "correspondence", agree == len(cases),
               f"{len(cases) - agree} of {len(cases)} traces disagree")
