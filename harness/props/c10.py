"""C10 — reward = weighted sum of components; shared rewards use same-step values; cyclic sharing rejected;
sticky vs non-sticky; episode total = sum of step rewards."""
from __future__ import annotations

import itertools
import json
from typing import Any, Dict, List, Optional, Tuple

from harness.lib.core import VERIF, Ctx, Rng, lean_lock, run_driver, shrink_ops
from harness.extract import reward as x_reward
from harness.extract import reward_graph as x_reward_graph
from harness.rigs import reward as rig

MANIFEST = {
    "text": "Lean 4 proof, for every sharing graph, neighbour order, agent declaration order, component list, weight, state "
            "dictionary and step sequence, about an executable model of science.graph_has_cycle / topological_sort (as written), "
            "access_from_nested_dict, the seven reward components' calculate (on the state DICTIONARY and the full history item, "
            "exceptions included), RewardFunction.update, PrimaiteGame.setup_reward_sharing / update_agents and the reward part of "
            "PrimaiteGymEnv.reset: cyclic graphs are exactly the rejected ones; the evaluation order lists every agent once, "
            "dependencies first; each step reward is the weighted sum of the components on the post-step state and the agent's "
            "latest item, with every shared component equal to the other agent's reward of the same step; every component's value "
            "depends only on the leaf of the state dictionary it names and on the fields of the agent's OWN latest item it reads "
            "(non-interference, per component and for the whole step); the rewards do not depend on the evaluation or declaration "
            "order; sticky components keep their value until the next qualifying event, non-sticky ones return to zero; totals are "
            "sums of step rewards at every point of an episode, restart at 0 after a reset, and are 0 for agents without components; "
            "the weighted-sum law holds over any commutative ring, and in any arithmetic with relative rounding error u the code's "
            "left-to-right loop stays within ((1+u)^(n+1)-1)*sum|w*c| of it (abstract rounding function). Ground truth: a model of "
            "the simulator objects a component can reach and of the describe_state() methods that turn them into the dictionary; for "
            "each component which live object its leaf is and which of its attributes decides the value (database file: the live File's "
            "health_status at the end of the step, deleted files 0; web server: the responses of this step; browser: the last history "
            "item). Unregistered or ill-formed component types are refused at load; a reset under an episode schedule is a fresh load "
            "of that episode's configuration; the green component's reward_info write. "
            "Tie: Gen/Reward.lean regenerated from rewards.py / game.py / science.py / utils.py / interface.py on every run — the body "
            "of each calculate is TRANSLATED statement by statement into a small imperative language and proved, for all inputs, to "
            "compute what the component model computes (semantic tie: a meaning-preserving refactoring passes, a change of meaning "
            "refutes the theorem); access_from_nested_dict is translated the same way (recursion included) and proved equal to the "
            "model's look-up for every value and key list; RewardFunction.update (for loop, total += weight * calculate) and the loop of "
            "PrimaiteGame.update_agents (order and step_counter guards of update_reward / save_reward_to_history / total += current) are "
            "translated too and proved equal to the model for every component behaviour / every game — which is also the contract a "
            "plugin component gets: the step reward is the weighted left fold of whatever its calculate returns, its exception ends the "
            "step; science.topological_sort and science.graph_has_cycle (nested recursive closure over set / list containers, early "
            "returns out of loops) are translated statement by statement into a second small language and proved, for every graph and "
            "every unfolding depth, to return exactly the model's topoSort / hasCycle (so the graph theorems are about the code as "
            "translated on this run); the three step methods (PrimaiteGame.step, PrimaiteGymEnv.step, PrimaiteRayMARLEnv.step) are "
            "extracted as sequences of calls and proved to tick once, to run update_agents once on a snapshot taken after the tick and "
            "to return current_reward read after update_agents; literal defaults; blunt text flags only for setup_reward_sharing, __init__ / "
            "register_component and the two one-line agent methods. Differential rig R-rew "
            "through the real PrimaiteGame.from_config (every sharing graph on <= 4 agents; several shares per agent; cycles of every "
            "length incl. self-sharing), the real science.py functions on EVERY graph with <= 4 nodes incl. self-loops and repeated "
            "neighbours (thorough: every loop-free graph on 5 nodes), real update_agents on synthetic state dictionaries (also leaves "
            "of the wrong shape: the exception kinds are compared), resets, agents without reward function, the real "
            "access_from_nested_dict on synthetic values and on whole real describe_state() dictionaries, and real PrimaiteGymEnv / "
            "PrimaiteGame runs with resets on the shipped and on generated scenarios, and the real reset / step of PrimaiteRayMARLEnv on the "
            "shipped two-defender scenarios (imported over a stub of rllib's MultiAgentEnv base class, rllib itself is not importable "
            "here): the rewards dictionary of every step is compared with the agents' current rewards. Python oracles on the implementation alone: "
            "declared sharing graph, cycle <=> rejected, same-step shared values, weighted sum, totals per episode, and a "
            "non-interference recheck (each calculate re-run on a copy with the state cut down to its own leaf and the item fields "
            "outside its proved read-set scrambled), and a LIVE-OBJECT oracle: after every real step each component's value is "
            "recomputed from the live simulator objects (never through describe_state()), with an independent record of the HTTP "
            "responses each web server sent in the step; the model evaluates every component on describeT(live objects) and on the real "
            "dictionary and must agree (truthcheck). Named shapes (diamond, triangle, fan, chain) in every key / neighbour order, every "
            "acyclic graph on <= 4 nodes in every key order, and through from_config every diamond / triangle on 4 agents in all 24 "
            "declaration orders; shipped episode schedules (another configuration per episode).",
    "note": "C10-specific: the theorems are about exact rational arithmetic (weighted sum: any commutative ring). The rig compares "
            "exactly where float arithmetic is exact (dyadic families) and otherwise (decimal weights such as 0.4 / 0.05, shipped "
            "scenarios as they are) gives the model the exact value of every double and requires the implementation's floats to lie "
            "within the accumulated forward rounding bound whose per-sum factor is the one proved in Lemmas/RewardRounding.lean; that "
            "CPython floats are a rounding function with u = 2^-53 (IEEE-754, no overflow/underflow) is assumed, not proved. How "
            "describe_state() produces the dictionary is modelled only for the objects and keys a reward component can reach "
            "(Model/RewardTruth.lean) and tied by the live-object oracle and truthcheck on real runs, not by a translation of those "
            "methods; how the simulator UPDATES those objects during a step is not part of C10; for large real dictionaries the rig sends their projection on the components' own key paths, which is proved "
            "invisible to access_from_nested_dict on those paths.",
    "technique": "Lean 4 theorems over executable models of the graph functions and the reward layer; components tied by a "
                 "source-to-AST translation proved equivalent to the models; model tied by regenerated tables and a differential rig",
    "design_ref": "5/C10",
}
MODULES = ["PrimaiteModel.Props.C10", "PrimaiteModel.Props.C10Calc", "PrimaiteModel.Props.C10Total", "PrimaiteModel.Props.C10Float",
           "PrimaiteModel.Props.C10Truth", "PrimaiteModel.Props.C10Graph"]
EXE = "drv_c10"


# ----------------------------------------------------------------------------------------------- one case, both sides
def _answers(lines: List[str], model_out: List[str]) -> List[str]:
    return [o for l, o, keep in zip(lines, model_out, rig.answer_mask(lines)) if keep]


def _diff_case(case: dict):
    impl, capture = rig.run_impl(case)
    lines = rig.model_lines(case, capture)
    out = run_driver(EXE, lines)
    if "bad-op" in out:
        raise RuntimeError(f"driver rejected a line of {lines}")
    model = _answers(lines, out)
    cmp_case = dict(case, **capture["observed"]) if case["family"] == "env" else case
    i = rig.first_diff(cmp_case, impl, model, capture, rig.answer_kinds(lines))
    return i < 0, impl, model, i, lines, capture


def _comp_tag(c: dict) -> str:
    return c["kind"] + (":" + ("sticky" if c["sticky"] else "nonsticky") if "sticky" in c else "")


def _sig(case: dict, impl: List[str], model: List[str], i: int) -> dict:
    if case["family"] in ("graph", "access"):
        return {"kind": "model-vs-impl", "line": case["family"]}
    line = "load" if i == 0 else "step-or-later"
    comps = sorted({_comp_tag(c) for a in case["agents"] for c in a["comps"]})
    return {"kind": "model-vs-impl", "line": line, "comps": ",".join(comps), "agents": len(case["agents"])}


def _shrink(case: dict) -> dict:
    """Smallest failing variant: fewer steps, then fewer components, then fewer agents."""
    if case["family"] != "game":
        return case

    def fails(c) -> bool:
        try:
            return not _diff_case(c)[0]
        except Exception:
            return False
    cur = case
    if len(cur["steps"]) >= 2:
        steps = shrink_ops(cur["steps"], lambda ops: fails(dict(cur, steps=ops)), budget=60)
        if fails(dict(cur, steps=steps)):
            cur = dict(cur, steps=steps)
    changed = True
    budget = 80
    while changed and budget > 0:
        changed = False
        for ai, a in enumerate(cur["agents"]):
            for ci in range(len(a["comps"])):
                budget -= 1
                agents = [dict(x, comps=[c for j, c in enumerate(x["comps"]) if not (k == ai and j == ci)])
                          for k, x in enumerate(cur["agents"])]
                cand = dict(cur, agents=agents)
                if fails(cand):
                    cur, changed = cand, True
                    break
            if changed:
                break
    for ai in range(len(cur["agents"]) - 1, -1, -1):
        if len(cur["agents"]) <= 1:
            break
        ref = cur["agents"][ai]["ref"]
        cand = dict(cur, agents=[x for k, x in enumerate(cur["agents"]) if k != ai],
                    steps=[dict(s, items={r: it for r, it in s["items"].items() if r != ref}) for s in cur["steps"]])
        if any(c.get("agent") == ref for x in cand["agents"] for c in x["comps"]):
            continue
        if fails(cand):
            cur = cand
    return cur


def _multishare_case(rng: Rng, decimal: bool) -> dict:
    """3..5 agents; one `hub` shares from 2..3 others (sometimes twice from the same one); the rest of the graph random and
    forward-only under a random labelling. Variants: acyclic / a back arc from one of the hub's dependencies (chosen at random
    among first, middle, last listed) to the hub or to an agent the hub is reached from."""
    n = rng.range(3, 5)
    lab = rng.shuffle(list(range(n)))          # lab[0] is the hub; arcs go from lower to higher position => acyclic
    k = rng.range(2, min(3, n - 1))
    deps = rng.shuffle(lab[1:])[:k]
    arcs = [(lab[0], d) for d in deps]
    if rng.chance(1, 4):
        arcs.append((lab[0], rng.choice(deps)))  # a second shared-reward component naming the same agent
    arcs += [(lab[i], lab[j]) for i in range(1, n) for j in range(i + 1, n) if rng.chance(1, 3)]
    if rng.chance(1, 3):                       # close a cycle through one of the hub's shares
        arcs.append((rng.choice(deps), lab[0]))
    arcs = rng.shuffle(arcs)
    return rig.gen_game_case(rng, n, arcs, rng.shuffle(list(range(n))), n_steps=rng.range(2, 5), rich=rng.chance(1, 4),
                             decimal=decimal)


def _share_coverage(ctx: Ctx, case: dict):
    """How the case exercises agents with several shares: out-degree, repeated names, and whether the verdict / the order
    depends on a share that is not the agent's last (or not its first) one."""
    g = rig.declared_graph(case["agents"])
    deg = max((len(set(v)) for v in g.values()), default=0)
    ctx.count("shares-per-agent-max:%d" % min(deg, 4))
    if any(len(set(v)) != len(v) for v in g.values()):
        ctx.count("shares:same-agent-named-twice")
    if deg >= 2:
        cyc = rig.has_cycle_ref(g)
        for tag, sub in (("last", {u: v[-1:] for u, v in g.items()}), ("first", {u: v[:1] for u, v in g.items()})):
            if cyc and not rig.has_cycle_ref(sub):
                ctx.count(f"shares:cycle-invisible-if-only-{tag}-share-kept")
        if not cyc:
            ctx.count("shares:acyclic-with-multi-share-agent")


def _oracle_kinds(c: dict) -> List[str]:
    impl, cap = rig.run_impl(c)
    return [m.split(":")[0][:60] for m in rig.oracle_all(c, impl, cap)]


def _shrink_oracle(case: dict, key: str) -> dict:
    """Smallest variant on which the Python oracle still reports a failure of kind `key`."""
    cur = case

    def fails(c) -> bool:
        try:
            return key in _oracle_kinds(c)
        except Exception:
            return False
    if not fails(case):
        return case
    if len(cur["steps"]) >= 2:
        steps = shrink_ops(cur["steps"], lambda ops: fails(dict(cur, steps=ops)), budget=40)
        if fails(dict(cur, steps=steps)):
            cur = dict(cur, steps=steps)
    budget = 60
    changed = True
    while changed and budget > 0:
        changed = False
        for ai, a in enumerate(cur["agents"]):
            for ci in range(len(a["comps"])):
                budget -= 1
                agents = [dict(x, comps=[c for j, c in enumerate(x["comps"]) if not (k == ai and j == ci)])
                          for k, x in enumerate(cur["agents"])]
                cand = dict(cur, agents=agents)
                if fails(cand):
                    cur, changed = cand, True
                    break
            if changed:
                break
    return cur


def replay(rec: dict) -> bool:
    with lean_lock():
        from harness.lib.core import lake_build
        lake_build([EXE])
    r = rec["replay"]
    if r.get("family") == "oracle-graph":
        impl, _cap = rig.run_impl(r["case"])
        return _graph_oracle([k for k, _ in r["case"]["graph"]], {k: nb for k, nb in r["case"]["graph"]}, impl[0]) is None
    if r.get("family") == "oracle":
        kinds = _oracle_kinds(r["case"])
        return (r["kind"] not in kinds) if "kind" in r else not kinds
    ok, *_ = _diff_case(r["case"])
    return ok


# ----------------------------------------------------------------------------------------------- case families
def _graph_case(keys: List[str], nbrs: Dict[str, List[str]]) -> dict:
    return {"family": "graph", "graph": [[k, list(nbrs[k])] for k in keys]}


def _exhaustive_graphs(ctx: Ctx, rng: Rng):
    """Bounded-exhaustive family for science.graph_has_cycle / topological_sort against the proved model, generated lazily as
    (family name, keys in dict order, neighbour lists):
    * the named shapes diamond / triangle / fan / chain in every key order and neighbour order;
    * EVERY directed graph on n <= 4 nodes, self-loops included (2^(n*n) arc sets; n = 4: 65 536): the acyclic ones (543 on 4
      nodes) in EVERY key order, the cyclic ones with keys in a random order; neighbour collections in a random order;
    * EVERY graph on n <= 3 nodes whose neighbour collections are lists of length <= 2 with repetition (duplicate edges), in every
      key order; for n = 4 lists of length <= 3 with repetition, sampled;
    * thorough: every loop-free graph on 5 nodes (2^20), a quarter of them also with a random non-empty set of self-loops."""
    # named shapes first (so that a defect they expose is reported on them): the DIAMOND top -> {left, right} -> bottom, the
    # triangle, the fan and the chain, in every key order and every neighbour order
    shapes = {"diamond": {"top": ["left", "right"], "left": ["bottom"], "right": ["bottom"], "bottom": []},
              "triangle": {"top": ["mid", "leaf"], "mid": ["leaf"], "leaf": []},
              "fan": {"top": ["a", "b", "c"], "a": [], "b": [], "c": []},
              "chain": {"a": ["b"], "b": ["c"], "c": ["d"], "d": []}}
    for sname, g in shapes.items():
        for keys in itertools.permutations(list(g)):
            for nbo in itertools.product(*[list(itertools.permutations(g[k])) for k in g]):
                yield f"graph-shape:{sname}", list(keys), {k: list(v) for k, v in zip(g, nbo)}
    for n in range(0, 5):
        names = [f"n{i}" for i in range(n)]
        pairs = [(u, v) for u in names for v in names]
        for mask in range(1 << len(pairs)):
            nb: Dict[str, List[str]] = {u: [] for u in names}
            for i, (u, v) in enumerate(pairs):
                if mask >> i & 1:
                    nb[u].append(v)
            if n >= 3:
                nb = {u: rng.shuffle(vs) for u, vs in nb.items()}
            if n >= 2 and not rig.has_cycle_ref(nb):
                # acyclic: the answer IS an order, and it depends on the key (= declaration) order: every key order
                for keys in itertools.permutations(names):
                    yield f"graph-exh{n}-dag-allorders", list(keys), nb
            else:
                yield f"graph-exh{n}", (rng.shuffle(names) if n >= 2 else names), nb
    # duplicate edges: all neighbour LISTS of length <= 2 (with repetition)
    for n in (1, 2, 3):
        names = [f"n{i}" for i in range(n)]
        lists = [[]] + [[a] for a in names] + [[a, b] for a in names for b in names]
        for combo in itertools.product(lists, repeat=n):
            for keys in itertools.permutations(names):
                yield f"graph-dup{n}", list(keys), dict(zip(names, combo))
    names = [f"n{i}" for i in range(4)]
    lists = [[]] + [[a] for a in names] + [[a, b] for a in names for b in names] + [[a, a, b] for a in names for b in names]
    for _ in range(ctx.scale(6000, 40000)):
        yield "graph-dup4", rng.shuffle(names), {u: rng.choice(lists) for u in names}
    if ctx.thorough:
        names = [f"n{i}" for i in range(5)]
        pairs = [(u, v) for u in names for v in names if u != v]
        for mask in range(1 << len(pairs)):
            nb = {u: [] for u in names}
            for i, (u, v) in enumerate(pairs):
                if mask >> i & 1:
                    nb[u].append(v)
            keys = rng.shuffle(names)
            yield "graph-exh5-loopfree", keys, nb
            if mask % 4 == 0:
                loops = [u for u in names if rng.chance(1, 3)] or [rng.choice(names)]
                yield "graph-exh5-selfloops", keys, {u: nb[u] + ([u] if u in loops else []) for u in names}


def _graph_oracle(keys: List[str], nb: Dict[str, List[str]], answer: str) -> Optional[str]:
    """Independent judgement of the implementation's answer on a raw graph: cycle <=> some node reaches itself; otherwise the
    order lists every node (keys and dangling names) exactly once, each after all its neighbours."""
    nodes = list(keys) + [v for k in keys for v in nb[k] if v not in keys]
    nodes = list(dict.fromkeys(nodes))
    reach = {u: set(nb.get(u, [])) for u in nodes}
    changed = True
    while changed:
        changed = False
        for u in nodes:
            new = set()
            for v in reach[u]:
                new |= reach[v]
            if not new <= reach[u]:
                reach[u] |= new
                changed = True
    cyc = any(u in reach[u] for u in nodes)
    if cyc != answer.startswith("cycle=1"):
        return f"graph_has_cycle answered {answer.split()[0]} on a graph that is {'cyclic' if cyc else 'acyclic'}"
    if not cyc:
        order = [x for x in answer.split("order=", 1)[1].split(",") if x]
        if sorted(order) != sorted(nodes):
            return f"topological_sort returned {order}: not every node exactly once ({nodes})"
        pos = {x: i for i, x in enumerate(order)}
        for u in keys:
            for v in nb[u]:
                if pos[v] >= pos[u]:
                    return f"topological_sort returned {order}: {u} depends on {v} but comes first"
    return None


def _run_graph_bulk(ctx: Ctx, gen) -> None:
    """The exhaustive graph family, in chunks: the real science.py functions, the Lean driver and the independent oracle on the
    same graphs; every answer compared. A disagreement / oracle failure becomes an ordinary `graph` case (replayable)."""
    import hashlib
    from primaite.game.science import graph_has_cycle, topological_sort
    reported = 0
    total = agree = 0
    chunk: List[Tuple[str, List[str], Dict[str, List[str]]]] = []

    def flush():
        nonlocal reported, total, agree
        if not chunk:
            return
        lines, impl = [], []
        for _fam, keys, nb in chunk:
            lines.append("graph " + (";".join(f"{k}:{rig.lst(nb[k])}" for k in keys) or "-"))
            g = {k: list(nb[k]) for k in keys}
            impl.append("cycle=1" if graph_has_cycle(g) else "cycle=0 order=" + ",".join(topological_sort(g)))
        model = run_driver(EXE, lines)
        for (fam, keys, nb), line, a, m in zip(chunk, lines, impl, model):
            total += 1
            ctx.count("family:" + fam)
            ctx.count("graph:" + a.split()[0])
            ctx.cov["evaluations"] += 1
            ctx.cov["traces_validated_against_impl"] += 1
            if len(keys) > 1:
                ctx._distinct.add(hashlib.sha1(line.encode()).hexdigest())
            bad = _graph_oracle(keys, nb, a)
            if bad is not None and reported < 3:
                reported += 1
                ctx.violation({"kind": "oracle", "what": "graph functions"}, "C10 oracle fails on the implementation: " + bad,
                              {"family": "oracle-graph", "case": _graph_case(keys, nb), "oracle_says": bad, "from": fam})
            if a == m:
                agree += 1
            elif reported < 3:
                reported += 1
                ctx.violation({"kind": "model-vs-impl", "line": "graph"},
                              f"science.py differs from the proved model on a raw graph: impl={a!r} model={m!r}",
                              {"family": "diff", "case": _graph_case(keys, nb), "lines": ["reset", line], "impl": [a], "model": [m],
                               "first_diff": 0, "from": fam})
        chunk.clear()
    for item in gen:
        chunk.append(item)
        if len(chunk) >= 100000:
            flush()
    flush()
    ctx.oblige("rig:graph functions agree with the model on the bounded-exhaustive family", "correspondence", agree == total,
               f"{total - agree} of {total} graphs disagree")


def _reconvergent(g: Dict[int, List[int]]) -> bool:
    """Some node is reached from some node along two different paths (acyclic graph): number of paths u ~> v >= 2."""
    import functools

    @functools.lru_cache(maxsize=None)
    def paths(u: int, v: int) -> int:
        return 1 if u == v else sum(paths(w, v) for w in g[u])
    return any(paths(u, v) >= 2 for u in g for v in g if u != v)


def _cycle_config_case(rng: Rng) -> dict:
    """A configuration whose sharing graph has a cycle of a chosen length (1 = an agent sharing its own reward, 2 = mutual
    sharing, ... up to all agents), hidden among acyclic arcs, the cycle's arcs anywhere among the agents' components."""
    n = rng.range(1, 8)
    length = rng.choice([1, 1, 2, 2, 3, rng.range(1, n)])
    length = max(1, min(length, n))
    lab = rng.shuffle(list(range(n)))
    cyc = lab[:length]
    arcs = [(cyc[i], cyc[(i + 1) % length]) for i in range(length)]
    arcs += [(lab[i], lab[j]) for i in range(n) for j in range(i + 1, n) if rng.chance(1, 4)]  # forward-only: acyclic part
    if rng.chance(1, 4):
        arcs.append(rng.choice(arcs))  # a share listed twice
    return rig.gen_game_case(rng, n, rng.shuffle(arcs), rng.shuffle(list(range(n))), n_steps=1)


def _access_case(rng: Rng) -> dict:
    """A synthetic nested value with non-dictionaries on the way, and key paths into it."""
    keys = ["network", "nodes", "pc1", "srv", "file_system", "services", "a", "b", ""]

    def val(depth: int):
        k = rng.below(12)
        if depth <= 0 or k < 3:
            return rng.choice([None, 0, 5, True, False, 2.5, "", "nodes", "a b", "network nodes pc1", [], ["a"], ["nodes", "pc1"], {}, [["a"]]])
        if k == 3:
            return [val(depth - 1) for _ in range(rng.below(3))]
        d = {}
        for _ in range(rng.range(1, 4)):
            d[rng.choice(keys)] = val(depth - 1)
        if rng.chance(1, 8):
            return {"__intkeys__": [[rng.range(-1, 3), val(depth - 1)]]}
        return d
    state = val(rng.range(1, 5))
    paths = [[rng.choice(keys) for _ in range(rng.below(5))] for _ in range(6)]
    # also paths that follow the value down
    def walk():
        cur, p = rig.decode_val(state), []
        while isinstance(cur, dict) and cur and rng.chance(4, 5):
            ks = [k for k in cur if isinstance(k, str)]
            if not ks:
                break
            k = rng.choice(ks)
            p.append(k)
            cur = cur[k]
        if rng.chance(1, 2):
            p.append(rng.choice(keys))
        return p
    paths += [walk() for _ in range(4)]
    return {"family": "access", "state": state, "paths": paths, "restrict": rng.shuffle(paths)[:rng.range(0, 4)]}


def _families(ctx: Ctx) -> List[Tuple[str, dict]]:
    cases: List[Tuple[str, dict]] = []
    for f in sorted((VERIF / "corpus" / "C10").glob("*.json")):
        cases.append(("corpus:" + f.name, json.loads(f.read_text())["case"]))
    rng = ctx.rng.fork("rew")
    # every sharing graph on <= 3 agents (self-loops included) x every declaration order
    for n in (1, 2, 3):
        for arcs in rig.all_arc_sets(n, self_loops=True):
            perms = list(itertools.permutations(range(n)))
            if n == 3 and any(u == v for u, v in arcs):
                perms = [rng.choice(perms)]
            for p in perms:
                cases.append((f"exh{n}", rig.gen_game_case(rng, n, arcs, list(p), n_steps=1)))
    # every sharing graph on 4 agents without self-loops: quick = one random declaration order each, thorough = all 24
    perms4 = list(itertools.permutations(range(4)))
    for arcs in rig.all_arc_sets(4, self_loops=False):
        g4 = {u: [v for (x, v) in arcs if x == u] for u in range(4)}
        acyclic = not rig.has_cycle_ref(g4)
        # an accepted (acyclic) graph is evaluated in an order that depends on the declaration order. Graphs in which some agent is
        # reached along two different paths (where a pre-order / reversed-discovery order goes wrong): those with <= 4 arcs (every
        # diamond, every triangle, triangle + one arc) are loaded in ALL 24 declaration orders, the denser ones in 8 (each agent
        # declared first at least once); the other acyclic ones in 5; a cyclic one is rejected whatever the order: one random order
        # in quick. thorough: all 24 for every graph. (The raw-graph family has EVERY key order of EVERY acyclic graph <= 4 nodes.)
        stepped = rng.choice(perms4)  # quick: one declaration order per graph is also stepped (stale values); the others are loaded
        if ctx.thorough:
            ps, fam = perms4, ("exh4-dag-allorders" if acyclic else "exh4")
        elif acyclic and _reconvergent(g4) and len(arcs) <= 4:
            ps, fam = perms4, "exh4-reconvergent-allorders"   # the diamonds, the triangles, a triangle plus one arc
        elif acyclic and _reconvergent(g4):
            ps = [stepped] + [rng.choice([p for p in perms4 if p[0] == f]) for f in range(4)] + [rng.choice(perms4) for _ in range(3)]
            fam = "exh4-reconvergent-8orders"
        elif acyclic:
            ps, fam = [stepped] + [rng.choice([p for p in perms4 if p[0] == f]) for f in range(4)], "exh4-dag-each-first"
        else:
            ps, fam = [stepped], "exh4"
        for p in ps:
            cases.append((fam, rig.gen_game_case(rng, 4, arcs, list(p), n_steps=1 if (ctx.thorough or p == stepped) else 0)))
    # cycles of every length through from_config: self-sharing, mutual sharing, long cycles (must raise at load)
    for k in range(ctx.scale(400, 6000)):
        cases.append(("cyclecfg", _cycle_config_case(rng)))
    # random larger graphs (5..7 agents), sparse so that many are acyclic
    for k in range(ctx.scale(150, 4000)):
        n = rng.range(5, 7)
        pairs = [(u, v) for u in range(n) for v in range(n)]
        if rng.chance(2, 3):  # acyclic by construction under a random relabelling
            lab = rng.shuffle(list(range(n)))
            arcs = [(lab[u], lab[v]) for (u, v) in pairs if u < v and rng.chance(1, 3)]
        else:
            arcs = [a for a in pairs if rng.chance(1, 8)]
        cases.append(("big", rig.gen_game_case(rng, n, arcs, rng.shuffle(list(range(n))), n_steps=2)))
    # rich component cases: all component kinds, sticky and not, synthetic states, longer histories
    for k in range(ctx.scale(250, 6000)):
        n = rng.range(1, 4)
        lab = rng.shuffle(list(range(n)))
        arcs = [(lab[u], lab[v]) for u in range(n) for v in range(n) if u < v and rng.chance(1, 2)]
        cases.append(("rich", rig.gen_game_case(rng, n, arcs, rng.shuffle(list(range(n))),
                                                n_steps=rng.range(3, ctx.scale(20, 40)), rich=True)))
    # leaves of unexpected shapes and non-dictionaries on the way to them: `calculate` raises (or not) exactly as the model says
    for k in range(ctx.scale(300, 6000)):
        n = rng.range(1, 3)
        lab = rng.shuffle(list(range(n)))
        arcs = [(lab[u], lab[v]) for u in range(n) for v in range(n) if u < v and rng.chance(1, 2)]
        cases.append(("badleaf", rig.gen_game_case(rng, n, arcs, rng.shuffle(list(range(n))), n_steps=rng.range(1, 6), rich=True,
                                                   bad_leaves=True)))
    # several episodes: resets inside the run (totals restart at 0), agents without reward components / without reward_function
    for k in range(ctx.scale(200, 5000)):
        n = rng.range(1, 4)
        lab = rng.shuffle(list(range(n)))
        arcs = [(lab[u], lab[v]) for u in range(n) for v in range(n) if u < v and rng.chance(1, 2)]
        cases.append(("episodes", rig.gen_game_case(rng, n, arcs, rng.shuffle(list(range(n))), n_steps=rng.range(3, 14), rich=rng.chance(1, 2),
                                                    resets=True, bare_agents=True, decimal=rng.chance(1, 4))))
    # malformed stream: a shared-reward naming an agent that does not exist, duplicate refs
    for k in range(ctx.scale(90, 900)):
        n = rng.range(1, 3)
        arcs = [(u, v) for u in range(n) for v in range(n + 1) if u != v and rng.chance(1, 3)]  # v == n is a ghost
        c = rig.gen_game_case(rng, n, arcs, None, n_steps=1)
        if rng.chance(1, 3):  # an unregistered component type / an entry that violates its schema, anywhere: refused at load
            a = rng.choice(c["agents"])
            bad = {"kind": "unknown", "weight": "1", "type": rng.choice(["no-such-reward", "shared_reward", "Dummy", "my-plugin-reward", ""])} \
                if rng.chance(1, 2) else {"kind": "invalid", "weight": "1", "variant": rng.choice(rig.INVALID_VARIANTS)}
            a["comps"].insert(rng.below(len(a["comps"]) + 1), bad)
            if rng.chance(1, 4):
                rng.choice(c["agents"])["comps"].append({"kind": "invalid", "weight": "1", "variant": rng.choice(rig.INVALID_VARIANTS)})
        if rng.chance(1, 2) and n >= 2:
            c["agents"][1]["ref"] = c["agents"][0]["ref"]  # duplicate ref: later agent replaces the earlier one
            for s in c["steps"]:
                s["items"] = {a["ref"]: rig.gen_item(rng) for a in c["agents"]}
        cases.append(("malformed", c))
    # agents with TWO OR MORE shared-reward components (also two components naming the same agent), the shares shuffled among
    # the agent's other components; acyclic, or cyclic through a share chosen at random among the hub's shares; several steps with
    # changing rewards, so that a dependency evaluated too late shows as a stale value
    for k in range(ctx.scale(300, 8000)):
        cases.append(("multishare", _multishare_case(rng, decimal=False)))
    # decimal literals (0.4, 0.05, 0.33 ...), code lists of any length: the model computes on the exact values of the doubles,
    # the implementation's floats must lie within the accumulated rounding bound
    for k in range(ctx.scale(200, 5000)):
        if rng.chance(1, 3):
            cases.append(("decimal", _multishare_case(rng, decimal=True)))
        else:
            n = rng.range(1, 4)
            lab = rng.shuffle(list(range(n)))
            arcs = [(lab[u], lab[v]) for u in range(n) for v in range(n) if u < v and rng.chance(1, 2)]
            cases.append(("decimal", rig.gen_game_case(rng, n, arcs, rng.shuffle(list(range(n))),
                                                       n_steps=rng.range(3, ctx.scale(12, 30)), rich=True, decimal=True)))
    # the real pipeline: PrimaiteGymEnv.step on UC2 with dyadic weights, random sticky flags and declaration order
    for k in range(ctx.scale(2, 24)):
        cases.append(("env", rig.gen_env_case(rng, ctx.scale(40, 128))))
    # ... on UC2 with the shipped weights (0.4 / 0.05 / 0.25 ...), on the other shipped scenarios (own weights, and dyadic ones),
    # and on generated scenarios (harness/gen/scenario.py: switched LAN, routed, firewall+DMZ)
    cases.append(("env-asis", rig.gen_env_case(rng, ctx.scale(40, 128), "uc2", "asis")))
    shipped = list(rig.ENV_SHIPPED)
    for stem in (shipped if ctx.thorough else shipped[:3] + rng.shuffle(shipped[3:])[:4]):
        for mode in (("asis", "dyadic") if ctx.thorough or stem == "uc7_config" else (rng.choice(["asis", "dyadic"]),)):
            cases.append(("env-shipped", rig.gen_env_case(rng, ctx.scale(24, 96), "shipped:" + stem, mode)))
    # PrimaiteGame.step() itself (the third step pipeline; the environments do not call it): UC2 driven through the game loop, the RL
    # agent given a random action of its map before every step
    for k in range(ctx.scale(2, 6)):
        c = rig.gen_env_case(rng, ctx.scale(40, 96), "uc2", rng.choice(["asis", "dyadic"]))
        c["game_loop"] = True
        c.pop("reset_at", None)
        cases.append(("env-gameloop", c))
    # the multi-agent environment (PrimaiteRayMARLEnv has its own step pipeline and returns a dictionary of rewards): the two shipped
    # two-defender scenarios, with resets
    for stem in ("data_manipulation_marl", "multi_agent_session"):
        if stem in rig.ENV_SHIPPED:
            c = rig.gen_env_case(rng, ctx.scale(16, 64), "shipped:" + stem, rng.choice(["asis", "dyadic"]))
            c["marl"] = True
            c["reset_at"] = sorted({5, ctx.scale(11, 40)})
            cases.append(("env-marl", c))
    # shipped episode SCHEDULES: every reset builds the next episode from another configuration (real EpisodeListScheduler)
    for sd in (rig.ENV_SCHEDULES if ctx.thorough else rig.ENV_SCHEDULES[:2]):
        c = rig.gen_env_case(rng, ctx.scale(12, 40), "sched:" + sd, "asis")
        c["reset_at"] = sorted({3, 7, ctx.scale(10, 25)})
        cases.append(("env-schedule", c))
    from harness.gen.scenario import FAMILIES as GEN_FAMILIES
    for k in range(ctx.scale(4, 32)):
        cases.append(("env-gen", rig.gen_env_case(rng, ctx.scale(24, 64), f"gen:{rng.choice(list(GEN_FAMILIES))}:{rng.range(1, 3)}",
                                                  rng.choice(["asis", "dyadic"]))))
    # access_from_nested_dict / projection / serialisation on synthetic nested values
    for k in range(ctx.scale(500, 10000)):
        cases.append(("access", _access_case(rng)))
    # the two science.py functions on raw graphs: random ones here (lists with repeats, dangling names); the bounded-exhaustive
    # family is streamed separately (_run_graph_bulk)
    for k in range(ctx.scale(600, 12000)):
        cases.append(("rawgraph", rig.gen_raw_graph(rng)))
    return cases


def _kind_of(lines: List[str], i: int) -> str:
    kinds = rig.answer_kinds(lines)
    return kinds[i] if 0 <= i < len(kinds) else "length"


def run(ctx: Ctx):
    with lean_lock():
        ctx.extract("Reward", x_reward.emit)
        ctx.extract("RewardGraph", x_reward_graph.emit)   # its own file: an untranslatable graph function breaks only Props/C10Graph
        ctx.prove(MODULES, exes=[EXE], clean=False, leanchecker=ctx.thorough)
    # the blunt text ties, function by function (the Gen flags the C10_gen_shape* theorems read are computed from the same report)
    try:
        for fn, ok, got in x_reward.shape_report():
            ctx.oblige(f"shape:{fn}", "extractor", ok, "" if ok else
                       f"{fn}: the source no longer has the text the model transcribes (semantic change or harmless refactor: see the "
                       f"differential families):\n{got}")
    except Exception as e:
        ctx.oblige("shape:report", "extractor", False, f"{type(e).__name__}: {e}")
    ctx.cov["rule"] = ("cases = (agent set with reward components and weights, sharing graph, declaration order, step sequence of "
                       "(post-step state dictionary, per-agent history item), resets) or a raw graph or (state dictionary, key paths); "
                       "non-trivial when the load is refused, or some agent has a shared component, or a sticky/non-sticky component "
                       "sees a step without qualifying event, or a component raises; distinct by canonical JSON")
    _run_graph_bulk(ctx, _exhaustive_graphs(ctx, ctx.rng.fork("graphs")))
    cases = _families(ctx)
    impl_all, lines_all, bounds, captures = [], [], [], []
    k = 0
    while k < len(cases):
        name, case = cases[k]
        k += 1
        impl, capture = rig.run_impl(case)
        capture["oracle"] = rig.oracle_all(case, impl, capture)  # the property's own oracle, on the implementation only
        capture.pop("game", None)
        if capture.get("sim_exception"):
            ctx.count("env:run cut short by an exception outside the reward layer")
            ctx.notes.append("exception outside the reward layer during an env run (run compared up to that step): " + capture.pop("sim_exception"))
        for aux in capture.pop("aux", []):  # whole real state dictionaries met by an env run: access / projection / serialisation
            cases.append(("access-real", aux))
        lines = rig.model_lines(case, capture)
        bounds.append((len(lines_all), len(lines)))
        lines_all += lines
        impl_all.append(impl)
        captures.append(capture)
    model_all = run_driver(EXE, lines_all)
    agree = 0
    oracle_kinds: set = set()   # each kind of oracle failure is reported once (first case that shows it, shrunk)
    diff_lines: Dict[str, int] = {}  # model-vs-implementation disagreements: at most 2 per answer kind
    for (name, case), impl, (st, ln), capture in zip(cases, impl_all, bounds, captures):
        lines = lines_all[st:st + ln]
        out = model_all[st:st + ln]
        if "bad-op" in out:
            raise RuntimeError(f"driver rejected a line of case {name}: {lines[out.index('bad-op')][:300]!r}")
        model = _answers(lines, out)
        kinds = rig.answer_kinds(lines)
        ctx.cov["traces_validated_against_impl"] += 1
        fam = name.split(":")[0]
        ctx.count("family:" + fam)
        if case["family"] == "env":
            case = dict(case, **capture["observed"])  # what the real run produced: agents, per-step states and items
            ctx.count("env-source:" + case.get("source", "uc2").split(":")[0] + ":" + case.get("weights", "dyadic"))
            ctx.count("env:resets", sum(1 for stp in case["steps"] if stp.get("reset_after")))
            if capture.get("marl"):
                ctx.count("env:runs through PrimaiteRayMARLEnv (rewards dictionary of every step compared)")
                ctx.count("env:PrimaiteRayMARLEnv steps", len(case["steps"]))
            for stp in case["steps"]:  # what the real describe_state() showed the components (read off the projected dictionary)
                for nname, nd in (stp["dict"].get("network", {}).get("nodes", {}) or {}).items():
                    if not isinstance(nd, dict):
                        continue
                    for sv in (nd.get("services") or {}).values():
                        codes = sv.get("response_codes_this_timestep") if isinstance(sv, dict) else None
                        ctx.count("env-state:web-server codes " + ("none" if not codes else ("all-200" if set(codes) == {200} else "some-not-200")))
                    wb = (nd.get("applications") or {}).get("web-browser")
                    if isinstance(wb, dict):
                        hist = wb.get("history") or []
                        ctx.count("env-state:browser last outcome " + (str(hist[-1].get("outcome")) if hist else "empty"))
                    for fo in ((nd.get("file_system") or {}).get("folders") or {}).values():
                        for fi in (fo.get("files") or {}).values():
                            ctx.count("env-state:file health %s" % fi.get("health_status"))
                for it in stp["items"].values():
                    if len(it["request"]) == 6 and it["request"][3] == "application" and it["request"][5] == "execute":
                        ctx.count("env-item:%s execute %s" % (it["request"][4], it["status"]))
        if case["family"] in ("game", "env"):
            _share_coverage(ctx, case)
            ctx.count("compare:" + ("exact" if case.get("exact", True) else "within-rounding-bound"))
            ctx.count("noninterference-rechecks(calculate re-run on own leaf + own read fields only)", capture.get("rechecked", 0))
            ctx.count("live-object oracle(component value recomputed from the live simulator objects)", capture.get("live_checked", 0))
            ctx.count("truthcheck(model: components on describeT(live objects) = on the real dictionary)", sum(1 for kd in kinds if kd == "truthcheck"))
            kindset = {rig_kind for a in case["agents"] for rig_kind in (_comp_tag(c) for c in a["comps"])}
            for kd in kindset:
                ctx.count("comp:" + kd)
            ctx.count("agents-without-components", sum(1 for a in case["agents"] if not a["comps"]))
            ctx.count("load:" + model[0].split()[0] + ("-" + model[0].split()[1] if model[0].startswith("raised") else ""))
            for kd, ans in zip(kinds, model):
                if kd == "step":
                    ctx.count("step:" + (ans.split()[1] if ans.startswith("raised") else ans.split()[0]))
                if kd == "envreset":
                    ctx.count("reset:" + ans.split()[0])
            ctx.count("steps", len(case["steps"]))
            ctx.count("agents:%d" % min(len(case["agents"]), 9))
            nontrivial = model[0].startswith("raised") or any(c["kind"] == "shared" for a in case["agents"] for c in a["comps"]) \
                or any("sticky" in c for a in case["agents"] for c in a["comps"]) or any(a.startswith("raised") for a in model)
            canonical = {k2: v for k2, v in case.items() if k2 != "steps"}
            canonical["steps"] = [{k2: v for k2, v in stp.items() if k2 != "dict"} | ({"fp": rig.fingerprint_words(rig.pyval_words(stp["dict"]))} if "dict" in stp else {})
                                  for stp in case["steps"]]
        elif case["family"] == "access":
            for ans in model[1:-1]:
                ctx.count("access:" + " ".join(ans.split()[:2] if ans.startswith("raised") else ans.split()[:1]))
            nontrivial = True
            canonical = {"family": "access", "fp": model[0], "paths": case["paths"], "restrict": case["restrict"]}
        else:
            ctx.count("graph:" + model[0].split()[0])
            nontrivial = len(case["graph"]) > 1
            canonical = case
        ctx.case(canonical, nontrivial)
        for orc in capture["oracle"]:
            kind = orc.split(":")[0][:60]
            if kind in oracle_kinds or len(oracle_kinds) >= 10:
                continue
            oracle_kinds.add(kind)
            ocase = _shrink_oracle(case, kind) if case["family"] == "game" else _slim(case)
            ctx.violation({"kind": "oracle", "what": kind}, "C10 oracle fails on the implementation: " + orc,
                          {"family": "oracle", "case": ocase, "kind": kind, "oracle_says": orc, "from": name})
        i0 = rig.first_diff(case, impl, model, capture, kinds)
        if i0 < 0:
            agree += 1
            if impl != model and case["family"] in ("game", "env"):
                ctx.count("rounding:floats-differ-from-exact-sum-within-bound")
            if fam in ("rich", "exh4", "big", "env", "badleaf", "episodes"):
                ctx.sample({"case": name, "lines": [l[:400] for l in lines[:10]], "answers": model[:3]}, cap=6)
            continue
        lk = _kind_of(lines, i0)
        if diff_lines.get(lk, 0) >= 2:
            continue
        diff_lines[lk] = diff_lines.get(lk, 0) + 1
        if case["family"] == "env":
            # re-run what the real pipeline produced through the synthetic surface: if it still disagrees it can be shrunk
            synth = {"family": "game", "agents": case["agents"], "exact": case.get("exact", True),
                     "steps": [{"state": {"raw": stp["dict"]}, "items": stp["items"], **({"reset_after": True} if stp.get("reset_after") else {})}
                               for stp in case["steps"]]}
            try:
                if not _diff_case(synth)[0]:
                    case = synth
            except Exception:
                pass
        small = _shrink(case)
        try:
            ok, impl2, model2, i2, lines2, _cap = _diff_case(small)
        except Exception:
            ok = True
        if ok:
            small = case
            if case["family"] == "env":
                impl2, model2, i2, lines2 = impl, model, i0, lines
            else:
                ok, impl2, model2, i2, lines2, _cap = _diff_case(case)
        sig = {"kind": "model-vs-impl", "line": _kind_of(lines2, i2)}
        if small["family"] in ("game", "env"):
            sig["comps"] = ",".join(sorted({_comp_tag(c) for a in small["agents"] for c in a["comps"]}))
            sig["agents"] = len(small["agents"])
        ctx.violation(sig,
                      f"reward layer differs from the proved model at answer {i2} ({_kind_of(lines2, i2)}): "
                      f"impl={impl2[i2][:300] if 0 <= i2 < len(impl2) else None!r} model={model2[i2][:300] if 0 <= i2 < len(model2) else None!r}",
                      {"family": "diff", "case": _slim(small), "lines": [l[:2000] for l in lines2[:200]], "impl": impl2[:200], "model": model2[:200],
                       "first_diff": i2, "from": name})
    ctx.oblige("rig:R-rew agrees on every trace", "correspondence", agree == len(cases),
               f"{len(cases) - agree} of {len(cases)} traces disagree")


def _slim(case: dict) -> dict:
    """A case as stored in a replay file (whole real state dictionaries can be large: they are kept, but only once)."""
    return case
