"""C03 — same scenario, seed and actions give the same trajectory, in any process."""
from __future__ import annotations

import concurrent.futures as cf
import copy
import json
import re
from pathlib import Path
from typing import Any, Dict, List, Optional, Tuple

from harness.extract import nondet as x_nondet
from harness.extract import nondet_seeding as x_seeding
from harness.extract import nondet_output as x_output
from harness.extract import nondet_loops as x_loops
from harness.extract import sharedstate as x_shared  # C04's extractor, imported read-only
from harness.extract import own_generator_state as x_own  # the decorator of the F-11 repair (shared with C04)
from harness.lib import scen
from harness.lib.core import REPO, SRC, VERIF, Ctx, Rng, lean_lock, run_driver
from harness.rigs import envrig, xproc
from harness.rigs import nondet_sites as sites

MANIFEST = {
    "text": "F-11 REPAIRED (fix4-RNG: every environment runs __init__ / reset / step on its OWN saved state of random / numpy.random, decorator "
            "`own_generator_state`): `nothing else consumes the global generators between two calls` is no longer a hypothesis - the code's "
            "operations are modelled as ownedOpStep (restore own state, operate, save), runOwned_eq_runOps proves that a run with ANY foreign "
            "draws anywhere in between IS the plain run of the environment's operations, hence C03_run_indep_of_env_and_foreign_activity / "
            "C03_reseed_reproduces_and_foreign_activity (two processes, any valid environments, ARBITRARY DIFFERENT foreign activity: same "
            "canonical trajectory); C03_foreign_draw_counterexample now speaks of the operations without the decorator. The four new "
            "getstate / setstate sites of the inventory are discharged by a mechanical fact (stateAccess … inWrapper) + that lemma (kind "
            "ownGeneratorState), the decorator's shape and placement are regenerated (Gen/OwnGeneratorState, C03_gen_own_generator_state); the "
            "cross-process workers now differ also in what ELSE uses the process-wide generators between the operations (draws, re-seeding, a "
            "second live environment of the same scenario). "
            "Lean 4 proof, FULL since the F-9 repair (frame timestamps and NTP reply times serialised with a constant width, generated ICMP "
            "identifiers of five digits: C03_run_indep_of_env / C03_reseed_reproduces / C03_code_reseed_reproduces / C03_generators_after_reseed "
            "carry no hypothesis on the environments, only `g.FixedWidth` about the code's text-length function, tied to the source by "
            "C03_gen_fixed_width_readings and the site facts storedIn / boundedSecret; the `_agree` variants are the general lemmas; "
            "C03_full_counterexample now speaks of VARIABLE-width readings, i.e. the code before the repair; the F-9 witness pair is a "
            "regression oracle that must produce identical trajectories). Model: a run is a function of an explicit opaque environment rho (stream of unseeded identifiers - uuid4, "
            "generated MACs -, stream of wall-clock/unseeded readings, for every iteration of a hash-ordered set the order in which its elements "
            "come out, and a stream of OS entropy for generators nobody seeded); the simulator is ANY program over an interface in which "
            "identifiers are equality tokens, readings reach state only through the length of their text inside Frame.size, sets are iterated "
            "only through named consumers, and random draws name their generator FAMILY (python random / numpy global / torch / gymnasium's "
            "per-space generator): a draw from a family the code seeds reads that family's seeded stream, a draw from any other family reads rho. "
            "Proved for every such simulator, schedule, seed and operation list (steps, resets with or without seed, foreign draws): the canonical "
            "trajectory is the same under any two valid environments whose readings have texts of equal length (C03_run_indep_of_env; without "
            "that side condition for a simulator that never sizes a frame from a reading); the episode after reset(seed=s) is a function of "
            "(schedule, episode index, s, later operations) only, whatever the history (C03_reseed_reproduces), and so are the generator states "
            "right after it (C03_generators_after_reseed). The SEEDING PATH AS WRITTEN is data (SeedShape: the guard chain of set_random_seed "
            "and the test reset applies to its seed argument): for every s >= 0 INCLUDING 0 env.reset(seed=s) re-seeds with s, None and -1 leave "
            "the generators alone, s < -1 raises (C03_reset_seed_spec), hence re-seeding reproduces the episode for every seed value in the "
            "caller's vocabulary (C03_code_reseed_reproduces); refuted alternatives: a truthiness test on the seed (C03_truthy_seed_test_"
            "counterexample), building the game before seeding (C03_build_before_seed_counterexample), a draw from a family that is not seeded "
            "(C03_unseeded_family_counterexample = finding F-C03-1, repaired), a foreign draw between reset and step (C03_foreign_draw_"
            "counterexample). Each modelled set consumer is permutation-invariant; every duplicate-free dependencies-first evaluation order "
            "yields the same reward table; the cycle check and the dependencies-first property for every neighbour order are C10's theorem, "
            "imported. The statement for VARIABLE-width reading texts is refuted by the Frame.size witness (C03_full_counterexample: the code before the F-9 repair). Translator tie: (1) "
            "the nondeterminism inventory of the whole tree (every iterated set, uuid, secrets, clock, time, id(), hash(), urandom, random / "
            "np.random / torch / gymnasium-space draw, ordering or text use of an identifier) is regenerated as Gen/Nondet.lean WITH one "
            "mechanical fact per site (generator family and evaluation time of a draw, constant secret length, sinks of a clock reading by a "
            "forward data-flow, exclude= keyword, import closure, uses of a declared set, int element type, __hash__ body, never-written "
            "attribute) and must equal, site for site, the committed discharge table (C03_inventory_discharged); the premise each reason needs "
            "is checked against the site's fact (C03_facts_support_discharges, C03_decl_uses_discharged, C03_identifier_uses); (2) the shape of "
            "set_random_seed / __init__ / reset is regenerated as Gen/NondetSeeding.lean and must be the shape the theorems are about, with "
            "seeding before the construction of the game (C03_gen_seed_shape, C03_gen_seed_before_build) and every draw made at call time from a "
            "seeded family (C03_gen_draw_families_seeded); (3) the LOOPS that iterate a hash-ordered set (every `for` / comprehension / list() over a set "
            "that is not `sorted(...)`) are translated statement by statement into a small loop language (Gen/NondetLoops.lean: assignments, if/else, "
            "emits into accumulators, uninterpreted pure functions; how each accumulator is consumed afterwards - set() / len() / sorted() / by key / "
            "not at all / in ORDER - followed into the callee or class it is handed to); proved for ALL loops and all interpretations of the pure "
            "functions: a well-formed loop (no local carried from one iteration to the next, every accumulator consumed order-free, dict accumulators "
            "keyed by the element) is a permutation-invariant consumer (C03_loop_wellformed_invariant, with a counterexample per clause); Gen "
            "obligation: every site discharged by setToSet / setNoEffect / setLengthOnly / setDictByKey has a translated, well-formed loop with the "
            "matching use (C03_gen_loops_order_free, C03_translated_loops_invariant); the path normal form of the listen_on_ports loop (symbolic "
            "execution in the extractor, validated against the raw translation on a grid in Lean) is pinned and PROVED equal to the consumer "
            "`listenPorts` the component rig validates (C03_gen_listen_loop_normal_form, C03_listen_normal_is_listenPorts); the callers of "
            "get_open_ports (whose list order can depend on PYTHONHASHSEED through the insertion order of colliding ints) are pinned to membership "
            "tests and a sorted table (C03_gen_ordered_result_consumers). Of 74 discharges 9 rest on a model lemma alone, 58 on a mechanical fact plus a lemma "
            "for the kind, 7 on a mechanical fact plus a trusted runtime fact, none is attributed to an open finding (C03_discharge_counts); none rests on "
            "reading alone. Correspondence tie: identical (scenario, seed, operations) in fresh interpreters whose PYTHONHASHSEED values are "
            "chosen to give pairwise different set orders of the scenario's string vocabularies, logging fully on / fully off, diffed step by step "
            "on (observation, reward, agent actions and responses, complete histories, generator-state digests); every seed value of the family "
            "{configured, 0, 1, 2^32-1, random} played twice after different histories and compared inside each process (re-seed oracle, own "
            "obligation line); scenarios: nmap scans, data_manipulation (shipped and generated action maps), uc7 TAP001/TAP003 with generated "
            "stochastic settings (starting_nodes / target_ips lists, variance, stage probabilities), a generated routed/DMZ scenario with "
            "random, periodic, probabilistic and data-manipulation agents, nmap, database and web traffic; the seeding path and the consumer "
            "models against the real set_random_seed / reset / nmap / from_config / topological_sort code through the Lean driver; "
            "from_config on generated lists of port NAMES (string-hashed) built in each of the three interpreters and compared.",
    "note": "C03-specific: that the inventory is complete is the extractor's job (syntactic, name-based set and identifier tracking; values "
            "that two loops with the same path normal form are equivalent is the extractor's claim (validated on a grid, not proved); the loop "
            "translator accepts only whitelisted pure calls and treats every other call as opaque; "
            "that travel through pydantic serialisation are invisible to the data-flow check); that CPython behaves as rho says (fresh uuids "
            "distinct, int hashing is the identity, dict order = insertion order) is trusted; F-9 is replayed with a pinned clock because it "
            "cannot be hit by re-running; the multi-agent Ray environment (never calls set_random_seed) cannot be imported in this sandbox and "
            "is not covered; torch draws do not occur in the tree and torch is only checked through its state digest.",
    "technique": "Lean 4 relational proof over an effect-interpreter with an explicit opaque environment and generator families; regenerated "
                 "inventory with per-site mechanical facts + committed discharge table; regenerated seeding shape; cross-process differential "
                 "rig with a re-seed oracle",
    "design_ref": "5/C03",
}
MODULES = ["PrimaiteModel.Props.C03", "PrimaiteModel.Props.C03Loops"]
# basis of every reason of the discharge table (mirrors `Discharge.basis` in Lemmas/NondetDischarge.lean; the split itself is the
# theorem C03_discharge_counts)
BASIS = {**{r: "mechanical" for r in ("fixedWidthReading", "fixedLenSecret", "clockNotRead", "seededRng", "seeding", "unseededByConfig",
                                                                     "offline", "setDeclCovered", "setEmpty", "setSingleton", "hashValueDiscarded", "setSorted",
                                                                     "setToSet", "setNoEffect", "setLengthOnly", "setDictByKey", "ownGeneratorState")},
         **{r: "trusted" for r in ("hashNotIterated", "setMembershipOnly", "setIntHash", "idTextEqOnly")}}
EXE = "drv_c03"
SKIP = {"bad_primaite_session", "no_nodes_links_agents_network", "eval_only_primaite_session", "multi_agent_session", "data_manipulation_marl"}
QUICK = ["nmap_ping_scan_red_agent_config", "data_manipulation", "nmap_port_scan_red_agent_config"]


# ------------------------------------------------------------------------------------------------ inventory cross-check
RAW = {"uuid": r"\buuid[14]\(", "secrets": r"\bsecrets\.\w+\(", "clock": r"\bdatetime\.(?:now|utcnow|today)\(",
       "hashBuiltin": r"(?<![\w.])hash\(", "idBuiltin": r"(?<![\w.])id\("}


def raw_counts() -> Dict[str, int]:
    """An independent, purely textual count of the call tokens (comments and strings stripped crudely), to tell 'the table changed'
    from 'the extractor mis-read'."""
    out = {k: 0 for k in RAW}
    for f in sorted(SRC.rglob("*.py")):
        txt = f.read_text()
        txt = re.sub(r'"""[\s\S]*?"""', "", txt)
        txt = re.sub(r"#.*", "", txt)
        for k, rx in RAW.items():
            out[k] += len(re.findall(rx, txt))
    return out


# ------------------------------------------------------------------------------------------------ cross-process cases
def _small_scan(cfg: Dict) -> Dict:
    """The shipped nmap scenarios scan a /24 (254 pings per step); a /28 covers the same live hosts."""
    cfg = copy.deepcopy(cfg)
    for a in cfg.get("agents", []):
        for e in (a.get("action_space", {}).get("action_map") or {}).values():
            t = (e.get("options") or {}).get("target_ip_address")
            if isinstance(t, str) and t.endswith("/24"):
                e["options"]["target_ip_address"] = t[:-3] + "/28"
    return cfg


def _n_actions(cfg: Dict) -> int:
    pa = envrig.proxy_agent_cfg(cfg)
    return max(1, len((pa or {}).get("action_space", {}).get("action_map") or {0: 0}))


CASE_WALL: List[Tuple[str, float]] = []
SERVERS: Optional[xproc.Servers] = None  # fork servers (one per PYTHONHASHSEED) of the current run; None = one fresh interpreter per worker
SEED_BIG = 2 ** 32 - 1  # the largest value numpy's global generator accepts


def seed_class(s, cfg_seed) -> str:
    if s is None:
        return "none"
    if s == 0:
        return "zero"
    if s == 1:
        return "one"
    if s == cfg_seed:
        return "configured"
    if s >= 2 ** 31:
        return "large"
    return "other"


def gen_ops(rng: Rng, n: int, k: int, cfg_seed: int, extra_random: int = 0, short: bool = False) -> List[Any]:
    """episode 0 (configured seed c, actions B) | reset(c) B | reset(0) B | reset(c) B | reset(0) B | reset(1) B | reset(BIG) B |
    reset(1) B | reset(BIG) B | [reset(r) B | reset(r') B | reset(r) B …] | reset(None) C.   Every seed value is played twice THROUGH
    reset with the SAME actions after DIFFERENT histories (different numbers of draws consumed), so that "did not re-seed" is observable;
    all seeded episodes use the same actions, so that episodes with different seeds can be told apart (non-vacuity)."""
    b = [rng.below(n) for _ in range(k)]
    c = [rng.below(n) for _ in range(max(2, k // 2))]
    # `short` (quick tier, secondary cases): only the seed value 0 twice; the full family is played by the primary cases
    plan: List[Any] = [0, 0] if short else [cfg_seed, 0, cfg_seed, 0, 1, SEED_BIG, 1, SEED_BIG]
    rs = [rng.range(2, 2 ** 31 - 1) for _ in range(extra_random)]
    plan += rs + rs[::-1]
    ops: List[Any] = list(b)
    for sd in plan:
        ops += [["reset", sd]] + b
    return ops + [["reset", None]] + c


def reseed_pairs(ops: List[Any], cfg_seed) -> List[Tuple[int, int, Any]]:
    """(episode i, episode j, seed): both were started with the same seed and played the same actions (episode 0 = construction
    with the configured seed)."""
    eps: List[Tuple[Any, List[Any]]] = [(cfg_seed, [])]
    for o in ops:
        if isinstance(o, list) and o and o[0] == "reset":
            eps.append((o[1], []))
        else:
            eps[-1][1].append(o)
    out = []
    first: Dict[Any, int] = {}
    for i, (sd, acts) in enumerate(eps):
        if sd is None or i == 0:  # episode 0 was CONSTRUCTED, not reset: see `constructed_vs_reset`
            continue
        key = (sd, tuple(acts))
        if key in first:
            out.append((first[key], i, sd))
        else:
            first[key] = i
    return out


# ------------------------------------------------------------------------------------------------ scenario families
UC7_START_NODES = ["ST_PROJ-A-PRV-PC-1", "ST_PROJ-B-PRV-PC-2", "ST_PROJ-C-PRV-PC-3"]


def tap_variant(cfg: Dict, rng: Rng) -> Dict:
    """A uc7 scenario whose threat-actor agent has STOCHASTIC settings: a `starting_nodes` list of >= 2 hosts (the shipped files
    leave it empty), a `target_ips` list, variance > 0 and stage probabilities < 1 - so that every draw site of abstract_tap.py /
    TAP001.py / TAP003.py is exercised."""
    cfg = copy.deepcopy(cfg)
    hosts = {n.get("hostname"): n for n in cfg["simulation"]["network"]["nodes"] if isinstance(n, dict)}
    for a in cfg.get("agents", []):
        if a.get("type") not in ("tap-001", "tap-003"):
            continue
        st = a.setdefault("agent_settings", {})
        cands = [h for h in UC7_START_NODES if h in hosts] or [st.get("default_starting_node")]
        nodes = rng.shuffle(cands)[:rng.range(2, max(2, len(cands)))]
        if rng.chance(1, 3):
            nodes.append(nodes[0])  # a host listed twice
        st["starting_nodes"] = nodes
        st["start_step"] = rng.range(1, 2)
        st["frequency"] = rng.range(3, 4)
        st["variance"] = rng.range(1, 2)
        st["repeat_kill_chain"] = True
        kc = st.get("kill_chain") or {}
        for stage, opts in kc.items():
            if isinstance(opts, dict) and "probability" in opts:
                opts["probability"] = rng.choice([0.5, 0.7, 0.9])
        if a["type"] == "tap-001":
            ips = [st.get("default_target_ip")] + [hosts[h]["ip_address"] for h in ("ST_DATA-PRV-SRV-DB", "ST_DATA-PRV-SRV-STORAGE", "ST_DMZ-PUB-SRV-WEB")
                                                   if h in hosts and "ip_address" in hosts[h]]
            ips = [i for i in dict.fromkeys(ips) if i]
            if len(ips) >= 2:
                st["target_ips"] = rng.shuffle(ips)[:rng.range(2, len(ips))]
    return cfg


def generated_variant(rng: Rng) -> Dict:
    """A generated routed/dmz scenario (harness/gen/scenario.py: database server + clients, web server + browsers, green
    probabilistic users, periodic and data-manipulation attackers) plus a RANDOM agent and a second periodic agent whose action maps
    hold nmap ping / port scans of the LANs, database and web requests."""
    from harness.gen import scenario as gscen
    fam = rng.choice(["routed", "dmz", "routed"])
    cfg = gscen.gen_scenario(rng, size=1, family=fam, shadowing=False, off_nodes=False)
    hosts = gscen.hosts_of(cfg)
    clients = [h for h in hosts if h["type"] == "computer"] or hosts
    nets = sorted({h["ip_address"].rsplit(".", 1)[0] + ".0/28" for h in hosts})
    src = clients[0]["hostname"]
    amap: Dict[int, Dict] = {0: {"action": "do-nothing", "options": {}}}
    for net in nets[:3]:
        amap[len(amap)] = {"action": "node-nmap-ping-scan", "options": {"source_node": src, "target_ip_address": net, "show": False}}
        amap[len(amap)] = {"action": "node-nmap-port-scan", "options": {"source_node": src, "target_ip_address": net, "target_port": [80, 5432, 53, 21],
                                                                        "target_protocol": ["tcp", "udp"], "show": False}}
    amap[len(amap)] = {"action": "node-network-service-recon", "options": {"source_node": src, "target_ip_address": nets[0], "target_port": 80,
                                                                           "target_protocol": "tcp", "show": False}}
    for h in clients[:3]:
        for app in ("web-browser", "database-client"):
            if app == "web-browser" or any(a["type"] == app for a in h.get("applications", [])):
                amap[len(amap)] = {"action": "node-application-execute", "options": {"node_name": h["hostname"], "application_name": app}}
    cfg["agents"].append({"ref": "verif_random_user", "team": "GREEN", "type": "random-agent", "action_space": {"action_map": amap},
                          "reward_function": {"reward_components": [{"type": "dummy", "weight": 1.0}]}})
    cfg["agents"].append({"ref": "verif_periodic", "team": "RED", "type": "periodic-agent",
                          "agent_settings": {"possible_start_nodes": [h["hostname"] for h in clients[:3]], "target_application": "web-browser",
                                             "start_step": 1, "start_variance": 1, "frequency": 3, "variance": 1}})
    pa = envrig.proxy_agent_cfg(cfg)
    if pa is not None:  # the RL agent can scan as well
        m = pa["action_space"]["action_map"]
        for e in list(amap.values())[1:4]:
            m[max(m) + 1] = copy.deepcopy(e)
    cfg["game"]["max_episode_length"] = 64
    return cfg


NMNE_ALL = {"capture_nmne": True, "nmne_capture_keywords": ["DELETE", "SELECT", "INSERT", "UPDATE", "ENCRYPT"]}


def contrast_cfg(cfg: Dict, rng: Rng) -> Dict:
    """The same scenario with every OPTIONAL process-wide setting at a NON-default value that differs from the case's: NMNE capture
    switched on with every keyword (off if the case has it on), other observation thresholds, other airspace capacities, another seed,
    another episode length. Played in the same interpreter BEFORE the case (process history)."""
    c = copy.deepcopy(cfg)
    net = c.setdefault("simulation", {}).setdefault("network", {})
    cur = net.get("nmne_config") or {}
    net["nmne_config"] = {"capture_nmne": False} if cur.get("capture_nmne") and rng.chance(1, 3) else dict(NMNE_ALL)
    net["airspace"] = {"frequency_max_capacity_mbps": {"WIFI_2_4": 12.5, "WIFI_5": 37.5}}
    g = c.setdefault("game", {})
    g["thresholds"] = {"nmne": {"high": 3, "medium": 2, "low": 1}, "file_access": {"high": 4, "medium": 2, "low": 1},
                       "app_executions": {"high": 4, "medium": 2, "low": 1}}
    g["seed"] = rng.range(2, 10 ** 6)
    g["max_episode_length"] = 17
    return c


def defaults_variant(cfg: Dict) -> Dict:
    """The scenario with every optional process-wide section LEFT OUT (no nmne_config, no airspace capacities, no thresholds): whatever
    the code derives from a missing section must be the default, not what an earlier game of the process left behind. Scripted attackers
    start early so that their traffic (the DELETE query NMNE capture looks for) falls inside the short episodes."""
    c = copy.deepcopy(cfg)
    net = c.get("simulation", {}).get("network", {})
    net.pop("nmne_config", None)
    net.pop("airspace", None)
    c.get("game", {}).pop("thresholds", None)
    for a in c.get("agents", []):
        st = a.get("agent_settings") or {}
        if a.get("type") in ("red-database-corrupting-agent", "periodic-agent") and "start_step" in st:
            st.update(start_step=2, frequency=3, variance=1)
            st.pop("start_variance", None)
    return c


def sharing_first_variant(cfg: Dict, rng: Rng) -> Dict:
    """The agent that SHARES rewards is declared FIRST, before the >= 2 agents it shares from, and those are stochastic agents that
    draw from the seeded global generator when they act, all in the same step (periodic agents with variance > 0, same start step and
    frequency). The dependency sets of the reward-sharing graph are sets of agent names: their iteration order (PYTHONHASHSEED) decides
    the reward EVALUATION order - which must be all it decides. If the same order also decided who ACTS first, the draws would be handed
    out differently and the trajectories of two interpreters would part."""
    cfg = copy.deepcopy(cfg)
    hosts = [n["hostname"] for n in cfg["simulation"]["network"]["nodes"] if n.get("type") == "computer"]
    names = rng.shuffle(["per_alpha", "per_bravo", "per_charlie", "per_delta"])[:rng.range(3, 4)]
    freq = rng.range(3, 4)
    per = [{"ref": nm, "team": "GREEN", "type": "periodic-agent",
            "agent_settings": {"possible_start_nodes": [hosts[i % len(hosts)]], "target_application": "web-browser",
                               "start_step": 1, "start_variance": 0, "frequency": freq, "variance": freq - 1}} for i, nm in enumerate(names)]
    pa = envrig.proxy_agent_cfg(cfg)
    rf = pa.setdefault("reward_function", {}).setdefault("reward_components", [])
    for nm in names:
        rf.append({"type": "shared-reward", "weight": 0.25, "options": {"agent_name": nm}})
    others = [a for a in cfg["agents"] if a is not pa]
    cfg["agents"] = [pa] + per + others
    return cfg


def warm_specs(cfg: Dict, rng: Rng) -> List[Dict]:
    """The process histories of a case: [0] the contrast scenario (built, stepped, reset, closed), [1] the shipped data_manipulation
    scenario (NMNE capture on, DELETE keyword)."""
    import yaml
    out = [{"cfg_yaml": yaml.safe_dump(contrast_cfg(cfg, rng), sort_keys=False), "steps": 3, "reset": True}]
    shipped = scen.shipped()
    if "data_manipulation" in shipped:
        dm = scen.load_cfg(shipped["data_manipulation"])
        dm.setdefault("game", {})["seed"] = rng.range(2, 10 ** 6)
        out.append({"cfg_yaml": yaml.safe_dump(dm, sort_keys=False), "steps": 4, "reset": False})
    return out


def cases(ctx: Ctx, search: bool = False):
    """(name, variant, cfg, ops). `search` = the extra family run when an inventory obligation is broken."""
    shipped = scen.shipped()
    rng = ctx.rng.fork("xproc" + ("-search" if search else ""))
    if not search:
        names = [n for n in QUICK if n in shipped] if not ctx.thorough else [n for n in shipped if n not in SKIP]
        for idx, name in enumerate(names):
            try:
                cfg = scen.load_cfg(shipped[name])
            except Exception:
                continue
            cfg = _small_scan(envrig.with_proxy(cfg))
            cfg.setdefault("game", {})
            if cfg["game"].get("seed") in (None, -1):
                cfg["game"]["seed"] = rng.range(2, 10 ** 6)  # the property speaks of a CONFIGURED seed
            stochastic = name in ("data_manipulation",) or ctx.thorough
            k = ctx.scale(8, 20) if stochastic else ctx.scale(4, 12)
            yield name, "shipped-map", cfg, gen_ops(rng.fork(name), _n_actions(cfg), k, cfg["game"]["seed"], ctx.scale(0, 1),
                                                    short=(not ctx.thorough and not stochastic))
            if ctx.thorough or name == "data_manipulation":
                try:
                    aug = envrig.augmented(cfg, rng.fork(name + "-aug"), ctx.scale(40, 120))
                except Exception as e:
                    ctx.notes.append(f"{name}: generated action map not built: {type(e).__name__}: {str(e)[:100]}")
                    aug = None
                if aug is not None:
                    aug = _small_scan(aug)
                    yield name, "generated-map", aug, gen_ops(rng.fork(name + "-augops"), _n_actions(aug), ctx.scale(8, 18), aug["game"]["seed"], 0,
                                                              short=not ctx.thorough)
    # the same scenarios with every optional process-wide section left out (played after a history that set them)
    if not search:
        for name in (["data_manipulation"] if not ctx.thorough else ["data_manipulation", "uc7_config", "action_penalty", "shared_rewards",
                                                                      "extended_config", "test_application_install"]):
            if name not in shipped:
                continue
            try:
                cfg = defaults_variant(envrig.with_proxy(scen.load_cfg(shipped[name])))
                scen.make_game(cfg)
            except Exception as e:
                ctx.notes.append(f"{name}: defaults variant not built: {type(e).__name__}: {str(e)[:120]}")
                continue
            cfg.setdefault("game", {})["seed"] = rng.range(2, 10 ** 6)
            r = rng.fork(name + "-defaults")
            k = ctx.scale(10, 24)
            acts = [r.below(_n_actions(cfg)) if r.chance(1, 4) else 0 for _ in range(k)]  # mostly do-nothing: let the scripted traffic through
            yield name, "defaults-after-history", cfg, acts + [["reset", cfg["game"]["seed"]]] + acts + [["reset", None]] + acts[:k // 2]
    # the reward-sharing agent declared first, its stochastic dependants acting in the same step
    for i in range(ctx.scale(1, 4) if not search else 2):
        if "data_manipulation" not in shipped:
            break
        r = rng.fork(f"sharing-first-{i}")
        try:
            cfg = sharing_first_variant(envrig.with_proxy(scen.load_cfg(shipped["data_manipulation"])), r)
            scen.make_game(cfg)
        except Exception as e:
            ctx.notes.append(f"sharing-first variant {i} not built: {type(e).__name__}: {str(e)[:160]}")
            continue
        cfg["game"]["seed"] = r.range(2, 10 ** 6)
        yield "data_manipulation", f"sharing-agent-first-{i}", cfg, gen_ops(r, _n_actions(cfg), ctx.scale(8, 16), cfg["game"]["seed"], 0,
                                                                            short=not ctx.thorough)
    # threat-actor agents with stochastic settings (uc7), and a generated scenario with a random agent + nmap + database + web
    n_tap = ctx.scale(1, 3) if not search else 2
    for name in ("uc7_config", "uc7_config_tap003"):
        if name not in shipped:
            continue
        base = envrig.with_proxy(scen.load_cfg(shipped[name]))
        for i in range(n_tap):
            r = rng.fork(f"{name}-tap{i}")
            cfg = tap_variant(base, r)
            cfg["game"]["seed"] = r.range(2, 10 ** 6)
            yield name, f"stochastic-tap-{i}", cfg, gen_ops(r, _n_actions(cfg), ctx.scale(10, 20), cfg["game"]["seed"], ctx.scale(0, 1),
                                                            short=(not ctx.thorough and name != "uc7_config"))
    for i in range(ctx.scale(1, 6) if not search else 2):
        r = rng.fork(f"generated-{i}")
        try:
            cfg = generated_variant(r)
            scen.make_game(cfg)
        except Exception as e:
            ctx.notes.append(f"generated scenario {i} not built: {type(e).__name__}: {str(e)[:160]}")
            continue
        cfg["game"]["seed"] = r.range(2, 10 ** 6)
        yield "generated", f"random-agent+nmap+db+web-{i}", cfg, gen_ops(r, _n_actions(cfg), ctx.scale(8, 14), cfg["game"]["seed"], ctx.scale(0, 1),
                                                                         short=False)


def choose_hashseeds(ctx: Ctx, rng: Rng, cfgs: List[Dict], n: int) -> Tuple[List[int], Dict]:
    """The PYTHONHASHSEED values of the run's interpreters: chosen so that the string vocabularies of ALL the cases (every list of
    strings in the configs, host names, addresses) come out of a set in pairwise different orders (xproc.pick_hashseeds)."""
    cands = [1] + [rng.range(2, 4_000_000_000) for _ in range(ctx.scale(9, 13))]
    if ctx.thorough:
        cands.insert(1, 0)  # hashing disabled
    vocabs: List[List[str]] = []
    seen = set()
    for cfg in cfgs:
        for v in xproc.string_vocabularies(cfg, cap=24):
            if tuple(v) not in seen and len(vocabs) < 400:
                seen.add(tuple(v))
                vocabs.append(v)
    return xproc.pick_hashseeds(vocabs, n, cands)


def variants(seeds: List[int]) -> List[Dict]:
    """The interpreters of a case: worker 0 starts fresh; the others have a PROCESS HISTORY (xproc: warm-ups played in the same
    interpreter before the case); logging fully on / fully off alternates."""
    hist = [[], [0], [1, 0], [1], [0, 1], [], [0]]
    # `foreign` (since the F-11 repair): what ELSE uses the process-wide generators between the environment's operations in that interpreter:
    # 0 nothing (worker 0: the reference), 1 / 5 draws, 2 / 4 re-seeding + draws, 3 draws + a second LIVE environment of the same scenario
    foreign = [0, 3, 2, 1, 4, 5, 3]
    return [{"hashseed": hs, "loud": (i % 2 == 1), "warm": hist[i % len(hist)], "foreign": foreign[i % len(foreign)]} for i, hs in enumerate(seeds)]


def episodes_of(lines: List[str]) -> List[List[str]]:
    """Split a worker's stream at the reset lines: [[new, steps…, histories], [reset, steps…, histories], …]."""
    eps: List[List[str]] = [[]]
    for l in lines:
        if l.startswith('{"op": "reset"'):
            eps.append([])
        eps[-1].append(l)
    return eps


def _head_fields(line: str) -> Dict:
    try:
        j = json.loads(line)
        return {"rng": j.get("rng"), "obs": j.get("obs")}
    except Exception:
        return {"unparsable": line[:80]}


def reseed_oracle(name: str, variant: str, cfg: Dict, ops: List[Any], base_v: Dict, base: List[str]) -> Tuple[List[dict], Dict[str, int]]:
    """"Re-seeding on reset reproduces the same episode again": every two episodes of ONE process that were started with the same
    seed (construction with the configured seed counts) and played the same actions must be identical line for line - the generator
    digests and the first observation on the reset line, every step line, the complete histories."""
    cfg_seed = (cfg.get("game") or {}).get("seed")
    eps = episodes_of(base)
    viol: List[dict] = []
    cnt: Dict[str, int] = {}
    pairs = reseed_pairs(ops, cfg_seed)
    for i, j, sd in pairs:
        if j >= len(eps) or i >= len(eps) or len(eps[i]) != len(eps[j]):
            cnt["reseed:pair-not-comparable"] = cnt.get("reseed:pair-not-comparable", 0) + 1
            continue
        cls = "configured" if sd == cfg_seed else seed_class(sd, cfg_seed)
        cnt["reseed:pairs:" + cls] = cnt.get("reseed:pairs:" + cls, 0) + 1
        cnt["reseed:lines-compared"] = cnt.get("reseed:lines-compared", 0) + len(eps[i])
        a, b = list(eps[i]), list(eps[j])
        ha, hb = _head_fields(a[0]), _head_fields(b[0])
        d = None
        if ha != hb:
            d, desc = 0, {"part": "rng" if ha.get("rng") != hb.get("rng") else "obs"}
            dd = xproc.first_diff([l for l in a[1:] if l.startswith('{"op"')], [l for l in b[1:] if l.startswith('{"op"')])
            if dd is not None:  # the first OBSERVABLE difference, for the report
                sa, sb = [l for l in a[1:] if l.startswith('{"op"')], [l for l in b[1:] if l.startswith('{"op"')]
                desc["first_step_that_differs"] = dd
                desc["step_diff"] = xproc.describe_diff(sa[dd], sb[dd]) if dd < len(sa) and dd < len(sb) else {"part": "length"}
        else:
            dd = xproc.first_diff(a[1:], b[1:])
            if dd is not None:
                d = dd + 1
                desc = xproc.describe_diff(a[d], b[d])
        if d is not None:
            sig = {"kind": "reseed-diff", "seed_class": cls, **{k: desc[k] for k in ("part", "action", "field") if k in desc}}
            viol.append({"sig": sig, "what": f"{name}/{variant}: episode {j} was started with reset(seed={sd}) and played the same actions as episode {i} "
                                            f"(started with the same seed), but line {d} of the episode differs: {desc}; "
                                            f"{_excerpt(a[d], b[d])}",
                         "replay": {"scenario": name, "variant": variant, "cfg_yaml": _yaml(cfg), "ops": ops, "variants": [base_v], "reseed": True,
                                    "episodes": [i, j], "seed": sd, "a": a[d][:3000], "b": b[d][:3000]}})
            break
    # observation only (NOT part of the property: `__init__` does not run setup_for_episode / update_agents, so the first steps of a
    # merely constructed environment may differ from those after reset - DESIGN 9.6.C04.2): episode 0 vs the episode after reset(configured)
    if len(eps) > 1 and len(eps[0]) == len(eps[1]):
        same = [l for l in eps[0][1:] if l.startswith('{"op"')] == [l for l in eps[1][1:] if l.startswith('{"op"')]
        k0 = "reseed:constructed-episode-equals-reset(configured)-episode" if same else "reseed:constructed-episode-differs-from-reset(configured)-episode"
        cnt[k0] = cnt.get(k0, 0) + 1
        if _head_fields(eps[0][0]).get("rng") == _head_fields(eps[1][0]).get("rng"):
            cnt["reseed:generators-after-construction-equal-those-after-reset(configured)"] = 1
    # non-vacuity: episodes started with DIFFERENT seeds (same actions) that can be told apart
    by_seed: Dict[Any, List[str]] = {}
    for i, j, sd in pairs:
        if i < len(eps):
            by_seed.setdefault(sd, [l for l in eps[i][1:] if l.startswith('{"op"')])  # step lines only (no generator digests)
    vals = list(by_seed.values())
    cnt["reseed:seed-values"] = len(vals)
    cnt["reseed:seed-values-distinguishable"] = len({json.dumps(v) for v in vals})
    return viol, cnt


def check_case(name: str, variant: str, cfg: Dict, ops: List[Any], vs: List[Dict], warm: Optional[List[Dict]] = None
               ) -> Tuple[List[dict], Dict[str, int], List[str]]:
    """Run the workers; returns (violations, counters, base lines)."""
    import time as _time
    t_case = _time.time()
    warm = warm or []
    vs = [dict(v, warm=[i for i in (v.get("warm") or []) if i < len(warm)]) for v in vs]
    res = xproc.run_workers({"cfg": cfg, "ops": ops, "warm": warm}, vs, REPO, VERIF,
                            servers=None if name.startswith("corpus:") else SERVERS)  # corpus witnesses: fresh interpreters, stored variants
    CASE_WALL.append((f"{name}/{variant}", round(_time.time() - t_case, 1)))
    viol: List[dict] = []
    cnt = {"workers": len(res), "lines": 0, "raised": 0}
    base_v, base, base_err = res[0]
    cnt["lines"] = len(base)
    if not base or any('"raised"' in l[:12] for l in base[-1:]):
        cnt["raised"] += 1
    if not base:
        viol.append({"sig": {"kind": "worker-produced-nothing"}, "what": f"{name}/{variant}: worker printed nothing: {base_err[-300:]}",
                     "replay": {"scenario": name, "variant": variant, "cfg_yaml": _yaml(cfg), "ops": ops, "variants": vs}})
        return viol, cnt, base
    for v, lines, err in res[1:]:
        d = xproc.first_diff(base, lines)
        if d is None:
            continue
        a = base[d] if d < len(base) else "<stream ended>"
        b = lines[d] if d < len(lines) else "<stream ended>"
        desc = xproc.describe_diff(a, b) if d < len(base) and d < len(lines) else {"part": "length"}
        sig = {"kind": "cross-process-diff", **{k: desc[k] for k in ("part", "action", "field") if k in desc}}
        if (v.get("warm") or []) != (base_v.get("warm") or []):
            sig["history"] = "differs"   # the two interpreters also differ in what they ran BEFORE the case
        if (v.get("foreign") or 0) != (base_v.get("foreign") or 0):
            sig["foreign"] = "differs"   # … and in what else used the process-wide generators BETWEEN the environment's operations
        viol.append({"sig": sig, "what": f"{name}/{variant}: line {d} differs between {_vshort(base_v)} and {_vshort(v)}: {desc}; "
                                        f"{_excerpt(a, b)}",
                     "replay": {"scenario": name, "variant": variant, "cfg_yaml": _yaml(cfg), "ops": ops, "variants": [base_v, v], "warm": warm, "first_diff": d,
                                "a": a[:4000], "b": b[:4000], "stderr": err[-500:]}})
        break
    cnt["workers-with-history"] = sum(1 for v, _, _ in res if v.get("warm"))
    cnt["warmup-failed"] = sum(err.count("WARMUP-FAILED") for _, _, err in res)
    rv, rc = reseed_oracle(name, variant, cfg, ops, base_v, base)
    viol += rv
    cnt.update(rc)
    return viol, cnt, base


def _yaml(cfg: Dict) -> str:
    """Replay records carry the scenario as YAML text: JSON would turn integer keys (router ports, action maps) into strings."""
    import yaml
    return yaml.safe_dump(cfg, sort_keys=False)


def _vshort(v: Dict) -> str:
    h = v.get("warm") or []
    return (f"{{hashseed {v.get('hashseed')}, {'loud' if v.get('loud') else 'quiet'}, history {h if h else 'none (fresh)'}, "
            f"foreign generator use {v.get('foreign') or 0}}}")


def _excerpt(a: str, b: str) -> str:
    i = next((i for i, (x, y) in enumerate(zip(a, b)) if x != y), min(len(a), len(b)))
    return f"…{a[max(0, i - 60):i + 60]}… vs …{b[max(0, i - 60):i + 60]}…"


# ------------------------------------------------------------------------------------------------ F-9 witness (pinned clock)
def f9_cfg(bandwidth: Optional[float]) -> Dict:
    cfg = envrig.with_proxy(copy.deepcopy(sites.ONE_NODE))
    pa = envrig.proxy_agent_cfg(cfg)
    pa["action_space"]["action_map"] = {0: {"action": "do-nothing", "options": {}},
                                        1: {"action": "node-nmap-ping-scan", "options": {"source_node": "pc_a", "target_ip_address": "192.168.7.3",
                                                                                         "show": False}}}
    cfg["game"]["seed"] = 3
    if bandwidth is not None:
        for l in cfg["simulation"]["network"]["links"]:
            l["bandwidth"] = bandwidth
    return cfg


def f9_try(bandwidth: float, pin_a: Dict, pin_b: Dict) -> Optional[dict]:
    cfg = f9_cfg(bandwidth)
    r = xproc.run_workers({"cfg": cfg, "ops": [1, 1]}, [{"hashseed": 1, "pin": pin_a}, {"hashseed": 1, "pin": pin_b}], REPO, VERIF, servers=SERVERS)
    a, b = r[0][1], r[1][1]
    d = xproc.first_diff(a, b)
    if d is None or not a or not b:
        return None
    return {"cfg_yaml": _yaml(cfg), "ops": [1, 1], "variants": [{"hashseed": 1, "pin": pin_a}, {"hashseed": 1, "pin": pin_b}], "first_diff": d,
            "a": a[d][:3000] if d < len(a) else None, "b": b[d][:3000] if d < len(b) else None, "bandwidth": bandwidth}


def f9_search(pin_a: Dict, pin_b: Dict) -> Optional[dict]:
    """Measure the step's link load under both pins on an uncongested link, then put the bandwidth between m frames of the one
    size and m frames of the other, for the m at which the busiest admission test sits."""
    r = xproc.run_workers({"cfg": f9_cfg(None), "ops": [1, 1], "probe": {"link_loads": True}},
                          [{"hashseed": 1, "pin": pin_a}, {"hashseed": 1, "pin": pin_b}], REPO, VERIF, servers=SERVERS)
    try:
        la = float.fromhex(json.loads(r[0][1][-1])["probe"]["link_loads"][0])
        lb = float.fromhex(json.loads(r[1][1][-1])["probe"]["link_loads"][0])
    except Exception:
        return None
    if la == lb:
        return None
    with cf.ThreadPoolExecutor(8) as ex:
        for w in ex.map(lambda m: f9_try(m * (la + lb) / 16, pin_a, pin_b), range(8, 0, -1)):
            if w:
                return w
    return None


F9_PINS = {"clock": ({"micro": 0, "icmp_id": 4242}, {"micro": 123456, "icmp_id": 4242}),
           "icmp-identifier": ({"micro": 123456, "icmp_id": 7}, {"micro": 123456, "icmp_id": 54321})}


def f9_loads(pin_a: Dict, pin_b: Dict) -> Optional[Tuple[float, float]]:
    """The load one step puts on the first link under each pin (uncongested links)."""
    r = xproc.run_workers({"cfg": f9_cfg(None), "ops": [1, 1], "probe": {"link_loads": True}},
                          [{"hashseed": 1, "pin": pin_a}, {"hashseed": 1, "pin": pin_b}], REPO, VERIF, servers=SERVERS)
    try:
        return (float.fromhex(json.loads(r[0][1][-1])["probe"]["link_loads"][0]), float.fromhex(json.loads(r[1][1][-1])["probe"]["link_loads"][0]))
    except Exception:
        return None


def f9_compute() -> List[Tuple[str, Optional[dict], Dict]]:
    """Finding F-9 (REPAIRED) as a regression oracle, on every run: two interpreters that differ only in a pinned reading - a clock
    whose microsecond field is zero vs one whose field is not; an ICMP identifier pinned to the smallest vs a large value the code can
    draw (a 1-digit vs a 5-digit one for the code before the repair) - must now (1) put the SAME load on the link and (2) produce
    IDENTICAL trajectories on the link whose bandwidth used to sit between the two frame sizes (stored witness). If they differ the
    old search runs again to produce the witness. No Ctx access: runs in a thread."""
    stored = {}
    f = VERIF / "corpus" / "C03" / "f9_frame_size_text_length.json"
    if f.exists():
        stored = json.loads(f.read_text()).get("bandwidth", {})
    out = []
    for which, (pa, pb) in F9_PINS.items():
        info: Dict[str, Any] = {}
        loads = f9_loads(pa, pb)
        info["loads_measured"] = loads is not None
        info["loads_equal"] = bool(loads and loads[0] == loads[1])
        w = None
        if which in stored:
            cfg = f9_cfg(stored[which])
            r = xproc.run_workers({"cfg": cfg, "ops": [1, 1]}, [{"hashseed": 1, "pin": pa}, {"hashseed": 1, "pin": pb}], REPO, VERIF, servers=SERVERS)
            a, b = r[0][1], r[1][1]
            info["stored_pair_played"] = bool(a and b and not a[0].startswith('{"raised"'))
            info["stored_pair_lines"] = len(a)
            w = f9_try(stored[which], pa, pb) if xproc.first_diff(a, b) is not None else None
        if w is None and loads and loads[0] != loads[1]:
            w = f9_search(pa, pb)
        out.append((which, w, info))
    return out


def f9_record(ctx: Ctx, results):
    ok = True
    for which, w, info in results:
        played = info.get("loads_measured") and info.get("stored_pair_played")
        ctx.count(f"f9-regression:{which}:" + ("pair-played" if played else "pair-NOT-played"))
        if info.get("loads_equal"):
            ctx.count(f"f9-regression:{which}:link-loads-equal")
        if w is None and played and info.get("loads_equal"):
            ctx.count(f"f9-regression:{which}:trajectories-identical")
            continue
        ok = False
        if w is not None:
            desc = xproc.describe_diff(w["a"], w["b"]) if w["a"] and w["b"] else {"part": "length"}
            ctx.violation({"kind": "fixed-width-regression", "reading": which},
                          f"F-9 is back: same scenario, seed and actions, two processes that differ only in the pinned {which} reading "
                          f"(link bandwidth {w['bandwidth']!r} Mbit): line {w['first_diff']} differs ({desc})", w)
        elif played:
            ctx.violation({"kind": "fixed-width-regression", "reading": which, "part": "link-load"},
                          f"F-9 is back: the load one ping scan puts on the link differs between two processes that differ only in the pinned {which} reading",
                          {"cfg_yaml": _yaml(f9_cfg(None)), "ops": [1, 1], "probe": {"link_loads": True},
                           "variants": [{"hashseed": 1, "pin": F9_PINS[which][0]}, {"hashseed": 1, "pin": F9_PINS[which][1]}]})
    ctx.oblige("oracle:F-9 regression - a pinned zero-microsecond clock / smallest identifier changes neither the link load nor the trajectory",
               "correspondence", ok, "" if ok else "see violations / the pair could not be played")
    ctx.cov["f9_regression"] = {which: info for which, _, info in results}


# ------------------------------------------------------------------------------------------------ component rig (driver vs real code)
def site_rig(ctx: Ctx):
    from primaite.utils.validation.port import PORT_LOOKUP
    rng = ctx.rng.fork("sites")
    lines: List[str] = []
    impl: List[str] = []
    meta: List[dict] = []
    for f in sorted((VERIF / "corpus" / "C03").glob("site_*.json")):
        for c in json.loads(f.read_text())["cases"]:
            lines.append(c["line"])
            impl.append(_site_impl(c, None, PORT_LOOKUP))
            meta.append({"from": f.name, **c})
    game = scen.make_game(sites.ONE_NODE)
    n = ctx.scale(60, 600)
    for _ in range(n):
        ts = sites.gen_targets(rng)
        for kind in ("ping", "port"):
            elems, visited = sites.nmap_visit_order(game, ts, kind)
            lines.append("sorted " + " ".join(map(str, elems)))
            impl.append(" ".join(map(str, visited)))
            meta.append({"site": "sorted", "kind": kind, "targets": ts})
    for _ in range(ctx.scale(40, 300)):
        es = sites.gen_port_entries(rng, PORT_LOOKUP)
        lines.append(sites.ports_line(es, PORT_LOOKUP))
        impl.append(" ".join(map(str, sites.listen_ports_impl(es))))
        meta.append({"site": "ports", "entries": es})
    for _ in range(ctx.scale(150, 3000)):
        g = sites.gen_graph(rng)
        lines.append(sites.topo_line(g))
        impl.append(" ".join(map(str, sites.topo_impl(g))))
        meta.append({"site": "topo", "graph": g})
    for _ in range(ctx.scale(150, 3000)):
        o = sites.gen_canon(rng)
        lines.append(sites.canon_line(o))
        impl.append(sites.canon_impl(o, sites.fresh_ids(rng)))
        meta.append({"site": "canon", "outs": o})
    # the seeding path: set_random_seed(x, g) and env.reset(seed=x) for every x of the family, against the model of the code's shape
    env = scen.make_env(_seed_env_cfg())
    try:
        for x in sites.SEED_ARGS + [rng.range(3, 2 ** 31) for _ in range(ctx.scale(2, 20))]:
            for g in (False, True):
                xs = "none" if x is None else str(x)
                lines.append(f"seedact set {int(g)} {xs}")
                impl.append(sites.seedact_set_impl(x, g))
                meta.append({"site": "seedact", "fn": "set_random_seed", "seed": x, "generate_seed_value": g})
                lines.append(f"seedact reset {int(g)} {xs}")
                impl.append(sites.seedact_reset_impl(env, x, g))
                meta.append({"site": "seedact", "fn": "reset", "seed": x, "generate_seed_value": g})
    finally:
        env.close()
    import secrets as _secrets
    for nbytes in list(range(0, 40)) + [64, 100]:
        lines.append(f"toklen {nbytes}")
        impl.append(str(len(_secrets.token_urlsafe(nbytes))))
        meta.append({"site": "toklen", "nbytes": nbytes})
    for n_ in [0, 7, 9, 10, 99, 100, 999, 1000, 9999, 10000, 10001, 54321, 65535, 99999, 100000, 123456789] + [rng.range(10000, 65535) for _ in range(20)]:
        lines.append(f"declen {n_}")
        impl.append(str(len(str(n_))))
        meta.append({"site": "declen", "n": n_})
    model = run_driver(EXE, lines)
    bad = 0
    for q, a, b, m in zip(lines, impl, model, meta):
        site = q.split()[0]
        ctx.count("site:" + site)
        ctx.case({"line": q}, len(q.split()) > 2)
        ctx.cov["traces_validated_against_impl"] += 1
        if b == "bad-op":
            raise RuntimeError(f"driver rejected {q!r}")
        if a != b:
            bad += 1
            sig = {"kind": "model-vs-impl", "site": site}
            if site == "seedact":
                sig.update(fn=m["fn"], seed_class=seed_class(m["seed"], None) if m["seed"] is None or m["seed"] >= 0 else "negative")
            ctx.violation(sig, f"`{site}`: real code gives {a!r}, proved model {b!r} on `{q}`" + (
                f" ({m['fn']}(seed={m['seed']!r}), generate_seed_value={m['generate_seed_value']})" if site == "seedact" else ""),
                          {"site_case": m, "line": q, "impl": a, "model": b})
    if len(model) != len(impl):
        bad += 1
    ctx.oblige("rig:consumer and seeding-path models agree with nmap / from_config / topological_sort / set_random_seed / reset / the canonicaliser", "correspondence", bad == 0,
               f"{bad} of {len(lines)} lines differ")
    for q, b in list(zip(lines, model))[:3]:
        ctx.sample({"driver_line": q[:120], "answer": b[:120]}, cap=8)


def _seed_env_cfg() -> Dict:
    shipped = scen.shipped()
    cfg = scen.load_cfg(shipped["data_manipulation"])
    cfg.setdefault("game", {})["seed"] = 11
    return cfg


def _site_impl(c: dict, game, lookup) -> str:
    if c["site"] == "seedact":
        if c["fn"] == "set_random_seed":
            return sites.seedact_set_impl(c["seed"], c["generate_seed_value"])
        env = scen.make_env(_seed_env_cfg())
        try:
            return sites.seedact_reset_impl(env, c["seed"], c["generate_seed_value"])
        finally:
            env.close()
    if c["site"] == "declen":
        return str(len(str(c["n"])))
    if c["site"] == "toklen":
        import secrets as _secrets
        return str(len(_secrets.token_urlsafe(c["nbytes"])))
    if c["site"] == "topo":
        return " ".join(map(str, sites.topo_impl([(k, v) for k, v in c["graph"]])))
    if c["site"] == "ports":
        return " ".join(map(str, sites.listen_ports_impl(c["entries"])))
    if c["site"] == "sorted":
        g = scen.make_game(sites.ONE_NODE)
        return " ".join(map(str, sites.nmap_visit_order(g, c["targets"], c.get("kind", "ping"))[1]))
    raise ValueError(c["site"])


# ------------------------------------------------------------------------------------------------ probes of single sites across processes
def _port_lookup() -> Dict[str, int]:
    from primaite.utils.validation.port import PORT_LOOKUP
    return dict(PORT_LOOKUP)


def probe_rig(ctx: Ctx):
    """Inventory sites evaluated stand-alone in fresh interpreters with different hash seeds (int-hashed port sets, nmap target
    expansion, open ports of a running game, topological_sort/graph_has_cycle on graphs whose neighbour sets are sets of strings)."""
    rng = ctx.rng.fork("probe")
    ports = [80, 21, 53, 443, 5432, 8080, 22, 123, 3389, 445, 631, 20, 25, 110, 143, 161, 162, 219, 389, 1433, 3306, 5004, 5005, 5353, 8443, 9, 115]
    lrng = ctx.rng.fork("probe-listen")
    probe = {
        "int_sets": [[rng.choice(ports) for _ in range(rng.range(1, 12))] for _ in range(ctx.scale(30, 300))],
        "explode": [sites.gen_targets(rng) for _ in range(ctx.scale(20, 200))],
        "open_ports": True,
        "str_graphs": [],
        "listen_lists": [sites.gen_listen_probe(lrng, _port_lookup()) for _ in range(ctx.scale(10, 60))],
    }
    names = ["defender", "attacker", "green_a", "green_b", "client_1_green_user", "data_manipulation_attacker", "x", "yy", "zzz"]
    for _ in range(ctx.scale(30, 300)):
        ks = rng.shuffle(names)[:rng.range(2, 7)]
        cyclic = rng.chance(1, 6)
        g = {}
        for i, k in enumerate(ks):
            g[k] = [m for j, m in enumerate(ks) if j != i and (cyclic or j > i) and rng.chance(1, 2)]
        probe["str_graphs"].append(g)
    shipped = scen.shipped()
    cfg = envrig.with_proxy(scen.load_cfg(shipped["basic_node_with_software_listening_ports"])) if "basic_node_with_software_listening_ports" in shipped \
        else envrig.with_proxy(copy.deepcopy(sites.ONE_NODE))
    cfg.setdefault("game", {})["seed"] = 5
    vs = [{"hashseed": 1}, {"hashseed": rng.range(2, 4_000_000_000)}, {"hashseed": rng.range(2, 4_000_000_000)}]
    if SERVERS is not None and len(SERVERS.procs) >= 3:
        vs = [{"hashseed": h} for h in list(SERVERS.procs)[:3]]  # the run's interpreters (chosen for pairwise different set orders)
    res = xproc.run_workers({"cfg": cfg, "ops": [0], "probe": probe}, vs, REPO, VERIF, servers=SERVERS)
    base = res[0][1]
    ok = bool(base) and base[-1].startswith('{"probe"')
    for v, lines, err in res[1:]:
        d = xproc.first_diff(base, lines)
        if d is not None:
            ok = False
            a, b = (base[d] if d < len(base) else ""), (lines[d] if d < len(lines) else "")
            key = None
            try:
                ja, jb = json.loads(a)["probe"], json.loads(b)["probe"]
                key = next((k for k in ja if ja[k] != jb.get(k)), None)
            except Exception:
                pass
            ctx.violation({"kind": "site-probe-differs-across-processes", "probe": key},
                          f"stand-alone evaluation of inventory site `{key}` differs between {res[0][0]} and {v}: {_excerpt(a, b)}",
                          {"cfg_yaml": _yaml(cfg), "ops": [0], "probe": probe, "variants": [res[0][0], v], "first_diff": d})
            break
    if ok:
        pr = json.loads(base[-1])["probe"]
        bad_graphs = [g for g in pr["str_graphs"] if (g["cycle"] is False and g["deps_first"] is not True) or not g["nodup"]]
        if bad_graphs:
            ok = False
            ctx.violation({"kind": "topological-sort-not-dependencies-first"}, f"topological_sort on a set-valued graph: {bad_graphs[:2]}", {"probe": probe})
        ctx.count("probe:int-sets", len(pr["int_sets"]))
        ctx.count("probe:explode", len(pr["explode"]))
        ctx.count("probe:listen-lists", len(pr.get("listen_lists", [])))
        ctx.count("probe:listen-lists-raised", sum(1 for x in pr.get("listen_lists", []) if "raised" in x))
        ctx.count("probe:str-graphs", len(pr["str_graphs"]))
        ctx.count("probe:str-graphs-cyclic", sum(1 for g in pr["str_graphs"] if g["cycle"]))
    ctx.oblige("rig:stand-alone site probes agree across processes", "correspondence", ok, "" if ok else "see violations / worker output")


# ------------------------------------------------------------------------------------------------ entry points
def replay(rec: dict) -> bool:
    rp = rec["replay"]
    if "site_case" in rp:
        with lean_lock():
            from harness.lib.core import lake_build
            lake_build([EXE])
        from primaite.utils.validation.port import PORT_LOOKUP
        model = run_driver(EXE, [rp["line"]])
        return model and model[0] == _site_impl(rp["site_case"], None, PORT_LOOKUP)
    import yaml
    spec = {"ops": rp["ops"], "warm": rp.get("warm") or []}
    if "cfg_yaml" in rp:
        spec["cfg_yaml"] = rp["cfg_yaml"]
        cfg = yaml.safe_load(rp["cfg_yaml"])
    else:
        spec["cfg"] = cfg = rp["cfg"]
    if "probe" in rp:
        spec["probe"] = rp["probe"]
    res = xproc.run_workers(spec, rp["variants"], REPO, VERIF)
    base = res[0][1]
    if not base or base[0].startswith('{"raised"'):
        return False  # the replay could not be played at all: not a pass
    if rp.get("reseed"):
        viol, _ = reseed_oracle(rp.get("scenario", "?"), rp.get("variant", "?"), cfg, rp["ops"], rp["variants"][0], base)
        return not viol
    return all(xproc.first_diff(base, lines) is None for _, lines, _ in res[1:])


def table_sites() -> List[Tuple[str, str, str, str, int]]:
    """The sites of the COMMITTED discharge table (parsed from the Lean source), to tell which sites of the current tree are new."""
    txt = (VERIF / "lean" / "PrimaiteModel" / "Lemmas" / "NondetDischarge.lean").read_text()
    out = []
    for m in re.finditer(r'\(⟨"((?:[^"\\]|\\.)*)", "((?:[^"\\]|\\.)*)", \.(\w+), "((?:[^"\\]|\\.)*)", (\d+)⟩, \.(\w+)\)', txt):
        out.append((m.group(1), m.group(2), m.group(3), m.group(4), int(m.group(5))))
    return out


def run_cases(ctx: Ctx, all_cases, tag: str = "xproc") -> int:
    """Run (name, variant, cfg, ops, variants) cases in a small pool; record evidence; returns the number of cases without violation."""
    agree = 0
    with cf.ThreadPoolExecutor(ctx.scale(4, 5)) as ex:
        futs = [(c, ex.submit(check_case, *c)) for c in all_cases]
        for c, fu in futs:
            name, variant, cfg, ops, vs = c[:5]
            viol, cnt, base = fu.result()
            ctx.count(f"{tag}:cases")
            ctx.count(f"{tag}:workers", cnt["workers"])
            ctx.count(f"{tag}:workers-with-process-history", cnt.get("workers-with-history", 0))
            ctx.count(f"{tag}:warm-ups-that-raised", cnt.get("warmup-failed", 0))
            ctx.count(f"{tag}:case-ended-by-exception", cnt["raised"])
            for k, v in cnt.items():
                if k.startswith("reseed:"):
                    ctx.count(k, v)
            ctx.cov["traces_validated_against_impl"] += cnt["workers"]
            for i, l in enumerate(base):
                nontrivial = '"op": 0' not in l[:12] or '"st": "success", "d": {"' in l
                ctx.case({"sc": name, "v": variant, "i": i, "l": l[:200]}, nontrivial and l.startswith('{"op"'))
            for l in base:
                for m in re.finditer(r'"a": "([\w-]+)"', l[:20000] if l.startswith('{"op"') else ""):
                    ctx.count("action:" + m.group(1))
            agents = {}
            try:
                agents = {a["ref"]: a.get("type") for a in cfg.get("agents", [])}
            except Exception:
                pass
            for t in set(agents.values()):
                ctx.count(f"{tag}:cases-with-agent-type:{t}")
            if not viol:
                agree += 1
                ctx.sample({"scenario": name, "variant": variant, "ops": ops[:14], "processes": vs, "lines": len(base),
                            "reseed": {k: v for k, v in cnt.items() if k.startswith("reseed:")},
                            "line1": base[1][:300] if len(base) > 1 else None}, cap=10)
            for v in viol:
                ctx.violation(v["sig"], v["what"], v["replay"])
    return agree


def run(ctx: Ctx):
    import time as _time
    t0 = _time.time()
    phase: Dict[str, float] = {}

    def mark(name: str):
        nonlocal t0
        phase[name] = round(_time.time() - t0, 1)
        t0 = _time.time()
    ctx.cov["phase_s"] = phase
    with lean_lock():
        ok_x = ctx.extract("Nondet", x_nondet.emit)
        ok_s = ctx.extract("NondetSeeding", x_seeding.emit)
        ctx.extract("NondetOutput", x_output.emit)
        ctx.extract("NondetLoops", x_loops.emit)
        ctx.extract("SharedState", x_shared.emit)
        ctx.extract("OwnGeneratorState", x_own.emit)
        proved = ctx.prove(MODULES, exes=[EXE], leanchecker=ctx.thorough)
    try:
        own_key = x_own.wrapper_shape()["stateKey"]
    except Exception as e:
        own_key = f"<{type(e).__name__}>"
    ctx.oblige("rig:own-state-key the rigs read / hand over the environment's generator state under the key the decorator uses", "correspondence",
               own_key == xproc.OWN_STATE_KEY == sites.OWN_STATE_KEY, f"decorator: {own_key!r}, rigs: {xproc.OWN_STATE_KEY!r}, {sites.OWN_STATE_KEY!r}")
    mark("extract+prove")
    # -- the inventory, as seen by the extractor and by an independent textual count
    new_sites: List[Tuple] = []
    if ok_x:
        rows = x_nondet.collect_with_facts()
        inv = [r[:5] for r in rows]
        kinds: Dict[str, int] = {}
        for s in inv:
            kinds[s[2]] = kinds.get(s[2], 0) + 1
            ctx.count("inventory:" + s[2])
        for r in rows:
            ctx.count("fact:" + r[5].split()[0].lstrip("."))
        raw = raw_counts()
        agree = all(raw[k] == kinds.get(k, 0) for k in raw)
        ctx.oblige("extract:Nondet agrees with an independent textual count of uuid/secrets/clock/hash()/id() calls", "extractor", agree,
                   f"textual {raw} vs inventory { {k: kinds.get(k, 0) for k in raw} }")
        ctx.cov["inventory"] = {"sites": len(inv), "by_kind": kinds, "set_uses_not_listed": x_nondet.stats()}
        committed = table_sites()
        new_sites = [s for s in inv if s not in committed]
        gone = [s for s in committed if s not in inv]
        ctx.cov["inventory"]["new_sites"] = [list(s) for s in new_sites]
        ctx.cov["inventory"]["vanished_sites"] = [list(s) for s in gone]
        table = (VERIF / "lean" / "PrimaiteModel" / "Lemmas" / "NondetDischarge.lean").read_text()
        reasons = re.findall(r"⟩, \.(\w+)\)", table)
        ctx.cov["discharges"] = {"total": len(reasons), **{b: sum(1 for r in reasons if BASIS.get(r, "lemma") == b)
                                                           for b in ("lemma", "mechanical", "trusted", "openFinding")},
                                 "by_reading_only": 0}
    ctx.cov["rule"] = ("cross-process cases = (scenario, action map, operation list = episode with the configured seed c | reset(c) B | reset(0) B | "
                       "reset(c) B | reset(0) B | reset(1) B | reset(2^32-1) B | reset(1) B | reset(2^32-1) B | … | reset() C) x 3-4 interpreters: one fork "
                       "server per PYTHONHASHSEED value imports the code once and forks a child per case (fresh post-import state, own session directory); "
                       "the hash seeds are chosen so that the cases' string vocabularies leave a set in pairwise different orders; worker 0 starts fresh, "
                       "the others first build / step / reset / close other scenarios in the same process (process history); logging all on / all off; "
                       "corpus witnesses run in separately started interpreters with their stored variants; "
                       "every compared line (one per step/reset, plus complete histories and generator digests per episode) is one evaluation; "
                       "non-trivial = step lines whose RL action is not do-nothing or in which some scripted agent acted; component cases = one driver "
                       "line each (non-trivial = at least two elements); distinct by canonical JSON")
    # -- corpus first: the F-8 witness must no longer differ
    mark("inventory")
    global SERVERS
    gen_cases = list(cases(ctx))
    n_workers = 3 + (2 if ctx.thorough else 0)
    seeds, hs_info = choose_hashseeds(ctx, ctx.rng.fork("variants"), [c[2] for c in gen_cases], n_workers)
    ctx.cov["hashseed_selection"] = {"seeds": seeds, **hs_info}
    SERVERS = xproc.Servers(REPO, VERIF)
    starter = cf.ThreadPoolExecutor(1)
    started = starter.submit(SERVERS.start, seeds)  # the imports of the fork servers overlap with the component rig
    mark("case-generation+hashseed-selection")
    try:
        _run_rigs(ctx, gen_cases, seeds, started, proved, new_sites, mark)
    finally:
        SERVERS.close()
        SERVERS = None
        starter.shutdown(wait=False)


def _run_rigs(ctx: Ctx, gen_cases, seeds: List[int], started, proved: bool, new_sites: List[Tuple], mark) -> None:
    site_rig(ctx)
    mark("site-rig")
    started.result()
    mark("fork-servers-ready")
    all_cases = []
    shipped = scen.shipped()
    for f in sorted((VERIF / "corpus" / "C03").glob("xproc_*.json")):
        c = json.loads(f.read_text())
        if "cfg_yaml" in c:  # YAML text: integer keys (action maps, ports) survive
            import yaml
            cfg = yaml.safe_load(c["cfg_yaml"])
        else:
            cfg = _small_scan(envrig.with_proxy(scen.load_cfg(shipped[c["scenario"]]))) if "scenario" in c else c["cfg"]
        cfg.setdefault("game", {}).setdefault("seed", c.get("seed", 7))
        all_cases.append(("corpus:" + f.name, c.get("variant", "-"), cfg, c["ops"], c["variants"]))
    wr = ctx.rng.fork("warm")
    for name, variant, cfg, ops in gen_cases:
        all_cases.append((name, variant, cfg, ops, variants(seeds), warm_specs(cfg, wr.fork(name + variant))))
    # corpus witnesses first, then the generated cases longest first (uc7 takes several times longer than the small scenarios)
    n_corpus = sum(1 for c in all_cases if c[0].startswith("corpus:"))
    all_cases = all_cases[:n_corpus] + sorted(all_cases[n_corpus:], key=lambda c: -len(c[3]) * len(_yaml(c[2])))
    with cf.ThreadPoolExecutor(2) as ex0:
        f9_future = ex0.submit(f9_compute)        # the known finding is replayed alongside
        probe_future = ex0.submit(probe_rig, ctx)  # and so are the stand-alone site probes (three interpreters)
        agree = run_cases(ctx, all_cases)
        mark("cross-process-cases")
        probe_future.result()
        f9_results = f9_future.result()
        mark("probe+f9-tail")
    ctx.oblige("rig:R-env identical canonical trajectories across processes", "correspondence",
               not any(v["sig"].get("kind") in ("cross-process-diff", "worker-produced-nothing") for v in ctx.violations),
               f"{len(all_cases) - agree} of {len(all_cases)} cases have a violation")
    n_pairs = sum(v for k, v in ctx.hist.items() if k.startswith("reseed:pairs:"))
    ctx.oblige("oracle:re-seeding on reset reproduces the same episode (every seed class: configured / 0 / 1 / large)", "correspondence",
               not any(v["sig"].get("kind") == "reseed-diff" for v in ctx.violations) and n_pairs > 0
               and all(ctx.hist.get("reseed:pairs:" + c, 0) > 0 for c in ("configured", "zero", "one", "large")),
               f"{n_pairs} same-seed episode pairs compared")
    ctx.cov["reseed_oracle"] = {k[7:]: v for k, v in ctx.hist.items() if k.startswith("reseed:")}
    ctx.cov["case_wall_s"] = dict(CASE_WALL)
    # -- search: a broken inventory / seeding obligation without a concrete input so far -> drive the code of the new sites harder
    unlisted = list(ctx.violations)
    if (not proved or new_sites) and not unlisted:
        extra = []
        sr = ctx.rng.fork("search-variants")
        search_cases = list(cases(ctx, search=True))
        seeds5, _ = choose_hashseeds(ctx, sr, [c[2] for c in search_cases], len(seeds) + 2)
        for name, variant, cfg, ops in search_cases:
            extra.append((name, "search:" + variant, cfg, ops, variants(seeds5), warm_specs(cfg, sr.fork(name + variant))))
        ctx.notes.append(f"search: {len(new_sites)} site(s) not in the committed table ({[s[:3] for s in new_sites][:4]}); "
                         f"ran {len(extra)} further cases with 5 interpreters each")
        run_cases(ctx, extra, tag="search")
    # -- known finding, replayed on the implementation
    f9_record(ctx, f9_results)
