"""C03 — same scenario, seed and actions give the same trajectory, in any process."""
from __future__ import annotations

import concurrent.futures as cf
import copy
import json
import re
from pathlib import Path
from typing import Any, Dict, List, Optional, Tuple

from harness.extract import nondet as x_nondet
from harness.lib import scen
from harness.lib.core import REPO, SRC, VERIF, Ctx, Rng, lean_lock, run_driver
from harness.rigs import envrig, xproc
from harness.rigs import nondet_sites as sites

MANIFEST = {
    "text": "Lean 4 proof, PARTIAL. Model: a run is a function of an explicit opaque environment rho (stream of unseeded identifiers - uuid4, "
            "generated MACs -, stream of wall-clock/unseeded readings, and for every iteration of a hash-ordered set the order in which its "
            "elements come out); the simulator is ANY program over an interface in which identifiers are equality tokens, readings reach "
            "state only through the length of their text inside Frame.size, sets are iterated only through named consumers, and random draws "
            "come from the seeded generator. Proved for every such simulator, schedule, seed and operation list (steps, resets with or without "
            "seed): the canonical trajectory is the same under any two valid environments whose readings have texts of equal length "
            "(C03_run_indep_of_env; without that side condition for a simulator that never sizes a frame from a reading); the episode after "
            "reset(seed=s) is a function of (schedule, episode index, s, later operations) only, whatever the history (C03_reseed_reproduces); "
            "each modelled set consumer (sorted iteration, set-to-set, length-only, dict-by-key, no-effect loop, empty/singleton set) is "
            "permutation-invariant; every duplicate-free dependencies-first evaluation order yields the same reward table; the full "
            "statement is refuted by the Frame.size witness (C03_full_counterexample, finding F-9). Translator tie: the nondeterminism "
            "inventory of the whole tree (every iterated set, uuid, secrets, clock, time, id(), hash(), urandom, random/np.random use) is "
            "regenerated as Gen/Nondet.lean and must equal, site for site, the committed discharge table (C03_inventory_discharged); reasons "
            "resting on reading rather than on a lemma are marked byReading. Correspondence tie: identical (scenario, seed, operations) in "
            "fresh interpreters with different PYTHONHASHSEED and logging fully on / fully off, diffed step by step on (observation, reward, "
            "agent actions and responses, complete histories), plus re-seeded episodes compared inside each process, plus the consumer "
            "models against the real nmap / from_config / topological_sort code.",
    "note": "C03-specific: that the inventory is complete is the extractor's job (syntactic, name-based set tracking); that CPython behaves as "
            "rho says (fresh uuids distinct, int hashing is the identity, dict order = insertion order) is trusted; F-9 is replayed with a "
            "pinned clock because it cannot be hit by re-running.",
    "technique": "Lean 4 relational proof over an effect-interpreter with an explicit opaque environment; regenerated inventory + committed "
                 "discharge table; cross-process differential rig",
    "design_ref": "5/C03",
}
MODULES = ["PrimaiteModel.Props.C03"]
EXE = "drv_c03"
SKIP = {"bad_primaite_session", "no_nodes_links_agents_network", "eval_only_primaite_session", "multi_agent_session", "data_manipulation_marl"}
QUICK = ["nmap_ping_scan_red_agent_config", "data_manipulation", "nmap_port_scan_red_agent_config"]


# ------------------------------------------------------------------------------------------------ inventory cross-check
RAW = {"uuid": r"\buuid[14]\(", "secrets": r"\bsecrets\.\w+\(", "clock": r"\bdatetime\.(?:now|utcnow|today)\(",
       "hashBuiltin": r"(?<![\w.])hash\(", "idBuiltin": r"(?<![\w.])id\("}


def raw_counts() -> Dict[str, int]:
    """An independent, purely textual count of the call tokens (comments and strings stripped crudely), to tell 'the table changed'
    from 'the extractor mis-read'."""
    out = {k: 0 for k in RAW}
    for f in sorted(SRC.rglob("*.py")):
        txt = f.read_text()
        txt = re.sub(r'"""[\s\S]*?"""', "", txt)
        txt = re.sub(r"#.*", "", txt)
        for k, rx in RAW.items():
            out[k] += len(re.findall(rx, txt))
    return out


# ------------------------------------------------------------------------------------------------ cross-process cases
def _small_scan(cfg: Dict) -> Dict:
    """The shipped nmap scenarios scan a /24 (254 pings per step); a /28 covers the same live hosts."""
    cfg = copy.deepcopy(cfg)
    for a in cfg.get("agents", []):
        for e in (a.get("action_space", {}).get("action_map") or {}).values():
            t = (e.get("options") or {}).get("target_ip_address")
            if isinstance(t, str) and t.endswith("/24"):
                e["options"]["target_ip_address"] = t[:-3] + "/28"
    return cfg


def _n_actions(cfg: Dict) -> int:
    pa = envrig.proxy_agent_cfg(cfg)
    return max(1, len((pa or {}).get("action_space", {}).get("action_map") or {0: 0}))


def gen_ops(rng: Rng, n: int, k: int) -> List[Any]:
    """episode 0 (configured seed) | reset(s) + B | reset(s) + the same B again | reset(None) + C"""
    s = rng.below(2 ** 31)
    a = [rng.below(n) for _ in range(k)]
    b = [rng.below(n) for _ in range(k)]
    c = [rng.below(n) for _ in range(max(2, k // 2))]
    return a + [["reset", s]] + b + [["reset", s]] + b + [["reset", None]] + c


def cases(ctx: Ctx):
    shipped = scen.shipped()
    names = [n for n in QUICK if n in shipped] if not ctx.thorough else [n for n in shipped if n not in SKIP]
    rng = ctx.rng.fork("xproc")
    for name in names:
        try:
            cfg = scen.load_cfg(shipped[name])
        except Exception:
            continue
        cfg = _small_scan(envrig.with_proxy(cfg))
        cfg.setdefault("game", {})
        if cfg["game"].get("seed") in (None, -1):
            cfg["game"]["seed"] = rng.range(0, 10 ** 6)  # the property speaks of a CONFIGURED seed
        yield name, "shipped-map", cfg, gen_ops(rng.fork(name), _n_actions(cfg), ctx.scale(8, 25))
        if ctx.thorough or name == "data_manipulation":
            try:
                aug = envrig.augmented(cfg, rng.fork(name + "-aug"), ctx.scale(40, 120))
            except Exception as e:
                ctx.notes.append(f"{name}: generated action map not built: {type(e).__name__}: {str(e)[:100]}")
                aug = None
            if aug is not None:
                aug = _small_scan(aug)
                yield name, "generated-map", aug, gen_ops(rng.fork(name + "-augops"), _n_actions(aug), ctx.scale(10, 40))


def variants(ctx: Ctx, rng: Rng) -> List[Dict]:
    v = [{"hashseed": 1, "loud": False}, {"hashseed": rng.range(2, 4_000_000_000), "loud": True}, {"hashseed": rng.range(2, 4_000_000_000), "loud": False}]
    if ctx.thorough:
        v += [{"hashseed": 0, "loud": True}, {"hashseed": rng.range(2, 4_000_000_000), "loud": True}]
    return v


def episodes_of(lines: List[str]) -> List[List[str]]:
    """Split a worker's stream at the reset lines: [[new, steps…, histories], [reset, steps…, histories], …]."""
    eps: List[List[str]] = [[]]
    for l in lines:
        if l.startswith('{"op": "reset"'):
            eps.append([])
        eps[-1].append(l)
    return eps


def check_case(name: str, variant: str, cfg: Dict, ops: List[Any], vs: List[Dict]) -> Tuple[List[dict], Dict[str, int], List[str]]:
    """Run the workers; returns (violations, counters, base lines)."""
    res = xproc.run_workers({"cfg": cfg, "ops": ops}, vs, REPO, VERIF)
    viol: List[dict] = []
    cnt = {"workers": len(res), "lines": 0, "raised": 0}
    base_v, base, base_err = res[0]
    cnt["lines"] = len(base)
    if not base or any('"raised"' in l[:12] for l in base[-1:]):
        cnt["raised"] += 1
    if not base:
        viol.append({"sig": {"kind": "worker-produced-nothing"}, "what": f"{name}/{variant}: worker printed nothing: {base_err[-300:]}",
                     "replay": {"scenario": name, "variant": variant, "cfg": cfg, "ops": ops, "variants": vs}})
        return viol, cnt, base
    for v, lines, err in res[1:]:
        d = xproc.first_diff(base, lines)
        if d is None:
            continue
        a = base[d] if d < len(base) else "<stream ended>"
        b = lines[d] if d < len(lines) else "<stream ended>"
        desc = xproc.describe_diff(a, b) if d < len(base) and d < len(lines) else {"part": "length"}
        sig = {"kind": "cross-process-diff", **{k: desc[k] for k in ("part", "action", "field") if k in desc}}
        viol.append({"sig": sig, "what": f"{name}/{variant}: line {d} differs between {base_v} and {v}: {desc}; "
                                        f"{_excerpt(a, b)}",
                     "replay": {"scenario": name, "variant": variant, "cfg": cfg, "ops": ops, "variants": [base_v, v], "first_diff": d,
                                "a": a[:4000], "b": b[:4000], "stderr": err[-500:]}})
        break
    # re-seeding: episodes 1 and 2 were started with reset(seed=s) and played the same actions
    eps = episodes_of(base)
    if len(eps) >= 3 and len(eps[1]) == len(eps[2]):
        d = xproc.first_diff(eps[1], eps[2])
        if d is not None:
            desc = xproc.describe_diff(eps[1][d], eps[2][d])
            sig = {"kind": "reseed-diff", **{k: desc[k] for k in ("part", "action", "field") if k in desc}}
            viol.append({"sig": sig, "what": f"{name}/{variant}: the episode after reset(seed=s) is not reproduced by a second reset(seed=s): "
                                            f"line {d} of the episode: {desc}; {_excerpt(eps[1][d], eps[2][d])}",
                         "replay": {"scenario": name, "variant": variant, "cfg": cfg, "ops": ops, "variants": [base_v], "reseed": True,
                                    "a": eps[1][d][:4000], "b": eps[2][d][:4000]}})
    return viol, cnt, base


def _excerpt(a: str, b: str) -> str:
    i = next((i for i, (x, y) in enumerate(zip(a, b)) if x != y), min(len(a), len(b)))
    return f"…{a[max(0, i - 60):i + 60]}… vs …{b[max(0, i - 60):i + 60]}…"


# ------------------------------------------------------------------------------------------------ F-9 witness (pinned clock)
def f9_cfg(bandwidth: Optional[float]) -> Dict:
    cfg = envrig.with_proxy(copy.deepcopy(sites.ONE_NODE))
    pa = envrig.proxy_agent_cfg(cfg)
    pa["action_space"]["action_map"] = {0: {"action": "do-nothing", "options": {}},
                                        1: {"action": "node-nmap-ping-scan", "options": {"source_node": "pc_a", "target_ip_address": "192.168.7.3",
                                                                                         "show": False}}}
    cfg["game"]["seed"] = 3
    if bandwidth is not None:
        for l in cfg["simulation"]["network"]["links"]:
            l["bandwidth"] = bandwidth
    return cfg


def f9_try(bandwidth: float, pin_a: Dict, pin_b: Dict) -> Optional[dict]:
    cfg = f9_cfg(bandwidth)
    r = xproc.run_workers({"cfg": cfg, "ops": [1, 1]}, [{"hashseed": 1, "pin": pin_a}, {"hashseed": 1, "pin": pin_b}], REPO, VERIF)
    a, b = r[0][1], r[1][1]
    d = xproc.first_diff(a, b)
    if d is None or not a or not b:
        return None
    return {"cfg": cfg, "ops": [1, 1], "variants": [{"hashseed": 1, "pin": pin_a}, {"hashseed": 1, "pin": pin_b}], "first_diff": d,
            "a": a[d][:3000] if d < len(a) else None, "b": b[d][:3000] if d < len(b) else None, "bandwidth": bandwidth}


def f9_search(pin_a: Dict, pin_b: Dict) -> Optional[dict]:
    """Measure the step's link load under both pins on an uncongested link, then put the bandwidth between m frames of the one
    size and m frames of the other, for the m at which the busiest admission test sits."""
    r = xproc.run_workers({"cfg": f9_cfg(None), "ops": [1, 1], "probe": {"link_loads": True}},
                          [{"hashseed": 1, "pin": pin_a}, {"hashseed": 1, "pin": pin_b}], REPO, VERIF)
    try:
        la = float.fromhex(json.loads(r[0][1][-1])["probe"]["link_loads"][0])
        lb = float.fromhex(json.loads(r[1][1][-1])["probe"]["link_loads"][0])
    except Exception:
        return None
    if la == lb:
        return None
    with cf.ThreadPoolExecutor(8) as ex:
        for w in ex.map(lambda m: f9_try(m * (la + lb) / 16, pin_a, pin_b), range(8, 0, -1)):
            if w:
                return w
    return None


F9_PINS = {"clock": ({"micro": 0, "icmp_id": 4242}, {"micro": 123456, "icmp_id": 4242}),
           "icmp-identifier": ({"micro": 123456, "icmp_id": 7}, {"micro": 123456, "icmp_id": 54321})}


def f9_compute() -> List[Tuple[str, Optional[dict], bool]]:
    """Known finding F-9, replayed on the implementation on every run (one interpreter with a clock whose microsecond field is
    zero, one with a clock whose field is not; likewise a 1-digit and a 5-digit ICMP identifier). No Ctx access: runs in a thread."""
    stored = {}
    f = VERIF / "corpus" / "C03" / "f9_frame_size_text_length.json"
    if f.exists():
        stored = json.loads(f.read_text()).get("bandwidth", {})
    out = []
    for which, (pa, pb) in F9_PINS.items():
        w = f9_try(stored[which], pa, pb) if which in stored else None
        searched = False
        if w is None:
            searched = True
            w = f9_search(pa, pb)
        out.append((which, w, searched))
    return out


def f9_record(ctx: Ctx, results):
    for which, w, searched in results:
        if searched:
            ctx.count("f9:stored-witness-did-not-fail-searched-again")
        if w is None:
            ctx.notes.append(f"F-9 ({which}): no witness found on this tree (finding may be repaired)")
            ctx.count("f9:no-witness:" + which)
            continue
        ctx.count("f9:witness-fails:" + which)
        desc = xproc.describe_diff(w["a"], w["b"]) if w["a"] and w["b"] else {"part": "length"}
        ctx.violation({"kind": "frame-size-depends-on-unseeded-text-length", "reading": which},
                      f"same scenario, seed and actions, two processes that differ only in the pinned {which} reading "
                      f"(link bandwidth {w['bandwidth']!r} Mbit): line {w['first_diff']} differs ({desc})", w)


# ------------------------------------------------------------------------------------------------ component rig (driver vs real code)
def site_rig(ctx: Ctx):
    from primaite.utils.validation.port import PORT_LOOKUP
    rng = ctx.rng.fork("sites")
    lines: List[str] = []
    impl: List[str] = []
    meta: List[dict] = []
    for f in sorted((VERIF / "corpus" / "C03").glob("site_*.json")):
        for c in json.loads(f.read_text())["cases"]:
            lines.append(c["line"])
            impl.append(_site_impl(c, None, PORT_LOOKUP))
            meta.append({"from": f.name, **c})
    game = scen.make_game(sites.ONE_NODE)
    n = ctx.scale(60, 600)
    for _ in range(n):
        ts = sites.gen_targets(rng)
        for kind in ("ping", "port"):
            elems, visited = sites.nmap_visit_order(game, ts, kind)
            lines.append("sorted " + " ".join(map(str, elems)))
            impl.append(" ".join(map(str, visited)))
            meta.append({"site": "sorted", "kind": kind, "targets": ts})
    for _ in range(ctx.scale(40, 300)):
        es = sites.gen_port_entries(rng, PORT_LOOKUP)
        lines.append(sites.ports_line(es, PORT_LOOKUP))
        impl.append(" ".join(map(str, sites.listen_ports_impl(es))))
        meta.append({"site": "ports", "entries": es})
    for _ in range(ctx.scale(150, 3000)):
        g = sites.gen_graph(rng)
        lines.append(sites.topo_line(g))
        impl.append(" ".join(map(str, sites.topo_impl(g))))
        meta.append({"site": "topo", "graph": g})
    for _ in range(ctx.scale(150, 3000)):
        o = sites.gen_canon(rng)
        lines.append(sites.canon_line(o))
        impl.append(sites.canon_impl(o, sites.fresh_ids(rng)))
        meta.append({"site": "canon", "outs": o})
    model = run_driver(EXE, lines)
    bad = 0
    for q, a, b, m in zip(lines, impl, model, meta):
        site = q.split()[0]
        ctx.count("site:" + site)
        ctx.case({"line": q}, len(q.split()) > 2)
        ctx.cov["traces_validated_against_impl"] += 1
        if b == "bad-op":
            raise RuntimeError(f"driver rejected {q!r}")
        if a != b:
            bad += 1
            ctx.violation({"kind": "model-vs-impl", "site": site}, f"consumer `{site}`: real code gives {a!r}, proved model {b!r} on `{q}`",
                          {"site_case": m, "line": q, "impl": a, "model": b})
    if len(model) != len(impl):
        bad += 1
    ctx.oblige("rig:consumer models agree with nmap / from_config / topological_sort / the canonicaliser", "correspondence", bad == 0,
               f"{bad} of {len(lines)} lines differ")
    for q, b in list(zip(lines, model))[:3]:
        ctx.sample({"driver_line": q[:120], "answer": b[:120]}, cap=8)


def _site_impl(c: dict, game, lookup) -> str:
    if c["site"] == "topo":
        return " ".join(map(str, sites.topo_impl([(k, v) for k, v in c["graph"]])))
    if c["site"] == "ports":
        return " ".join(map(str, sites.listen_ports_impl(c["entries"])))
    if c["site"] == "sorted":
        g = scen.make_game(sites.ONE_NODE)
        return " ".join(map(str, sites.nmap_visit_order(g, c["targets"], c.get("kind", "ping"))[1]))
    raise ValueError(c["site"])


# ------------------------------------------------------------------------------------------------ probes of single sites across processes
def probe_rig(ctx: Ctx):
    """Inventory sites evaluated stand-alone in fresh interpreters with different hash seeds (int-hashed port sets, nmap target
    expansion, open ports of a running game, topological_sort/graph_has_cycle on graphs whose neighbour sets are sets of strings)."""
    rng = ctx.rng.fork("probe")
    ports = [80, 21, 53, 443, 5432, 8080, 22, 123, 3389, 445, 631, 20, 25, 110, 143, 161, 162, 219, 389, 1433, 3306, 5004, 5005, 5353, 8443, 9, 115]
    probe = {
        "int_sets": [[rng.choice(ports) for _ in range(rng.range(1, 12))] for _ in range(ctx.scale(30, 300))],
        "explode": [sites.gen_targets(rng) for _ in range(ctx.scale(20, 200))],
        "open_ports": True,
        "str_graphs": [],
    }
    names = ["defender", "attacker", "green_a", "green_b", "client_1_green_user", "data_manipulation_attacker", "x", "yy", "zzz"]
    for _ in range(ctx.scale(30, 300)):
        ks = rng.shuffle(names)[:rng.range(2, 7)]
        cyclic = rng.chance(1, 6)
        g = {}
        for i, k in enumerate(ks):
            g[k] = [m for j, m in enumerate(ks) if j != i and (cyclic or j > i) and rng.chance(1, 2)]
        probe["str_graphs"].append(g)
    shipped = scen.shipped()
    cfg = envrig.with_proxy(scen.load_cfg(shipped["basic_node_with_software_listening_ports"])) if "basic_node_with_software_listening_ports" in shipped \
        else envrig.with_proxy(copy.deepcopy(sites.ONE_NODE))
    cfg.setdefault("game", {})["seed"] = 5
    vs = [{"hashseed": 1}, {"hashseed": rng.range(2, 4_000_000_000)}, {"hashseed": rng.range(2, 4_000_000_000)}]
    res = xproc.run_workers({"cfg": cfg, "ops": [0], "probe": probe}, vs, REPO, VERIF)
    base = res[0][1]
    ok = bool(base) and base[-1].startswith('{"probe"')
    for v, lines, err in res[1:]:
        d = xproc.first_diff(base, lines)
        if d is not None:
            ok = False
            a, b = (base[d] if d < len(base) else ""), (lines[d] if d < len(lines) else "")
            key = None
            try:
                ja, jb = json.loads(a)["probe"], json.loads(b)["probe"]
                key = next((k for k in ja if ja[k] != jb.get(k)), None)
            except Exception:
                pass
            ctx.violation({"kind": "site-probe-differs-across-processes", "probe": key},
                          f"stand-alone evaluation of inventory site `{key}` differs between {res[0][0]} and {v}: {_excerpt(a, b)}",
                          {"cfg": cfg, "ops": [0], "probe": probe, "variants": [res[0][0], v], "first_diff": d})
            break
    if ok:
        pr = json.loads(base[-1])["probe"]
        bad_graphs = [g for g in pr["str_graphs"] if (g["cycle"] is False and g["deps_first"] is not True) or not g["nodup"]]
        if bad_graphs:
            ok = False
            ctx.violation({"kind": "topological-sort-not-dependencies-first"}, f"topological_sort on a set-valued graph: {bad_graphs[:2]}", {"probe": probe})
        ctx.count("probe:int-sets", len(pr["int_sets"]))
        ctx.count("probe:explode", len(pr["explode"]))
        ctx.count("probe:str-graphs", len(pr["str_graphs"]))
        ctx.count("probe:str-graphs-cyclic", sum(1 for g in pr["str_graphs"] if g["cycle"]))
    ctx.oblige("rig:stand-alone site probes agree across processes", "correspondence", ok, "" if ok else "see violations / worker output")


# ------------------------------------------------------------------------------------------------ entry points
def replay(rec: dict) -> bool:
    rp = rec["replay"]
    if "site_case" in rp:
        with lean_lock():
            from harness.lib.core import lake_build
            lake_build([EXE])
        from primaite.utils.validation.port import PORT_LOOKUP
        model = run_driver(EXE, [rp["line"]])
        return model and model[0] == _site_impl(rp["site_case"], None, PORT_LOOKUP)
    spec = {"cfg": rp["cfg"], "ops": rp["ops"]}
    if "probe" in rp:
        spec["probe"] = rp["probe"]
    res = xproc.run_workers(spec, rp["variants"], REPO, VERIF)
    base = res[0][1]
    if not base:
        return False
    if rp.get("reseed"):
        eps = episodes_of(base)
        return len(eps) >= 3 and xproc.first_diff(eps[1], eps[2]) is None
    return all(xproc.first_diff(base, lines) is None for _, lines, _ in res[1:])


def run(ctx: Ctx):
    with lean_lock():
        ok_x = ctx.extract("Nondet", x_nondet.emit)
        ctx.prove(MODULES, exes=[EXE], leanchecker=ctx.thorough)
    # -- the inventory, as seen by the extractor and by an independent textual count
    if ok_x:
        inv = x_nondet.collect()
        kinds: Dict[str, int] = {}
        for s in inv:
            kinds[s[2]] = kinds.get(s[2], 0) + 1
            ctx.count("inventory:" + s[2])
        raw = raw_counts()
        agree = all(raw[k] == kinds.get(k, 0) for k in raw)
        ctx.oblige("extract:Nondet agrees with an independent textual count of uuid/secrets/clock/hash()/id() calls", "extractor", agree,
                   f"textual {raw} vs inventory { {k: kinds.get(k, 0) for k in raw} }")
        ctx.cov["inventory"] = {"sites": len(inv), "by_kind": kinds, "set_uses_not_listed": x_nondet.stats()}
        table = (VERIF / "lean" / "PrimaiteModel" / "Lemmas" / "NondetDischarge.lean").read_text()
        reasons = re.findall(r"⟩, \.(\w+)\)", table)
        by_reading = {"fixedLenSecret", "clockNotRead", "unseededByConfig", "hashNotIterated", "hashValueDiscarded", "offline", "setMembershipOnly", "setIntHash",
                      "setCycleCheck", "setDeclCovered", "seeding"}
        ctx.cov["discharges"] = {"total": len(reasons), "by_lemma": sum(1 for r in reasons if r not in by_reading and r != "readingLenF9"),
                                 "by_reading": sum(1 for r in reasons if r in by_reading),
                                 "open_finding_F9": sum(1 for r in reasons if r == "readingLenF9")}
    ctx.cov["rule"] = ("cross-process cases = (scenario, action map, operation list = episode with the configured seed | reset(s) + B | reset(s) + B "
                       "again | reset() + C) x 3-5 fresh interpreters (distinct PYTHONHASHSEED, logging all on / all off); every compared line "
                       "(one per step/reset, plus complete histories per episode) is one evaluation; non-trivial = step lines whose RL action is "
                       "not do-nothing or in which some scripted agent acted; component cases = one driver line each (non-trivial = at least two "
                       "elements); distinct by canonical JSON")
    # -- corpus first: the F-8 witness must no longer differ
    site_rig(ctx)
    probe_rig(ctx)
    all_cases = []
    for f in sorted((VERIF / "corpus" / "C03").glob("xproc_*.json")):
        c = json.loads(f.read_text())
        shipped = scen.shipped()
        cfg = _small_scan(envrig.with_proxy(scen.load_cfg(shipped[c["scenario"]]))) if "scenario" in c else c["cfg"]
        cfg.setdefault("game", {}).setdefault("seed", c.get("seed", 7))
        all_cases.append(("corpus:" + f.name, c.get("variant", "-"), cfg, c["ops"], c["variants"]))
    vr = ctx.rng.fork("variants")
    for name, variant, cfg, ops in cases(ctx):
        all_cases.append((name, variant, cfg, ops, variants(ctx, vr)))
    agree = 0
    with cf.ThreadPoolExecutor(ctx.scale(4, 5)) as ex:
        f9_future = ex.submit(f9_compute)  # the known finding is replayed alongside
        futs = [(c, ex.submit(check_case, *c)) for c in all_cases]
        for c, fu in futs:
            name, variant, cfg, ops, vs = c
            viol, cnt, base = fu.result()
            ctx.count("xproc:cases")
            ctx.count("xproc:workers", cnt["workers"])
            ctx.count("xproc:case-ended-by-exception", cnt["raised"])
            ctx.cov["traces_validated_against_impl"] += cnt["workers"]
            for i, l in enumerate(base):
                nontrivial = '"op": 0' not in l[:12] or '"st": "success", "d": {"' in l
                ctx.case({"sc": name, "v": variant, "i": i, "l": l[:200]}, nontrivial and l.startswith('{"op"'))
            for l in base:
                for m in re.finditer(r'"a": "([\w-]+)"', l[:20000] if l.startswith('{"op"') else ""):
                    ctx.count("action:" + m.group(1))
            if not viol:
                agree += 1
                ctx.sample({"scenario": name, "variant": variant, "ops": ops[:14], "processes": vs, "lines": len(base),
                            "line1": base[1][:300] if len(base) > 1 else None}, cap=8)
            for v in viol:
                ctx.violation(v["sig"], v["what"], v["replay"])
    ctx.oblige("rig:R-env identical canonical trajectories across processes and across re-seeded episodes", "correspondence",
               agree == len(all_cases), f"{len(all_cases) - agree} of {len(all_cases)} cases differ")
    # -- known finding, replayed on the implementation
    f9_record(ctx, f9_future.result())
