"""C07 — ACL verdict = first matching rule by position, else the implicit action."""
from __future__ import annotations

import json
from pathlib import Path
from typing import List, Tuple

from harness.lib.core import VERIF, Ctx, Rng, lean_lock, run_driver, shrink_ops
from harness.extract import acl as x_acl
from harness.rigs import acl as rig
from harness.rigs import acl_state as rig_s
from harness.rigs import acl_parse as rig_p
from harness.rigs import acl_episode as rig_e
from harness.extract import acl_parse as x_parse
from harness.extract import acl_writers as x_writers
from harness.extract import acl_describe as x_describe

MANIFEST = {
    "text": "Lean 4 proof, for every rule list, packet/frame and sequence of the operations the code offers (constructor, add_rule, "
            "remove_rule, is_permitted, assignment of implicit_action and max_acl_rules), that the model of AccessControlList gives the "
            "verdict of the lowest-positioned rule whose specified fields all match (wildcard masks characterised bit by bit, and as "
            "address intervals for contiguous masks; a specified port never matches a frame without TCP/UDP header), else the implicit "
            "action IN FORCE (the last one assigned); that exactly the decider's hit counter is incremented (the implicit rule's counter = "
            "number of fall-through verdicts) and counters never influence verdicts; that add/remove touch only the addressed slot, refuse "
            "out-of-range positions without change and commute on distinct positions; that each of a firewall's seven lists behaves as if "
            "alone under any interleaving. Tie: is_permitted, permit_frame_check, ip_matches_masked_range, subject_to_acl and "
            "Frame.__init__ translated from the current source and proved equal to the model (C07_gen_is_permitted, "
            "C07_gen_permit_frame_check, C07_gen_frame); constructor, bounds, readers of describe_state/show, add_rule keyword plumbing, "
            "request-handler layout against the four agent actions, the seven loader loops and the device defaults regenerated as tables "
            "with their own obligations; differential rig R-acl through the Python API, the request API, agent actions and "
            "Router/Firewall.from_config, on bare lists, router lists and all seven firewall lists, with real pings and injected frames. "
            "Round 7: (a) VALUE layer of the port / protocol fields — port_validator and protocol_validator translated and proved equal to "
            "their specification over the regenerated PORT_LOOKUP / PROTOCOL_LOOKUP / VALID_PROTOCOLS (C07_gen_port_validator, "
            "C07_gen_protocol_validator, table facts C07_gen_port_table / C07_gen_protocol_table, declarations C07_gen_field_types); "
            "proved for every written value what the Python API, the request API, the agent action and the scenario-file loaders make "
            "of it (None / sentinel ALL / name / number / junk; double validation harmless; action = request except None; loaders accept "
            "names only, falsy = unspecified; port 0 under its name NONE is a specified port on every surface); rig family `parse` "
            "ENUMERATES every name of both tables, case variants, boundary numbers, sentinels and junk on 7 surfaces x 3 fields. "
            "(b) LIFECYCLE — last-write-wins theorem for the list built from a scenario file (C07_installAll_slot, C07_configured_list: a "
            "file rule at 22 / 23 replaces the default permit); the code's agreement that no lifecycle hook is an operation is a TIE: "
            "inventory of every writer of an ACL in the package and of every lifecycle hook (C07_gen_acl_writers, "
            "C07_gen_hooks_leave_acl_alone) + rig family `episode` through the real PrimaiteGymEnv (episodes 0-2, env.reset, steps, power "
            "cycles, Node.reset, setup_for_episode on device and simulation; rules at 0, 1, 22, 23). (c) READERS — ACLRule.describe_state "
            "and the row cells of show() translated; describe_state proved to be the identity on a rule (C07_gen_describe_rule), show() "
            "the identity except port 0 displayed as ANY (C07_gen_show_cells).",
    "note": "C07-specific: PARTIAL / not modelled: parsing of ADDRESS strings (IPv4Address() of the standard library; addresses reach the model "
            "already parsed; malformed ones are exercised by the rig's malformed stream only), bool / non-str-non-int values of ports, pydantic's "
            "smart-union mechanics (modelled as 'validated value, else the literal'), PrettyTable rendering beyond the cells, get_relevant_rules "
            "(dead code), ACLRule.__str__; that lifecycle hooks do not write lists is tied by inventory + rig, not proved about Python; what a "
            "device does with a permitted frame is C06/C08's subject (here only the verdicts on its real frames).",
    "technique": "Lean 4 theorems over an executable ACL model; model tied by source translation, regenerated tables and a differential rig",
    "design_ref": "5/C07",
}
MODULES = ["PrimaiteModel.Props.C07", "PrimaiteModel.Props.C07State", "PrimaiteModel.Props.C07Wildcard", "PrimaiteModel.Props.C07Frame",
           "PrimaiteModel.Props.C07Parse", "PrimaiteModel.Props.C07Life", "PrimaiteModel.Props.C07Readers"]
EXE = "drv_c07"


# ------------------------------------------------------------------------------------------ one case, any family
def _impl(case: dict) -> Tuple[List[str], List[str], List[str]]:
    """(implementation answers, model lines, oracle complaints) of one case of any family.  An exception the implementation raises
    where the rigs expect none is its ANSWER on this input (disagrees with the model at line 0; the case is the replay)."""
    try:
        return _impl_raw(case)
    except Exception as e:  # noqa: BLE001
        import traceback
        where = [f"{f.name}:{f.lineno}" for f in traceback.extract_tb(e.__traceback__) if "/primaite/" in f.filename][-1:]
        return [f"exception:{type(e).__name__} at {where[0] if where else '?'}"], ["reset"], []


def _impl_raw(case: dict) -> Tuple[List[str], List[str], List[str]]:
    fam = case.get("family", "list")
    if fam == "list":
        impl, slots, preload = rig.run_impl(case)
        return impl, rig.model_lines(case, slots, preload), []
    if fam == "obj":
        impl, lines = rig_s.run_obj(case)
        return impl, lines, []
    if fam == "dev":
        return rig_s.run_dev(case)
    if fam == "wf":
        impl, lines = rig_s.run_wf()
        return ["ok"] + impl, ["reset"] + lines, []
    if fam == "parse":
        impl, lines = rig_p.run_impl(case)
        return impl, lines, []
    if fam == "episode":
        impl, lines = rig_e.run(case)
        return impl, lines, []
    raise ValueError(fam)


def _first_diff(impl: List[str], model: List[str]) -> int:
    for i, (a, b) in enumerate(zip(impl, model)):
        if a != b:
            return i
    return -1 if len(impl) == len(model) else min(len(impl), len(model))


def _diff_case(case: dict):
    """Run one case on the implementation and the model. Returns (agree, impl, model, first_diff_index, lines, complaints)."""
    impl, lines, complaints = _impl(case)
    model = run_driver(EXE, lines)
    i = _first_diff(impl, model)
    return (i < 0 and not complaints), impl, model, i, lines, complaints


def _op_of_line(case: dict, lines: List[str], i: int) -> dict:
    """sig material: which model line differs and which list it addresses"""
    opname = lines[i].split()[0] if 0 <= i < len(lines) else "?"
    lst = next((lines[j].split()[1] for j in range(min(i, len(lines) - 1), -1, -1) if lines[j].startswith("sel ")), None)
    return {"op": opname, "list": lst}


def _sig(case: dict, lines: List[str], i: int, complaints: List[str]) -> dict:
    fam = case.get("family", "list")
    if i < 0 and complaints:
        return {"kind": "oracle", "family": fam, "what": "ping-vs-verdicts"}
    if i == 0 and lines == ["reset"]:
        return {"kind": "impl-exception", "family": fam, "host": case.get("host") or case.get("kind") or case.get("surface")}
    d = _op_of_line(case, lines, i)
    if fam == "list":
        sig = {"kind": "model-vs-impl", "op": d["op"], "surface": case["surface"]}
        if d["op"] in ("add", "remove"):
            pos = int(lines[i].split()[1])
            sig["pos_class"] = "in-range" if 0 <= pos < 24 else ("24" if pos == 24 else "out-of-range")
        return sig
    if fam == "parse":
        w = lines[i].split() if 0 <= i < len(lines) else ["?"] * 5
        return {"kind": "model-vs-impl", "family": fam, "surface": case["surface"], "field": case["field"], "value_kind": w[3] if len(w) > 3 else "?"}
    if fam == "episode":
        # which lifecycle events / resets lie between the start and the first disagreement
        upto, events = 0, []
        for op in case["ops"]:
            if upto > i:
                break
            upto += {"reset": 1 + len(rig_e._build_lines(case)), "dumpall": 1, "life": 0, "add": 2, "remove": 2, "check": 2}[op["op"]]
            if op["op"] == "reset" and "env.reset" not in events:
                events.append("env.reset")
            if op["op"] == "life" and op["what"] not in events:
                events.append(op["what"])
        return {"kind": "model-vs-impl", "family": fam, "op": d["op"], "host": case["kind"], "after": sorted(events)}
    sig = {"kind": "model-vs-impl", "family": fam, "op": d["op"], "host": case.get("host") or case.get("kind")}
    if d["list"]:
        sig["list"] = d["list"]
    if "neardup" in case:
        sig["neardup_field"] = case["neardup"]["field"]
    return sig


def replay(rec: dict) -> bool:
    with lean_lock():
        from harness.lib.core import lake_build
        lake_build([EXE])
    ok, *_ = _diff_case(rec["replay"]["case"])
    return ok


def _sweep_case() -> dict:
    """Deterministic: every list of a firewall gets one distinct rule through every surface (the six (port, direction) pairs
    through `firewall-acl-add-rule`, the inherited router list through `router-acl-add-rule`), one default is reassigned on
    each, and everything is dumped: a rule or a default that lands in another list shows in `dumpall`."""
    ops = []
    for li, lst in enumerate(rig_s.LISTS):
        for si, surf in enumerate(["api", "request", "action"]):
            r = {"action": "DENY" if (li + si) % 2 else "PERMIT", "proto": ["tcp", "udp", "icmp"][si], "src_ip": f"10.{li}.{si}.1",
                 "src_wc": "0.0.0.255" if si == 1 else None, "dst_ip": f"10.9.{li}.{si}", "dst_wc": "0.0.255.255" if si == 2 else None,
                 "src_port": None if si == 2 else 1000 + li, "dst_port": None if si == 2 else 2000 + 10 * li + si}
            ops.append({"op": "add", "list": lst, "surface": surf, "pos": 3 * li % 20 + si, "rule": r})
        ops.append({"op": "setimp", "list": lst, "value": "PERMIT" if li % 2 else "DENY"})
        ops.append({"op": "check", "list": lst, "pkt": {"proto": "tcp", "hdr": "tcp", "src": "172.16.0.1", "dst": "172.16.0.2", "sport": 1, "dport": 2}})
        ops.append({"op": "check", "list": lst, "pkt": {"proto": "tcp", "hdr": "tcp", "src": f"10.{li}.0.1", "dst": f"10.9.{li}.0", "sport": 1000 + li,
                                                         "dport": 2000 + 10 * li}})
    for li, lst in enumerate(rig_s.LISTS):
        ops.append({"op": "remove", "list": lst, "surface": ["action", "request", "api"][li % 3], "pos": 3 * li % 20 + 1})
    return {"family": "obj", "host": "firewall", "ctor": None, "ops": ops}


def run(ctx: Ctx):
    with lean_lock():
        ctx.extract("Acl", x_acl.emit)
        ctx.extract("AclMatch", x_acl.emit_match)
        ctx.extract("AclState", x_acl.emit_state)
        ctx.extract("AclParse", x_parse.emit)
        ctx.extract("AclWriters", x_writers.emit)
        ctx.extract("AclDescribe", x_describe.emit)
        proved = ctx.prove(MODULES, exes=[EXE], clean=False, leanchecker=ctx.thorough)
    # search stage: a broken extractor / C07_gen_* obligation says the source changed shape; the families aimed at the classes of
    # change seen so far (near-duplicate overwrites, reassigned defaults) are then run at three times the volume
    broken_tie = (not proved) or any(not o["ok"] for o in ctx.obligations)
    boost = 3 if broken_tie else 1
    ctx.cov["rule"] = ("cases: family `list` = (surface in {python api, request api, agent action, Router.from_config}, implicit action, op "
                       "sequence of add/remove/check over a covering address/mask/port/protocol domain); family `obj` = one list object "
                       "(bare with constructor arguments / router / one of a firewall's seven) under add/remove by three surfaces, "
                       "implicit_action and max_acl_rules assignment, verdicts, describe_state, show, num_rules; family `dev` = real "
                       "network with edits, implicit_action assignments, pings and injected frames, every is_permitted call replayed; "
                       "a case is non-trivial when some verdict is decided by a rule, an edit is refused, or a default was reassigned; "
                       "distinct by canonical JSON")
    cases = []
    for f in sorted((VERIF / "corpus" / "C07").glob("*.json")):
        cases.append(("corpus:" + f.name, json.loads(f.read_text())["case"]))
    cases.append(("sweep:firewall-lists", _sweep_case()))
    cases.append(("sweep:wildcards-src", rig.wildcard_sweep_case("src")))
    cases.append(("sweep:wildcards-dst", rig.wildcard_sweep_case("dst")))
    cases.append(("wf:exhaustive", {"family": "wf"}))
    rng = ctx.rng.fork("acl")
    for k in range(ctx.scale(400, 8000)):
        cases.append((f"gen:{k}", rig.gen_case(rng, max_ops=ctx.scale(30, 60))))
    rng_o = ctx.rng.fork("acl-obj")
    for k in range(ctx.scale(500, 10000)):
        cases.append((f"obj:{k}", rig_s.gen_obj_case(rng_o, max_ops=ctx.scale(30, 60))))
    rng_n = ctx.rng.fork("acl-neardup")
    for k in range(boost * ctx.scale(243, 2430)):
        cases.append((f"neardup:{k}", rig_s.gen_neardup_case(k, rng_n)))
    for k in range(boost * ctx.scale(72, 720)):
        cases.append((f"neardup-dev:{k}", rig_s.gen_dev_neardup_case(k, rng_n)))
    # value layer: enumerated (every name of both tables, boundary numbers, sentinels, junk) x 7 surfaces x 3 fields
    for c in rig_p.gen_cases(x_parse.port_names(), x_parse.proto_names()):
        cases.append((f"parse:{c['surface']}:{c['field']}", c))
    # lifecycle: the configured list is the enforced list in episodes 0, 1, 2 and across power cycles / resets / hooks
    rng_e = ctx.rng.fork("acl-episode")
    for k in range(boost * ctx.scale(45, 600)):
        cases.append((f"episode:{k}", rig_e.gen_case(k, rng_e)))
    rng_d = ctx.rng.fork("acl-dev")
    for k in range(ctx.scale(150, 3000)):
        cases.append((f"dev:{k}", rig_s.gen_dev_case(rng_d, max_ops=ctx.scale(14, 24))))
    # batch the model side: one driver run for all cases
    impl_all, lines_all, bounds, complaints_all = [], [], [], []
    for name, case in cases:
        impl, lines, complaints = _impl(case)
        bounds.append((len(lines_all), len(lines)))
        lines_all += lines
        impl_all.append(impl)
        complaints_all.append(complaints)
    model_all = run_driver(EXE, lines_all)
    agree = 0
    seen_sigs: dict = {}
    fam_total: dict = {}
    fw_lists_edited = set()
    for (name, case), impl, (st, ln), complaints in zip(cases, impl_all, bounds, complaints_all):
        fam = case.get("family", "list")
        model = model_all[st:st + ln]
        lines = lines_all[st:st + ln]
        ctx.cov["traces_validated_against_impl"] += 1
        fam_total[fam] = fam_total.get(fam, 0) + 1
        ctx.count("family:" + fam)
        deciders = [m.split()[1] for m, q in zip(model, lines) if q.startswith(("check", "frame")) and len(m.split()) == 2]
        nontrivial = (any(d not in ("implicit", "exempt") for d in deciders) or "raised" in model or "index-error" in model
                      or any(q.startswith("setimp") for q in lines))
        if fam == "parse":
            for q, m in zip(lines[1:], model[1:]):
                ctx.count(f"parse:{case['surface']}:" + ("refused" if m == "raised" else "unspecified" if m == "-" else "specified"))
        if fam == "episode":
            for op in case["ops"]:
                if op["op"] == "reset":
                    ctx.count("episode: env.reset() then the configured list compared")
                elif op["op"] == "life":
                    ctx.count("episode: lifecycle event " + op["what"])
            for lst, items in case["preload"].items():
                for it in items:
                    if it["pos"] in (22, 23):
                        ctx.count(f"episode: scenario rule at position {it['pos']} ({case['kind']})")
        canon = {k: v for k, v in case.items() if not k.startswith("_")}
        ctx.case(canon, nontrivial)
        if fam == "list":
            ctx.count("surface:" + case["surface"])
        else:
            ctx.count("host:" + str(case.get("host") or case.get("kind") or fam))
        cur, reassigned = "router", set()
        for q, m in zip(lines, model):
            w = q.split()
            ctx.count("op:" + w[0] + (":" + w[1] if w[0] == "frame" else ""))
            if w[0] == "sel":
                cur = w[1]
            if w[0] == "setimp":
                reassigned.add(cur)
            if w[0] in ("check", "frame"):
                dec = m.split()[1] if len(m.split()) == 2 else "?"
                ctx.count("decider:" + ("rule" if dec.isdigit() else dec))
                if dec == "implicit" and cur in reassigned:
                    ctx.count("fall-through verdicts AFTER implicit_action was reassigned")
            if m == "raised":
                ctx.count("refused-edit")
            if m == "index-error":
                ctx.count("index-error-edit")
            if m == "bad-op":
                raise RuntimeError(f"driver rejected line {q!r}")
        for op in case.get("ops", []) if fam in ("obj", "dev") else []:
            if op["op"] in ("add", "remove"):
                ctx.count(f"edit:{op['surface']}")
                if (case.get("host") or case.get("kind")) == "firewall":
                    fw_lists_edited.add((op["list"], op["surface"]))
                    ctx.count(f"firewall-edit:{op['list']}")
        if "neardup" in case:
            nd = case["neardup"]
            ctx.count(f"near-duplicate overwrite: field {nd['field']}" + (f" via {nd['surface']}" if "surface" in nd else " (device, real pings)"))
        if fam == "dev":
            for k, v in case.get("_stats", {}).items():
                if k == "raised":
                    for r in v:
                        ctx.count("inject raised above the filter (not compared): " + r)
                else:
                    ctx.count("dev:" + k, v)
        if impl == model and not complaints:
            agree += 1
            if name.startswith(("gen:", "obj:", "dev:", "neardup:", "episode:")):
                ctx.sample({"case": name, "family": fam, "lines": lines[:10], "answers": model[:10]}, cap=6)
            continue
        # disagreement on a property observable: the model is proved to meet C07, so the trace is a failing input. Shrink it
        # (the first few of each signature only: a broken scan makes hundreds of traces disagree).
        i = _first_diff(impl, model)
        sig0 = json.dumps(_sig(case, lines, i, complaints), sort_keys=True)
        seen_sigs[sig0] = seen_sigs.get(sig0, 0) + 1
        if seen_sigs[sig0] > 2 or sum(1 for v in seen_sigs.values() if v) > 12:
            ctx.count("disagreeing traces not shrunk (same signature already reported)")
            continue

        def fails(ops, case=case):
            c = dict({k: v for k, v in case.items() if not k.startswith("_")}, ops=ops)
            ok, *_ = _diff_case(c)
            return not ok
        small = {k: v for k, v in case.items() if not k.startswith("_")}
        if "ops" in case:
            small = dict(small, ops=shrink_ops(case["ops"], fails, budget=ctx.scale(60, 200)))
        ok, impl2, model2, i2, lines2, complaints2 = _diff_case(small)
        if ok:
            small, impl2, model2, i2, lines2, complaints2 = case, impl, model, i, lines, complaints
        if i2 >= 0:
            what = (f"ACL answer differs from the proved model at op {i2} ({lines2[i2] if i2 < len(lines2) else '?'}): "
                    f"impl={impl2[i2] if i2 < len(impl2) else None!r} model={model2[i2] if i2 < len(model2) else None!r}")
        else:
            what = "end-to-end oracle: " + "; ".join(complaints2[:3])
        ctx.violation(_sig(small, lines2, i2, complaints2), what,
                      {"case": {k: v for k, v in small.items() if not k.startswith("_")}, "lines": lines2, "impl": impl2, "model": model2,
                       "first_diff": i2, "complaints": complaints2, "from": name})
    ctx.oblige("rig:R-acl agrees on every trace", "correspondence", agree == len(cases), f"{len(cases) - agree} of {len(cases)} traces disagree")
    want = {(l, s) for l in rig_s.LISTS for s in ("api", "request", "action")}
    ctx.oblige("rig:every firewall list edited through every surface", "coverage", want <= fw_lists_edited,
               f"missing {sorted(want - fw_lists_edited)}")
    ctx.cov["families"] = fam_total
