"""C07 — ACL verdict = first matching rule by position, else the implicit action."""
from __future__ import annotations

import json
from pathlib import Path
from typing import List

from harness.lib.core import VERIF, Ctx, Rng, lean_lock, run_driver, shrink_ops
from harness.extract import acl as x_acl
from harness.rigs import acl as rig

MANIFEST = {
    "text": "Lean 4 proof, for every rule list, packet and edit sequence, that the model of AccessControlList gives the verdict of the "
            "lowest-positioned rule whose specified fields all match (wildcard masks characterised bit by bit), else the implicit action; "
            "that exactly the decider's hit counter is incremented and counters never influence verdicts; that add/remove touch only the "
            "addressed slot, reject out-of-range positions without change, and commute on distinct positions. Tie: constants, bounds and "
            "scan shape regenerated from router.py (Gen/Acl.lean, obligation C07_gen_bounds) + differential rig R-acl through the Python "
            "API, the request API and Router.from_config.",
    "note": "C07-specific: Frame/IPPacket construction and pydantic coercion of ports/protocols are exercised by the rig, not modelled.",
    "technique": "Lean 4 theorems over an executable ACL model; model tied by regenerated constants and a differential rig",
    "design_ref": "5/C07",
}
MODULES = ["PrimaiteModel.Props.C07"]
EXE = "drv_c07"


def _diff_case(case: dict):
    """Run one case on the implementation and the model. Returns (agree, impl_lines, model_lines, first_diff_index)."""
    impl, slots, preload = rig.run_impl(case)
    lines = rig.model_lines(case, slots, preload)
    model = run_driver(EXE, lines)
    for i, (a, b) in enumerate(zip(impl, model)):
        if a != b:
            return False, impl, model, i, lines
    if len(impl) != len(model):
        return False, impl, model, min(len(impl), len(model)), lines
    return True, impl, model, -1, lines


def _sig(case: dict, lines: List[str], i: int, impl: List[str], model: List[str]) -> dict:
    opname = lines[i].split()[0] if i < len(lines) else "?"
    sig = {"kind": "model-vs-impl", "op": opname, "surface": case["surface"]}
    if opname in ("add", "remove"):
        pos = int(lines[i].split()[1])
        sig["pos_class"] = "in-range" if 0 <= pos < 24 else ("24" if pos == 24 else "out-of-range")
    return sig


def replay(rec: dict) -> bool:
    with lean_lock():
        from harness.lib.core import lake_build
        lake_build([EXE])
    ok, *_ = _diff_case(rec["replay"]["case"])
    return ok


def run(ctx: Ctx):
    with lean_lock():
        ctx.extract("Acl", x_acl.emit)
        ctx.extract("AclMatch", x_acl.emit_match)
        ctx.prove(MODULES, exes=[EXE], clean=False, leanchecker=ctx.thorough)
    ctx.cov["rule"] = ("cases = (surface in {python api, request api, Router.from_config}, implicit action, op sequence of "
                       "add/remove/check over a covering address/mask/port/protocol domain); a case is non-trivial when some check "
                       "is decided by a rule that is not the first non-empty slot, or an edit is refused; distinct by canonical JSON")
    # corpus first
    cases = []
    for f in sorted((VERIF / "corpus" / "C07").glob("*.json")):
        cases.append(("corpus:" + f.name, json.loads(f.read_text())["case"]))
    n = ctx.scale(400, 8000)
    rng = ctx.rng.fork("acl")
    for k in range(n):
        cases.append((f"gen:{k}", rig.gen_case(rng, max_ops=ctx.scale(30, 60))))
    # batch the model side: one driver run for all cases
    impl_all, lines_all, bounds = [], [], []
    for name, case in cases:
        impl, slots, preload = rig.run_impl(case)
        lines = rig.model_lines(case, slots, preload)
        bounds.append((len(lines_all), len(lines)))
        lines_all += lines
        impl_all.append(impl)
    model_all = run_driver(EXE, lines_all)
    agree = 0
    for (name, case), impl, (st, ln) in zip(cases, impl_all, bounds):
        model = model_all[st:st + ln]
        lines = lines_all[st:st + ln]
        ctx.cov["traces_validated_against_impl"] += 1
        deciders = [l.split()[1] for l, q in zip(model, lines) if q.startswith("check")]
        nontrivial = any(d not in ("implicit",) for d in deciders) or "raised" in model
        ctx.case(case, nontrivial)
        ctx.count("surface:" + case["surface"])
        for q, m in zip(lines, model):
            ctx.count("op:" + q.split()[0])
            if q.startswith("check"):
                ctx.count("decider:" + ("implicit" if m.endswith("implicit") else "rule"))
            if m == "raised":
                ctx.count("refused-edit")
            if m == "bad-op":
                raise RuntimeError(f"driver rejected line {q!r}")
        if impl == model:
            agree += 1
            if name.startswith("gen:"):
                ctx.sample({"case": name, "surface": case["surface"], "lines": lines[:8], "answers": model[:8]}, cap=3)
            continue
        # disagreement on a property observable: the model is proved to meet C07, so the trace is a failing input. Shrink it.
        i = next((j for j, (a, b) in enumerate(zip(impl, model)) if a != b), min(len(impl), len(model)))

        def fails(ops, case=case):
            c = dict(case, ops=ops)
            ok, *_ = _diff_case(c)
            return not ok
        small = dict(case, ops=shrink_ops(case["ops"], fails))
        ok, impl2, model2, i2, lines2 = _diff_case(small)
        if ok:
            small, impl2, model2, i2, lines2 = case, impl, model, i, lines
        ctx.violation(_sig(small, lines2, i2, impl2, model2),
                      f"ACL answer differs from the proved model at op {i2} ({lines2[i2] if i2 < len(lines2) else '?'}): "
                      f"impl={impl2[i2] if i2 < len(impl2) else None!r} model={model2[i2] if i2 < len(model2) else None!r}",
                      {"case": small, "lines": lines2, "impl": impl2, "model": model2, "first_diff": i2, "from": name})
    ctx.oblige("rig:R-acl agrees on every trace", "correspondence", agree == len(cases), f"{len(cases) - agree} of {len(cases)} traces disagree")
