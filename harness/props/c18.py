"""C18 — a link never carries more than its bandwidth in a tick; down links carry nothing."""
from __future__ import annotations

import json
import time
from typing import List

from harness.lib.core import VERIF, Ctx, lean_lock, load_findings, run_driver, shrink_ops, sig_matches
from harness.extract import link as x_link
from harness.extract import link_body as x_body
from harness.rigs import link as rig

MANIFEST = {
    "text": "Lean 4 proof, for every network of wired links and wireless channels, every history of ticks and actions, and every tree "
            "of transmissions (sends nested inside deliveries to any depth, over any mix of links, floods, interfaces going up and down "
            "even in the middle of a delivery, deliveries cut short by an exception anywhere: the reservation then stays), that the model "
            "of Link/AirSpace accounting keeps every load within its capacity after every send_frame and at the end, that a frame that "
            "does not fit is dropped at the sender with nothing changed, that a frame is handed to a receiving interface only while both "
            "end interfaces are enabled and only if load + size <= the capacity then in force (no hypothesis at all), and that a tick "
            "resets every load to zero; the data carried per link / sent per channel is within capacity in every tick of every history, "
            "per frequency name when two names share a hz. Capacity changes between actions (link.bandwidth reassigned, "
            "set_frequency_max_capacity_mbps in mid-episode) are modelled: 'load <= capacity' then needs the explicit decidable side "
            "condition that no capacity is put below the load of the moment (counterexample proved); without it, for every bound C the data "
            "admitted against capacities <= C is <= C in every tick (so a link carries no more than the largest bandwidth it had while "
            "admitting). Floats: the accounting routed through any rounding that returns representable results unchanged and is monotone "
            "is proved EQUAL to the natural-number model on every tree while bandwidths are below 2^53 bytes (sizes are whole bytes * 2^-17 "
            "Mbit, so no operation rounds: epsilon = 0); the bandwidth enters by its floor. Tie: admission tests, order of "
            "reserve/deliver/roll-back and of stamp/admit in the send_frame methods, the reset and is_up shapes regenerated from the source "
            "(Gen/Link.lean, obligations C18_gen_*), plus regenerated INVENTORIES each equal to a list in the proof: every class of the "
            "NetworkInterface hierarchy that defines send_frame/enable/disable with its step order, every writer of a bandwidth / frequency "
            "capacity, every try statement under simulator/network and simulator/system, every caller that turns a payload into a request, "
            "every call that can toggle an interface. Differential rig R-link records the real call tree of send_frame (wrapping exactly "
            "the classes of the inventory, cross-checked against the classes at run time) on generated networks (tight bandwidths, ARP+ping, "
            "floods through switches, router hops, wireless, FTP, bursts, interface toggles by the real Terminal / the real C2 beacon / a "
            "remote shutdown / a test double, exceptions raised inside deliveries, capacity changes in mid-tick, bandwidth = exact sum of k "
            "frames and one ulp beside it) and replays it through the model, comparing verdicts and loads as exact byte counts; every real "
            "(float) admission test is also compared with exact rational arithmetic. Round 4: the airspace's interface lists are modelled "
            "(Ev.wjoin / Ev.wleave = add_/remove_wireless_interface, separate from the enabled flag; clear() = every interface leaves); "
            "neither touches a load, so the data TRANSMITTED on a frequency in a tick (summed from the sends, not read from the counter) "
            "is within capacity whatever joins, leaves, is disabled or enabled inside the tick, also when a frequency is emptied and "
            "repopulated (C18_Full_air_transmitted_holds; the accounting that forgets on empty is C18_air_forget_on_empty_counterexample). "
            "Gen: the writers of bandwidth_load and of current_load are regenerated inventories equal to committed lists, the three "
            "membership functions have strict shapes, and the window between the size read by the admission test and the size read by the "
            "accounting contains no write on the frame (C18_gen_size_window). The rig drives remove/add/clear directly, empties and "
            "repopulates every frequency inside a tick, moves an access point to another frequency in mid-episode, checks that no load "
            "decreases inside a tick, and compares a wireless access point's answer with the acceptance model. Round 7: the tick of "
            "the property is the STEP of an episode: episode / runSteps (tick, the agents' traffic, apply_timestep's traffic) with "
            "C18_every_step_carried_le_bandwidth, C18_every_step_starts_at_zero, and the call orders the property excludes proved to "
            "violate it (reset behind the agents' actions; reset dropped); the three places the step loop is written are read from "
            "the source (C18_gen_step_loops, C18_gen_timestep_drivers); the rig checks every env.step / game.step as a whole (reset "
            "first and once, first send on every link finds load 0 - scenario cases start from the load construction left -, bytes "
            "carried in the step within capacity). The budget of a wireless channel is that of the PHYSICAL channel (hz): "
            "C18_physical_channel_le_capacity for any number of names and access points, C18_budget_per_name_counterexample, the "
            "index of the budget read from the source (C18_gen_air_keys); the rig keeps its own per-hz sum of what was handed to "
            "AirSpace.transmit and never depends on the shape of the implementation's dict (an unreadable container is a broken "
            "correspondence obligation followed by search, not an internal error). Round 7b: 'the value tested is the value stored' — "
            "frames are shared mutable objects that grow (stamps) while a switch offers them to port after port: the translated bodies "
            "carry OPTIONAL parameters (.arg / .argNone / .setArg / .ifCanWith; quantified over as soon as a call site passes one, "
            "Gen.LinkBody.canArgPassed / sendArgPassed), so an admission test fed a size measured earlier has no proof "
            "(C18_gen_link_can_transmit_body, C18_gen_switch_send_body) while a parameter nobody passes re-proves; the rig's wrappers "
            "pass on whatever else a caller hands over, record per frame object the smallest / largest size it had and where it was "
            "offered, and the enumerated family 'tight-bandwidth flood' (3-4 hosts on a switch, every ordered pair, ping / unknown "
            "unicast / broadcast, each link in turn at every bandwidth around the measured sizes) checks the rig's own account of the "
            "bytes that crossed, measured at crossing time.",
    "note": "C18-specific: frame sizes (JSON length of the frame, F-9) and the far interface's accept/reject answer are inputs to the "
            "model, not predicted (the answer is compared with C08's acceptance model); IEEE-754 behaviour (exact when representable, "
            "monotone) is assumed, not verified; which software raises is not predicted (an exception is an input event).",
    "technique": "Lean 4 theorems over an executable model of link/airspace accounting with nested transmissions; model tied by "
                 "regenerated tables and inventories and a differential rig",
    "design_ref": "5/C18",
}
MODULES = ["PrimaiteModel.Props.C18", "PrimaiteModel.Props.C18Accept", "PrimaiteModel.Props.C18Float", "PrimaiteModel.Props.C18Step", "PrimaiteModel.Props.C18Chan", "PrimaiteModel.Props.C18Body"]
EXE = "drv_c18"
SHRINK_PER_SIG = 2      # failing traces minimised per distinct presumptive signature
SHRINK_WALL = 40.0      # seconds of minimisation after which further failing traces are reported unminimised


def _first_diff(a: List[str], b: List[str]) -> int:
    for i, (x, y) in enumerate(zip(a, b)):
        if x != y:
            return i
    return -1 if len(a) == len(b) else min(len(a), len(b))


def _eval_case(case: dict):
    """(oracle findings, first differing line or -1, result dict, model answers)"""
    r = rig.run_impl(case)
    model = run_driver(EXE, r["lines"])
    return r["oracle"], _first_diff(r["impl"], model), r, model


def _oracle_sig(o: dict) -> dict:
    sig = {"kind": o["kind"], "medium": o.get("medium", "-")}
    if o["kind"] == "load-exceeds-bandwidth":
        sig["nested"] = bool(o.get("nested", False))
    return sig


def _fails(case: dict, kinds=None) -> bool:
    try:
        orc, d, _, _ = _eval_case(case)
    except Exception:
        return True
    orc = [o for o in orc if o["kind"] != "exception"]
    if kinds is not None:
        return any(o["kind"] in kinds for o in orc) or (d >= 0 and "model-vs-impl" in kinds)
    return bool(orc) or d >= 0


def replay(rec: dict) -> bool:
    with lean_lock():
        from harness.lib.core import lake_build
        lake_build([EXE])
    if rec["replay"].get("probe") == "from_config":
        return not rig.from_config_probe()["problems"]
    return not _fails(rec["replay"]["case"])


def run(ctx: Ctx):
    with lean_lock():
        ctx.extract("Link", x_link.emit)
        ctx.extract("LinkBody", x_body.emit)
        ctx.prove(MODULES, exes=[EXE], clean=False, leanchecker=ctx.thorough)
    ctx.oblige("rig unit = Gen.Link.bytesPerMbit", "extractor", rig.UNIT == x_link._bytes_per_mbit(), f"{rig.UNIT}")
    # the extractor's inventory of interface classes (pure ast) against the classes that exist at run time
    try:
        inv = x_link.iface_methods()
    except Exception as e:          # the extractor no longer recognises a shape: already reported by extract:Link
        inv = None
        ctx.oblige("interface inventory readable", "extractor", False, f"{type(e).__name__}: {e}")
    if inv is not None:
        runtime, _ = rig.runtime_iface_methods()
        listed = {(c, f, m) for c, f, m, _ in inv}
        dead = {(c, f, m) for (c, f, m) in listed if f in rig._DEAD_MODULES}
        ctx.oblige("extractor inventory of NetworkInterface classes x {send_frame, enable, disable} = the classes at run time "
                   "(modules that cannot be imported excepted)", "extractor", runtime == listed - dead,
                   f"only at run time: {sorted(runtime - listed)}; only in the source: {sorted(listed - dead - runtime)}")
        ctx.cov["interface_inventory"] = {"listed": len(listed), "in_modules_that_cannot_be_imported": sorted(f"{f}:{c}.{m}" for c, f, m in dead),
                                          "dead_modules": dict(rig._DEAD_MODULES)}
    try:
        fc = rig.from_config_probe()
        ctx.cov["from_config_probe"] = fc
        ctx.oblige("PrimaiteGame.from_config puts every wireless interface on its network's AirSpace and registers every link; "
                   "PrimaiteGame.pre_timestep zeroes every load (wireless scenario files of tests/assets)", "correspondence",
                   fc["files"] > 0 and not fc["problems"], "; ".join(fc["problems"]) or f"{fc['files']} files")
        if fc["problems"]:
            # a concrete failing input: the scenario file itself, through the public construction path
            ctx.violation({"kind": "load-out-of-reach-of-the-tick-reset", "medium": "from_config"},
                          f"PrimaiteGame.from_config({fc['problems'][0].split(':')[0]}): {fc['problems'][0]}",
                          {"probe": "from_config", "problems": fc["problems"][:6]})
    except Exception as e:
        ctx.oblige("from_config probe runs", "correspondence", False, f"{type(e).__name__}: {e}")
    ctx.cov["rule"] = ("case = (topology in {two hosts, 2-4 hosts on a switch, two switches with a trunk, hosts behind a router, hosts behind "
                       "2-3 wireless routers on one or two frequencies}, per-link bandwidth / per-frequency capacity from below one frame to "
                       "100 Mbit (wireless: optionally two frequency names of different capacity on one hz), op sequence of ping / arp / raw "
                       "bursts (unicast, broadcast) / ftp / interface disable-enable / tick / tripwire (interface toggled during a delivery by a "
                       "test double, or an exception raised / raised-and-caught inside a delivery) / rcmd (interface toggled or node powered off during a delivery by the real Terminal executing a remote command) / c2 (the same by the real C2 beacon) / setbw, setcap (capacity reassigned in mid-episode) / bfill, wbfill (capacity := exact sum of k stamped frames, or one ulp beside it)); non-trivial when some send is refused for capacity or link state or lost to an exception, "
                       "or the call tree nests at least two sends deep; distinct by canonical JSON of topology and ops")
    cases = []
    for f in sorted((VERIF / "corpus" / "C18").glob("*.json")):
        cases.append(("corpus:" + f.name, json.loads(f.read_text())["case"]))
    n = ctx.scale(900, 12000)
    rng = ctx.rng.fork("link")
    for k in range(n):
        cases.append((f"gen:{k}", rig.gen_case(rng, max_ops=ctx.scale(12, 20))))
    # family "tight-bandwidth flood" (enumerated, not sampled): see rig.flood_family_cases
    try:
        fl = rig.flood_family_cases(ctx.rng.fork("flood"), thorough=ctx.thorough, inventory=inv)
        cases += fl
        ctx.cov["flood_family_cases"] = len(fl)
    except Exception as e:
        ctx.oblige("the tight-bandwidth flood family can be built (reference runs on a switch with 3 hosts)", "correspondence", False,
                   f"{type(e).__name__}: {e}")
    srng = ctx.rng.fork("scenario")
    for k in range(ctx.scale(8, 120)):
        cases.append((f"scn:{k}", rig.gen_scenario_case(srng, max_steps=ctx.scale(25, 60))))
    results, lines_all, bounds = [], [], []
    unreadable: List[str] = []
    for name, case in cases:
        try:
            r = rig.run_impl(case, inv)
        except rig.InexactLoad as e:
            ctx.oblige("loads and sizes are whole byte counts (float sums exact)", "correspondence", False, f"{name}: {e}")
            r = None
        except Exception as e:
            # the rig failed while driving / reading the implementation (a container keyed or shaped differently, an attribute
            # gone): a broken tie, reported as such; the other cases go on and the search decides
            import traceback
            tb = traceback.extract_tb(e.__traceback__)[-1]
            unreadable.append(f"{name}: {type(e).__name__}: {e} ({tb.filename.split('/')[-1]}:{tb.lineno})")
            r = None
        if r is not None:
            for pr in r.get("read_problems", []):
                if pr not in unreadable:
                    unreadable.append(pr)
        results.append(r)
        if r is None:
            bounds.append((len(lines_all), 0))
            continue
        bounds.append((len(lines_all), len(r["lines"]) + 1))
        lines_all += r["lines"] + ["reset"]
    ctx.oblige("the rig reads the implementation's bookkeeping as the model assumes it (loads per link, airspace load per "
               "frequency in hz; no case lost to an exception of the rig)", "correspondence", not unreadable,
               "; ".join(unreadable[:4]) + (f" (+{len(unreadable) - 4} more)" if len(unreadable) > 4 else ""))
    model_all = run_driver(EXE, lines_all)
    agree = 0
    total = 0
    known = 0
    open_f = [f for f in load_findings() if f["property"] == "C18" and f.get("status") == "open"]
    maxdepth = 0
    failing_by_sig: dict = {}
    shrink_spent = [0.0]
    for (name, case), r, (st, ln) in zip(cases, results, bounds):
        if r is None:
            continue
        total += 1
        model = model_all[st:st + ln - 1]
        ctx.cov["traces_validated_against_impl"] += 1
        verdicts = []
        d = 0
        for forest in r["forests"]:
            d = max(d, rig.depth(forest))
            for e in rig.walk(forest):
                if e["t"] in ("S", "W"):
                    v = rig.verdict_of(e)
                    verdicts.append(v)
                    ctx.count(("wired:" if e["t"] == "S" else "wireless:") + v)
                    if e["children"]:
                        ctx.count("send-with-nested-sends")
                    for side in ("nodeS", "nodeR"):
                        if e.get(side) not in (None, "ON"):
                            ctx.count(f"wired-send-while-the-{'sending' if side == 'nodeS' else 'receiving'}-node-is-{e[side]}:{v}")
                elif e["t"] in ("E", "F"):
                    ctx.count("iface-toggle:" + ("wired" if e["t"] == "E" else "wireless"))
        # toggles that happened inside a delivery
        for forest, oi in zip(r["forests"], r["forest_ops"]):
            for e in rig.walk(forest):
                if e["t"] in ("S", "W"):
                    if any(c["t"] in ("E", "F") for c in e["children"]):
                        ctx.count("iface-toggle-inside-delivery")
                        ctx.count("iface-toggle-inside-delivery:" + {"rcmd": "by-the-real-Terminal", "trip": "by-the-test-double",
                                                                     "c2": "by-the-real-C2-beacon"}.get(
                            case["ops"][oi][0], "other:" + case["ops"][oi][0]))
                        if case["ops"][oi][0] == "rcmd" and case["ops"][oi][3] == ["shutdown"]:
                            ctx.count("iface-toggle-inside-delivery:node-powered-off-by-a-remote-command")
        for forest in r["forests"]:
            for e in rig.walk(forest):
                if e["t"] == "W" and any(x["t"] == "F" and x["k"] == e["k"] for x in rig.walk(e["children"])):
                    ctx.count("wireless-iface-toggle-while-a-frame-is-in-the-air-on-its-channel")
                if e["t"] == "R":
                    ctx.count("wireless:heard")
                if e["t"] in ("J", "Q"):
                    ctx.count("airspace-membership:" + ("added" if e["t"] == "J" else "removed"))
        for k, v in r.get("info", {}).items():
            ctx.count("observed:" + k, v)
        if "topo" in case and rig.ALT_NAME in case["topo"].get("freqs", []):
            ctx.count("topo:wireless-two-names-on-one-hz")
            caps = dict(case["topo"]["cap"])
            if "WIFI_2_4" in case["topo"]["freqs"] and caps.get(rig.ALT_NAME) != caps.get("WIFI_2_4"):
                ctx.count("topo:wireless-two-names-different-capacities")
        if "topo" in case and case["topo"].get("power_family"):
            ctx.count("family:power-transitions (countdowns ticked with traffic, enable refused, same-tick disable request)")
        if "topo" in case and case["topo"].get("flood_family"):
            ctx.count("family:tight-bandwidth-flood:" + case["topo"]["flood_family"])
        if "topo" in case and case["topo"].get("aliased_channel_family"):
            ctx.count("family:aliased-channel (two names on one hz, both send in one tick)")
        maxdepth = max(maxdepth, d)
        ctx.count(f"depth:{min(d, 6)}")
        ctx.count("topo:" + (case["topo"]["kind"] if "topo" in case else "scenario:" + case["scenario"]["file"]))
        for op in case["ops"]:
            ctx.count("op:" + op[0])
        nontrivial = d >= 2 or any(v in ("full", "down", "disabled", "rejected", "lost") for v in verdicts)
        if r.get("wrapped"):
            ctx.cov["recorder_wraps"] = sorted(r["wrapped"])
        ctx.case(case, nontrivial)
        if any(m == "bad-op" for m in model):
            raise RuntimeError(f"driver rejected a line of case {name}")
        orc = [o for o in r["oracle"] if o["kind"] != "exception"]
        for o in r["oracle"]:
            if o["kind"] == "exception":
                ctx.count("impl-exception")
                ctx.notes.append(f"{name}: op {o['op']} raised {o['detail'][:120]}") if len(ctx.notes) < 10 else None
        di = _first_diff(r["impl"], model)
        if not orc and di < 0:
            agree += 1
            if name.startswith("gen:") and d >= 2:
                ctx.sample({"case": name, "topo": case.get("topo", case.get("scenario")), "ops": case["ops"][:6], "lines": [l[:160] for l in r["lines"][:8]],
                            "answers": [m[:160] for m in model[:8]]}, cap=3)
            continue
        # a failing input: the implementation breaks the property's oracle, or answers differently from the proved model
        if di < 0 and all(any(sig_matches(f["signature"], _oracle_sig(o)) for f in open_f) for o in orc):
            # only the recorded open finding(s): reported as KNOWN-FINDING, the trace still agrees with the model
            agree += 1
            known += 1
            if known <= 1 or name.startswith("corpus:"):
                o = orc[0]
                ctx.violation(_oracle_sig(o), f"{o['kind']} ({o.get('medium', '-')}) at op {o['op']} {case['ops'][o['op']]}: {json.dumps(o)}",
                              {"case": case, "oracle": orc[:5], "from": name})
            continue
        kinds = {o["kind"] for o in orc} | ({"model-vs-impl"} if di >= 0 else set())
        # Search stage, bounded: `Ctx.finish` writes ONE replay per distinct signature, so only the first traces that show an
        # oracle kind are minimised (each minimisation re-runs the implementation and the driver up to 60 times), and they are
        # minimised with respect to the kinds that are still NEW (so a trace that breaks both the counter-side and the
        # transmitted-sum oracle yields a witness for each); the rest are counted. Without the bound a change that breaks most
        # traces (seeded C18-a: 563 of 920) cost 233 s.
        fresh = {k for k in kinds if failing_by_sig.get(k, 0) < SHRINK_PER_SIG}
        for kd in sorted(kinds):
            failing_by_sig[kd] = failing_by_sig.get(kd, 0) + 1
            ctx.count("failing-trace:" + kd)
        if not fresh:
            continue                # every kind this trace shows has already been minimised and reported
        if shrink_spent[0] > SHRINK_WALL:
            small, orc2, di2, r2, model2 = case, orc, di, r, model     # out of search time: reported unminimised
        else:
            t1 = time.time()

            def fails(ops, case=case, kinds=fresh):
                return _fails(dict(case, ops=ops), kinds)
            small = dict(case, ops=shrink_ops(case["ops"], fails, budget=60))
            try:
                orc2, di2, r2, model2 = _eval_case(small)
                orc2 = [o for o in orc2 if o["kind"] != "exception"]
            except Exception:
                orc2, di2, r2, model2 = [], -1, r, model
            if not orc2 and di2 < 0:
                small, orc2, di2, r2, model2 = case, orc, di, r, model
            shrink_spent[0] += time.time() - t1
            ctx.cov["search_wall_s"] = round(shrink_spent[0], 2)
        if orc2:
            seen_kinds = set()
            for o in orc2:          # one report per distinct oracle kind the (minimised) trace breaks
                if o["kind"] in seen_kinds:
                    continue
                seen_kinds.add(o["kind"])
                ctx.violation(_oracle_sig(o), f"{o['kind']} ({o.get('medium', '-')}) at op {o['op']} "
                              f"{small['ops'][o['op']] if 0 <= o['op'] < len(small['ops']) else '-'}: {json.dumps(o)}",
                              {"case": small, "kind": o["kind"], "oracle": orc2[:5], "lines": r2["lines"], "impl": r2["impl"], "from": name})
        if di2 >= 0:
            q = r2["lines"][di2] if di2 < len(r2["lines"]) else "?"
            what = ("the far interface's answer differs from C08's acceptance model (farAnswer)" if q.startswith("far ")
                    else "link accounting differs from the proved model")
            ctx.violation({"kind": "model-vs-impl", "line": q.split()[0]},
                          f"{what} at line {di2} ({q[:200]}): "
                          f"impl={r2['impl'][di2] if di2 < len(r2['impl']) else None!r} model={model2[di2] if di2 < len(model2) else None!r}",
                          {"case": small, "lines": r2["lines"], "impl": r2["impl"], "model": model2, "first_diff": di2, "from": name})
    ctx.cov["max_nesting_depth"] = maxdepth
    try:
        ctx.cov["f9_frame_size_depends_on_clock_text"] = rig.f9_probe()
    except Exception as e:  # informational only
        ctx.notes.append(f"F-9 probe failed: {type(e).__name__}: {e}")
    ctx.cov["traces_showing_only_open_findings"] = known
    ctx.oblige("rig:R-link agrees on every trace and the oracle holds", "correspondence", agree == total,
               f"{total - agree} of {total} traces disagree or break the oracle")
