"""C01 — stepping/resetting the environment is total and keeps the episode contract."""
from __future__ import annotations

import copy
import json
from typing import Any, Dict, List

from harness.extract import episode as x_ep
from harness.lib import scen
from harness.lib.core import VERIF, Ctx, Rng, lean_lock, run_driver
from harness.rigs import envrig

MANIFEST = {
    "text": "Lean 4 proof of the episode bookkeeping for EVERY simulator that returns, every agent policy, reward function, duplicate-free "
            "evaluation order and finite action sequence: the tick counter equals the number of steps; every agent has exactly one history "
            "item per step stamped 0..n-1; truncated is reported iff the number of steps has reached the maximum, terminated never; every "
            "agent's episode total equals the sum of its saved step rewards; a reset yields tick 0, empty histories and zero totals as a "
            "function of the episode configuration only (C01_episode_contract and its lemmas). PARTIAL: that the real step/reset return at "
            "all (no exception, finite reward) is not a theorem - it is checked by the rig R-env, which runs the real environment on "
            "shipped scenarios and on variants with generated action maps (every action type x existing/missing/powered-off components), "
            "several episodes with mid-episode resets, comparing the bookkeeping with the model line by line. Tie: the call order of "
            "step/advance_timestep/apply_agent_actions/update_agents/reset, the truncation comparator (translated from source), the literal "
            "terminated=False and the single history append are regenerated from source (Gen/Episode.lean, obligation C01_gen_pipeline).",
    "note": "C01-specific: Python exceptions inside handlers/observations/rewards and float overflow are outside the model; totality is "
            "validated by execution only. Scenario families: shipped scenarios x generated action maps and members of the generated topology families (switched LAN, routed, firewall+DMZ) from harness/gen/scenario.py.",
    "technique": "Lean 4 induction over action sequences on a parametric episode model; regenerated pipeline table; differential env rig",
    "design_ref": "5/C01",
}
MODULES = ["PrimaiteModel.Props.C01"]
EXE = "drv_c01"
QUICK = ["data_manipulation", "basic_firewall", "test_primaite_session", "wireless_wan_network_config", "uc7_config"]
# not usable as single-agent gym scenarios: malformed on purpose (bad_*, eval_only: agent_settings null), no nodes, MARL configs with
# two proxy agents (PrimaiteGymEnv drives only the first; they belong to PrimaiteRayMARLEnv), a config that needs a plug-in node type
SKIP = {"bad_primaite_session", "no_nodes_links_agents_network", "eval_only_primaite_session", "multi_agent_session",
        "data_manipulation_marl", "extended_config"}


def _cases(ctx: Ctx):
    shipped = scen.shipped()
    names = [n for n in QUICK if n in shipped] if not ctx.thorough else [n for n in shipped if n not in SKIP]
    rng = ctx.rng.fork("env")
    for name in names:
        try:
            cfg = scen.load_cfg(shipped[name])
        except Exception:
            continue
        if envrig.proxy_agent_cfg(cfg) is None:
            cfg = envrig.with_proxy(cfg)
            ctx.count("scenario-given-a-minimal-proxy-agent")
        else:
            yield name, "shipped-map", cfg
        for v in range(ctx.scale(2, 3)):
            try:
                aug = envrig.augmented(cfg, rng.fork(f"{name}-aug{v}"), ctx.scale(60, 150))
            except Exception as e:
                ctx.notes.append(f"{name}: augmented map not built: {type(e).__name__}: {str(e)[:100]}")
                aug = None
            if aug is not None:
                yield name, f"generated-map-{v}", aug


def _generated(ctx: Ctx):
    """Members of the generated scenario families (harness/gen/scenario.py: switched LAN, routed, firewall+DMZ)."""
    from harness.gen import scenario as gscen
    rng = ctx.rng.fork("gen-scenarios")
    for k in range(ctx.scale(4, 18)):
        fam = gscen.FAMILIES[k % len(gscen.FAMILIES)]
        try:
            cfg = gscen.gen_scenario(rng.fork(f"g{k}"), size=1 + k % 3, family=fam, shadowing=(k % 2 == 0))
        except Exception as e:
            ctx.notes.append(f"generator failed for {fam}#{k}: {type(e).__name__}: {str(e)[:100]}")
            continue
        cfg = envrig.with_proxy(cfg)
        yield f"generated-{fam}-{k}", "own-map", cfg
        try:
            aug = envrig.augmented(cfg, rng.fork(f"aug{k}"), ctx.scale(50, 120))
        except Exception as e:
            ctx.notes.append(f"generated-{fam}-{k}: augmented map not built: {type(e).__name__}: {str(e)[:100]}")
            aug = None
        if aug is not None:
            yield f"generated-{fam}-{k}", "generated-map-0", aug


def _sig(f: dict) -> dict:
    sig = {"kind": f["kind"]}
    for k in ("exc", "action", "where", "agent"):
        if k in f and k != "agent":
            sig[k] = f[k]
    return sig


def replay(rec: dict) -> bool:
    rp = rec["replay"]
    if "scenario_dir" in rp:
        from primaite.session.environment import PrimaiteGymEnv
        env = PrimaiteGymEnv(env_config=rp["scenario_dir"])
    else:
        env = scen.make_env(copy.deepcopy(rp["cfg"]))
    try:
        for a in rp["log"]:
            if a == "reset":
                env.reset(seed=rp.get("seed"))
            else:
                env.step(a)
    except Exception:
        return False
    return True


def run(ctx: Ctx):
    with lean_lock():
        ctx.extract("Episode", x_ep.emit)
        ctx.prove(MODULES, exes=[EXE], leanchecker=ctx.thorough)
    ctx.cov["rule"] = ("cases = shipped scenario x {shipped action map, generated action maps over every registered action type with existing, "
                       "missing and powered-off targets} x 2-3 episodes with a mid-episode reset and a run past truncation; every step is one "
                       "evaluation; non-trivial = every step whose action is not do-nothing; distinct by (scenario, variant, action log prefix)")
    all_lines: List[str] = []
    all_impl: List[str] = []
    rng = ctx.rng.fork("run")
    import itertools
    for name, variant, cfg in itertools.chain(_cases(ctx), _generated(ctx)):
        max_len = rng.choice([7, 19, 33])
        lines, impl, fails, log = envrig.run_case(cfg, rng.fork(name + variant), episodes=ctx.scale(3, 4),
                                                  steps_per_episode=max_len + 3, max_len=max_len)
        ctx.count("case:" + variant.split("-")[0])
        ctx.cov["traces_validated_against_impl"] += 1
        amap = (envrig.proxy_agent_cfg(cfg) or {}).get("action_space", {}).get("action_map", {})
        for i, a in enumerate(log):
            if a == "reset":
                ctx.count("op:reset")
                continue
            ident = (amap.get(a) or {}).get("action", "?")
            ctx.count("action:" + ident)
            ctx.case({"sc": name, "v": variant, "i": i, "a": a}, ident != "do-nothing")
        for f in fails:
            ctx.violation(_sig(f), f"{name}/{variant}: {f['kind']} {f.get('exc', '')} {f.get('msg', '')[:160]} action={f.get('action')} "
                          f"options={f.get('options')}", {"scenario": name, "variant": variant, "cfg": cfg, "log": f.get("log", log), "failure": {k: v for k, v in f.items() if k != 'log'}})
        all_lines += lines
        all_impl += impl
        ctx.sample({"scenario": name, "variant": variant, "log": log[:20], "impl": impl[2:6]}, cap=4)
    for name, path in envrig.scheduled_dirs().items():
        if not ctx.thorough and name.startswith("uc7"):
            continue  # 20 schedule entries x 34 agents: thorough tier only
        lines, impl, fails, log = envrig.run_scheduled(path, rng.fork("sched" + name), extra_resets=3, steps=ctx.scale(6, 14))
        ctx.count("case:scheduled")
        ctx.cov["traces_validated_against_impl"] += 1
        for i, a in enumerate(log):
            ctx.count("op:reset" if a == "reset" else "scheduled-step")
            ctx.case({"sc": name, "i": i, "a": a}, a != "reset")
        for f in fails:
            ctx.violation(_sig(f), f"scheduled scenario {name}: {f['kind']} {f.get('exc', '')} {f.get('msg', '')[:160]} "
                          f"(reset #{f.get('reset_number')}, schedule length {f.get('schedule_length')})",
                          {"scenario_dir": str(path), "log": f.get("log", log), "failure": {k: v for k, v in f.items() if k != "log"}})
        all_lines += lines
        all_impl += impl
    model = run_driver(EXE, all_lines) if all_lines else []
    bad = [(i, q, a, b) for i, (q, a, b) in enumerate(zip(all_lines, all_impl, model)) if a != b]
    for i, q, a, b in bad[:5]:
        ctx.violation({"kind": "bookkeeping-differs-from-model", "op": q.split()[0]},
                      f"episode bookkeeping after `{q}`: impl {a!r} vs proved model {b!r}", {"line_index": i, "op": q, "impl": a, "model": b,
                                                                                            "context": all_lines[max(0, i - 10):i + 1]})
    ctx.oblige("rig:R-env bookkeeping agrees with the model at every step", "correspondence", not bad and len(model) == len(all_impl),
               f"{len(bad)} of {len(all_impl)} lines differ")
