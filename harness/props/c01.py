"""C01 — stepping/resetting the environment is total and keeps the episode contract."""
from __future__ import annotations

import copy
import hashlib
import json
import os
import time
from typing import Any, Dict, List, Optional, Tuple

from harness.extract import c01_handlers as x_h
from harness.extract import c01_regs as x_regs
from harness.extract import episode as x_ep
from harness.extract import request_schema as x_schema
from harness.lib import scen
from harness.lib.core import LEAN, VERIF, Ctx, Rng, lean_lock, run_driver
from harness.rigs import c01_disturb as dist
from harness.rigs import envrig

MANIFEST = {
    "text": "Lean 4 proof of the episode bookkeeping for EVERY simulator that returns, every agent policy, reward function, duplicate-free "
            "evaluation order and finite action sequence: the tick counter equals the number of steps; every agent has exactly one history "
            "item per step stamped 0..n-1 and the last item is the one of this step (C01_info_last_item); truncated is reported iff the "
            "number of steps has reached the maximum, also on steps taken after truncation (C01_truncated_whole_run), terminated never; "
            "every agent's episode total equals the sum of its saved step rewards; a reset yields tick 0, empty histories and zero totals as "
            "a function of the episode configuration only (C01_episode_contract and its lemmas); and, with the request layer of C05 as the "
            "simulator, every history item carries a response with one of the four documented statuses PROVIDED every handler answers with "
            "a RequestResponse - refusals built by the request manager always do (C01_responses_documented, counterexample "
            "C01_handler_contract_needed). PARTIAL: that the real step/reset return at all (no exception, finite reward) and that every "
            "handler keeps its contract is not a theorem - it is checked by the rig R-env, which runs the real environment (a) on shipped "
            "scenarios and on variants with generated action maps (every action type x existing/missing/powered-off components), several "
            "episodes with mid-episode resets, runs past truncation and the rest of the public surface (action_masks, spaces, close, reset "
            "with/without seed and options) in between; (b) on DISTURBED FULL-LENGTH episodes of the shipped scenarios with scripted red "
            "agents: blue takes one or two actions of its own map at times placed before / inside every kill-chain stage of an undisturbed "
            "probe episode (quick: the actions whose targets the red agents use, read from the scenario file, capped; thorough: the whole "
            "action x stage grid); (c) on scenarios with several RL agents through PrimaiteGame driven as PrimaiteRayMARLEnv drives it, and "
            "on scenarios without an RL agent through PrimaiteGame.step(); (d) on reward configurations with extreme but non-overflowing "
            "weights; comparing the bookkeeping with the model line by line. Obligation 'scripted agents are total under every response "
            "history': the real agent classes are driven standalone through C19's driver with bounded-exhaustive failure injection; a raise "
            "there is a broken obligation and the check then searches the disturbed-episode grid for an episode that realises it (else: "
            "no-failing-input-found). Tie: the call order of step/advance_timestep/apply_agent_actions/update_agents/reset (gym environment, "
            "MARL environment, PrimaiteGame.step), the truncation comparator (translated from source), the literal terminated=False, the "
            "single history append, the fields and the single construction site of AgentHistoryItem and the Literal of "
            "RequestResponse.status are regenerated from source (Gen/Episode.lean, obligations C01_gen_pipeline, C01_gen_history_item); the inventory of leaf request handlers is regenerated "
            "too and every handler returns a RequestResponse by construction on every path, four listed forwarding handlers excepted "
            "(Gen/EpisodeHandlers.lean against C05x's Gen/RequestSchema.lean, obligation C01_gen_handlers_return_responses). "
            "TOTALITY PROVED for one handler body: SoftwareManager.uninstall (behind node-application-remove and every replacing install) is "
            "translated statement by statement (Gen/EpisodeRegs.lean) into a statement language whose interpreter raises wherever the "
            "Python statement can (d[k], d.pop(k), remove_request); on every node reachable in C13's registries model by any operation "
            "sequence the translated body returns for every name and equals C13's Node.uninstall (C01_uninstall_total, "
            "C01_uninstall_refines; SoftwareManager.install is translated too, its only raising statement is the eviction through uninstall, so it returns "
            "for every class and configuration on every reachable node given that constructors and lifecycle calls return (C01_install_total, "
            "C01_gen_install_body); C01_tidied_uninstall_raises shows the direct-pop variant raising on two applications that share a "
            "(port, protocol) key). Rig family (e) CO-LOCATED PAIRS: for every action type that names a node and a target inside it, every "
            "ordered pair of distinct targets of one node / folder / access list (applications incl. every installable one, installed at run "
            "time by a preceding step; services; files; folders; NICs; users; ACL positions) - all same-type pairs of the types that change "
            "the inventory, a seeded sample of the other same-type and of the cross-type pairs in quick, all of them plus triples in thorough "
            "- packed into episodes of the real environment; a failing episode is shrunk to a minimal sequence and action map. Families (f) one "
            "well-formed instance of EVERY action type on the first node of every kind, run with the save_agent_actions / save_step_metadata / "
            "save_agent_logs options ON (scratch directory) with a reset after every episode and a final close, and (g) the same instances with "
            "each optional field omitted; in (e)-(g) the extra oracle 'a handler never mutates the request it was given' (the stored request "
            "equals the re-formed one, types included).",
    "note": "C01-specific: Python exceptions inside handlers/observations/rewards and float overflow are outside the model; totality is "
            "validated by execution only (one or two blue disturbances per episode, one reset seed per scenario and run). Scenario families: "
            "shipped scenarios x generated action maps and members of the generated topology families (switched LAN, routed, firewall+DMZ) "
            "from harness/gen/scenario.py. Reward weights of magnitude 1e308 overflow to inf/nan by IEEE arithmetic: treated as outside the "
            "property's domain (counted in the evidence, never reported). The RLlib wrappers (PrimaiteRayEnv, PrimaiteRayMARLEnv) cannot be "
            "imported here (ray.rllib needs dm_tree); their step/reset order is pinned by Gen and mirrored by the rig's own driver.",
    "technique": "Lean 4 induction over action sequences on a parametric episode model; regenerated pipeline table; differential env rig "
                 "with disturbed long episodes sharded over worker processes; standalone agent-totality sweep with search",
    "design_ref": "5/C01",
}
MODULES = ["PrimaiteModel.Props.C01", "PrimaiteModel.Props.C01Handlers", "PrimaiteModel.Props.C01Regs"]
EXE = "drv_c01"
QUICK = ["data_manipulation", "basic_firewall", "test_primaite_session", "wireless_wan_network_config", "uc7_config"]
QUICK_DISTURB = ["uc7_config", "uc7_config_tap003", "data_manipulation"]
GRID = ["uc7_config", "uc7_config_tap003", "data_manipulation"]           # thorough: full action x bucket grid
# not usable as single-agent gym scenarios: malformed on purpose (bad_*, eval_only: agent_settings null), no nodes, a config that needs a
# plug-in node type.  Scenarios with two proxy agents are driven through the MARL driver instead.
SKIP = {"bad_primaite_session", "no_nodes_links_agents_network", "eval_only_primaite_session", "extended_config"}
MARL = ["multi_agent_session", "data_manipulation_marl"]
PAIRS_QUICK = ["data_manipulation"]
PAIRS_THOROUGH = ["data_manipulation", "basic_firewall", "uc7_config", "multi_lan_internet_network_example"]
CHUNK = 5            # disturbed episodes per unit (one environment, one reset per episode)

_SEGS: List[tuple] = []      # (first line, end line, unit, variant, max_len, marl, scenario_dir, ops) of every play merged so far


# ================================================================================================ units (executed in workers)
def _load(name: str) -> Dict:
    return scen.load_cfg(scen.shipped()[name])


def _resolve_cfg(spec: dict) -> Tuple[Optional[Dict], List[str]]:
    """Build the scenario configuration a unit asks for.  Returns (cfg | None, notes)."""
    notes: List[str] = []
    if "cfg" in spec:
        return copy.deepcopy(spec["cfg"]), notes
    if "family" in spec:
        from harness.gen import scenario as gscen
        try:
            cfg = gscen.gen_scenario(spec["rng"].fork("g"), size=spec["size"], family=spec["family"], shadowing=spec["shadowing"])
        except Exception as e:
            return None, [f"generator failed for {spec['label']}: {type(e).__name__}: {str(e)[:100]}"]
        cfg = envrig.with_proxy(cfg)
    elif "sched_entry" in spec:
        d, k = spec["sched_entry"]
        cfg = envrig.schedule_entries(envrig.scheduled_dirs()[d])[k]
    else:
        try:
            cfg = _load(spec["scenario"])
        except Exception as e:
            return None, [f"{spec['scenario']}: not loadable: {type(e).__name__}: {str(e)[:100]}"]
        if envrig.proxy_agent_cfg(cfg) is None:
            cfg = envrig.with_proxy(cfg)
            notes.append("scenario-given-a-minimal-proxy-agent")
    if spec.get("aug"):
        try:
            aug = envrig.augmented(cfg, spec["rng"].fork("aug"), spec["aug"])
        except Exception as e:
            return None, notes + [f"{spec.get('label')}: augmented map not built: {type(e).__name__}: {str(e)[:100]}"]
        if aug is None:
            return None, notes
        cfg = aug
    return cfg, notes


def _dump(cfg: Optional[Dict]) -> str:
    """Scenario configurations are stored in replays as YAML text: JSON would turn the integer keys (router ports, ACL positions,
    action numbers) into strings and the scenario would no longer load."""
    import yaml
    return yaml.safe_dump(cfg, sort_keys=False)


def _cfg_of(rp: dict) -> Dict:
    import yaml
    if "cfg_yaml" in rp:
        return yaml.safe_load(rp["cfg_yaml"])
    if "shipped" in rp:       # corpus witnesses name the shipped scenario instead of carrying a copy of it
        return _load(rp["shipped"])
    return rp["cfg"]


def _new_rec(unit: dict) -> dict:
    return {"label": unit.get("label", ""), "kind": unit["kind"], "lines": [], "impl": [], "viol": [], "hist": {}, "cases": [], "samples": [],
            "notes": [], "traces": 0, "extra": {}, "wall": 0.0, "segs": []}


def _count(rec: dict, key: str, n: int = 1):
    rec["hist"][key] = rec["hist"].get(key, 0) + n


def _sig(f: dict) -> dict:
    """Narrow identity of a defect: what failed, which exception, raised where (innermost primaite frame).  The blue action of the
    failing step is in the replay, not in the signature: an exception in a scripted agent or a service surfaces under whatever
    blue happened to do in that step."""
    sig = {"kind": f["kind"]}
    for k in ("exc", "where"):
        if f.get(k) is not None:
            sig[k] = f[k]
    return sig


def _absorb(rec: dict, p: envrig.Play, scenario: str, variant: str, cfg: Optional[Dict], max_len: Optional[int], marl: bool = False,
            scenario_dir: Optional[str] = None, ops_override: Optional[List[Any]] = None, extra_what: str = ""):
    """Fold one play into the unit's record: model lines, violations with re-executable replays, histogram."""
    rec["lines"] += p.lines
    rec["impl"] += p.impl
    rec["segs"].append((len(p.lines), variant, max_len, marl, scenario_dir, list(p.log)))
    rec["traces"] += 1
    for k, v in p.surface.items():
        _count(rec, "surface:" + k, v)
    _count(rec, "steps", p.steps)
    _count(rec, "op:reset", p.resets)
    for f in p.fails:
        ops = ops_override if ops_override is not None else f.get("log", p.log)
        if "exc" in f:
            what = (f"{scenario}/{variant}: {f['kind']} {f.get('exc', '')} {f.get('msg', '')[:160]} at {f.get('where', '')} "
                    f"action={f.get('action')} options={f.get('options')} tick={f.get('tick')} {extra_what}")
        else:
            det = {k: v for k, v in f.items() if k not in ("kind", "log")}
            what = f"{scenario}/{variant}: {f['kind']} {det} after {len(ops)} operations {extra_what}"
        replay = {"kind": "scheduled" if scenario_dir else "env", "scenario": scenario, "variant": variant, "marl": marl, "max_len": max_len,
                  "ops": ops, "failure": {k: v for k, v in f.items() if k != "log"}}
        if scenario_dir:
            replay["scenario_dir"] = scenario_dir
        else:
            replay["cfg_yaml"] = _dump(cfg)
        rec["viol"].append({"sig": _sig(f), "what": what, "replay": replay,
                            "agent_file": f.get("agent_file"), "kind": f["kind"]})


def _scripted_hist(rec: dict, p: envrig.Play, prefix: str):
    for name, st in p.scripted.items():
        if st.get("team") != "RED":
            continue
        _count(rec, f"{prefix}:red-actions", st["actions"])
        _count(rec, f"{prefix}:red-actions-not-success", st["not_success"])
        for stg, n in st["failed_in_stage"].items():
            _count(rec, f"{prefix}:red-failed-in-stage:{st['type']}:{stg}", n)
        for shape, n in st["shapes"].items():
            rec["extra"].setdefault("shapes", {})
            rec["extra"]["shapes"][shape] = rec["extra"]["shapes"].get(shape, 0) + n
        if st["stages"]:
            _count(rec, f"{prefix}:episodes-ending-in:{st['type']}:{st['stages'][-1]}")


def _do_case(rec: dict, unit: dict):
    cfg, notes = _resolve_cfg(unit)
    for n in notes:
        if n == "scenario-given-a-minimal-proxy-agent":
            _count(rec, n)
        else:
            rec["notes"].append(n)
    if cfg is None:
        return
    if "scenario-given-a-minimal-proxy-agent" in notes and unit["variant"] == "shipped-map":
        return      # a scenario shipped without an RL agent has no action map of its own; only the generated maps are run
    rng: Rng = unit["rng"]
    max_len = unit["max_len"]
    ops = envrig.gen_ops(rng.fork("ops"), envrig.n_actions_of(cfg), unit["episodes"], max_len + 3)
    p = envrig.run_ops(cfg, ops, max_len)
    _absorb(rec, p, unit["label"], unit["variant"], cfg, max_len)
    _count(rec, "case:" + unit["variant"].split("-")[0])
    amap = (envrig.proxy_agent_cfg(cfg) or {}).get("action_space", {}).get("action_map", {})
    for i, a in enumerate(p.log):
        if isinstance(a, int):
            ident = (amap.get(a) or {}).get("action", "?")
            _count(rec, "action:" + ident)
            rec["cases"].append((f"{unit['label']}|{unit['variant']}|{i}|{a}", ident != "do-nothing"))
    rec["samples"].append({"scenario": unit["label"], "variant": unit["variant"], "ops": p.log[:14], "impl": p.impl[2:6]})


def _do_sched(rec: dict, unit: dict):
    path = envrig.scheduled_dirs()[unit["dir"]]
    p = envrig.run_scheduled(path, unit["rng"], extra_resets=3, steps=unit["steps"])
    _absorb(rec, p, unit["dir"], "scheduled", None, None, scenario_dir=str(path),
            extra_what=f"(reset #{(p.raised or {}).get('reset_number')}, schedule length {(p.raised or {}).get('schedule_length')})")
    _count(rec, "case:scheduled")
    for i, a in enumerate(p.log):
        _count(rec, "scheduled-step" if isinstance(a, int) else "scheduled-op")
        rec["cases"].append((f"{unit['dir']}|{i}|{a}", isinstance(a, int)))


def _do_marl(rec: dict, unit: dict):
    """Scenario with several RL agents, driven through PrimaiteGame as PrimaiteRayMARLEnv does."""
    try:
        cfg = _load(unit["scenario"])
    except Exception as e:
        rec["notes"].append(f"{unit['scenario']}: not loadable: {type(e).__name__}")
        return
    rng: Rng = unit["rng"]
    sizes = {a["ref"]: len(a.get("action_space", {}).get("action_map", {})) or 1 for a in envrig.proxy_agent_cfgs(cfg)}
    max_len = unit["max_len"]
    ops: List[Any] = []
    for ep in range(unit["episodes"]):
        ops.append(["reset", rng.below(2 ** 31), None])
        k = max_len + 3 if ep else rng.range(1, max_len)
        for _ in range(k):
            if rng.chance(1, 10):
                ops.append(["mask"])
            ops.append({ref: rng.below(n) for ref, n in sizes.items()})
    p = envrig.run_ops(cfg, ops, max_len, marl=True)
    _absorb(rec, p, unit["scenario"], "marl", cfg, max_len, marl=True)
    _count(rec, "case:marl")
    _count(rec, f"marl:rl-agents:{len(sizes)}")
    _count(rec, "marl:agents-in-scenario", len(cfg.get("agents", [])))
    for i, a in enumerate(p.log):
        if isinstance(a, dict):
            _count(rec, "marl-step")
            rec["cases"].append((f"{unit['scenario']}|marl|{i}|{json.dumps(a, sort_keys=True)}", any(v != 0 for v in a.values())))
    rec["samples"].append({"scenario": unit["scenario"], "variant": "marl", "ops": p.log[:6], "impl": p.impl[2:5]})


def _do_game(rec: dict, unit: dict):
    """Scenario shipped WITHOUT an RL agent, advanced by `PrimaiteGame.step()` itself."""
    try:
        cfg = _load(unit["scenario"])
    except Exception as e:
        rec["notes"].append(f"{unit['scenario']}: not loadable: {type(e).__name__}")
        return
    rng: Rng = unit["rng"]
    max_len = unit["max_len"]
    ops: List[Any] = []
    for ep in range(unit["episodes"]):
        ops.append(["reset", rng.below(2 ** 31), None])
        ops += [0] * (max_len + 3 if ep else rng.range(1, max_len))
    p = envrig.run_ops(cfg, ops, max_len, marl="game")
    _absorb(rec, p, unit["scenario"], "game.step", cfg, max_len, marl="game")
    _count(rec, "case:game.step")
    _count(rec, "game.step:steps", p.steps)
    _count(rec, "game.step:agents-in-scenario", len(cfg.get("agents", [])))
    rec["cases"].append((f"{unit['scenario']}|game.step|{len(ops)}", True))


def _do_probe(rec: dict, unit: dict):
    cfg, notes = _resolve_cfg(unit)
    rec["notes"] += [n for n in notes if n != "scenario-given-a-minimal-proxy-agent"]
    if cfg is None:
        return
    p, buckets = dist.probe(cfg, unit["seed"], unit.get("length"))
    max_len = int((cfg.get("game") or {}).get("max_episode_length", 256))
    _absorb(rec, p, unit["label"], "undisturbed-probe" if not unit.get("no_plan") else "undisturbed-long-episode", cfg, max_len)
    _scripted_hist(rec, p, "probe")
    _count(rec, "case:probe" if not unit.get("no_plan") else "case:long-undisturbed")
    _count(rec, "undisturbed:steps", p.steps)
    for name, st in p.scripted.items():
        _count(rec, f"undisturbed:scripted-actions:{st['type']}", st["actions"])
    rec["cases"].append((f"{unit['label']}|probe|{unit['seed']}", True))
    rec["extra"]["buckets"] = buckets
    rec["extra"]["relevant"] = dist.relevant_actions(cfg)
    rec["extra"]["n_actions"] = len(dist.blue_map(cfg))
    rec["extra"]["red_types"] = sorted({a.get("type") for a in dist.red_agents(cfg)})
    rec["extra"]["probe_ok"] = p.raised is None and p.steps == min(max_len, unit.get("length") or max_len)


def _run_episode(env, cfg, ops, max_len, fresh_check: bool, announce: bool = True):
    """One episode inside a long-lived environment; a failure is re-executed in a FRESH environment so that the replay is
    the single episode whenever that reproduces it (otherwise the replay is everything this environment has executed)."""
    p = envrig.play(env, ops, max_len, announce=announce)
    if p.fails and fresh_check:
        q = envrig.run_ops(cfg, ops, max_len)
        if {f["kind"] for f in q.fails} >= {f["kind"] for f in p.fails}:
            return p, True
        return p, False
    return p, True


def _do_disturb(rec: dict, unit: dict):
    cfg, notes = _resolve_cfg(unit)
    rec["notes"] += notes
    if cfg is None:
        return
    max_len = int((cfg.get("game") or {}).get("max_episode_length", 256))
    try:
        env = envrig.make_driver(cfg)
    except Exception as e:
        rec["viol"].append({"sig": {"kind": "env-construction-raises", "exc": type(e).__name__}, "what": f"{unit['label']}: constructor raises {e}",
                            "replay": {"kind": "env", "scenario": unit["label"], "cfg_yaml": _dump(cfg), "ops": [], "marl": False, "max_len": max_len},
                            "agent_file": None, "kind": "env-construction-raises"})
        return
    amap = dist.blue_map(cfg)
    history: List[Any] = []
    for it in unit["items"]:
        ops = dist.episode_ops(cfg, unit["seed"], it["dist"])
        p, single = _run_episode(env, cfg, ops, max_len, True, announce=not history)
        history += ops
        desc = "+".join(f"{amap[a]['action']}@{t}" for t, a in it["dist"])
        _absorb(rec, p, unit["label"], f"disturbed[{desc}]", cfg, max_len, ops_override=None if single else list(history),
                extra_what="" if single else "(needs the earlier episodes of the same environment)")
        _scripted_hist(rec, p, "disturbed")
        _count(rec, "case:disturbed:" + it["why"].split(":")[0])
        for b in it["buckets"]:
            _count(rec, f"disturbed:bucket:{unit['label']}:{b}")
        for t, a in it["dist"]:
            _count(rec, "disturbance:" + amap[a]["action"])
        rec["cases"].append((f"{unit['label']}|disturbed|{unit['seed']}|{it['dist']}", True))
        rec["extra"].setdefault("episodes", []).append({"dist": it["dist"], "why": it["why"], "buckets": it["buckets"], "steps": p.steps,
                                                        "raised": (p.raised or {}).get("exc")})
        if p.raised:     # the environment object may be half-way through a step: start over with a new one
            try:
                env = envrig.make_driver(cfg)
                history = []
            except Exception:
                break
    if unit.get("sample"):
        rec["samples"].append({"scenario": unit["label"], "variant": "disturbed", "episodes": rec["extra"].get("episodes", [])[:3]})


def _do_agents(rec: dict, unit: dict):
    from harness.rigs import c01_agents as ag
    import primaite.game.game  # noqa: F401  (registers actions and agents)
    rng: Rng = unit["rng"]
    raises: List[dict] = []
    if unit["family"] == "sweep":
        r = ag.sweep(unit["agent"], rng, unit["thorough"], unit["n_cfg"], unit["n_pairs"], tuple(unit.get("shard", (0, 1))))
        raises = r["raises"]
        _count(rec, f"agents:sweep:{unit['agent']}:configurations whose all-success run does not reach SUCCEEDED (scan attempts exhausted / stage failed)",
               len(r["notes"]))
        for k, v in r["hist"].items():
            _count(rec, "agents:inject:" + k, v)
        _count(rec, f"agents:sweep:{unit['agent']}:cases", r["cases"])
        _count(rec, f"agents:sweep:{unit['agent']}:steps", r["steps"])
        _count(rec, f"agents:sweep:{unit['agent']}:configurations", r["configs"])
        if r.get("rejected"):
            _count(rec, f"agents:sweep:{unit['agent']}:configurations REJECTED at construction with a ValueError (no environment exists; outside C01)", r["rejected"])
        rec["cases"] += [(f"sweep|{unit['agent']}|{k}", True) for k in r["hist"]]
        rec["extra"]["evals"] = r["cases"]
    else:
        for kind, n in unit["kinds"]:
            r = ag.c19_family(kind, rng.fork(kind), n)
            raises += r["raises"]
            _count(rec, f"agents:c19-family:{kind}:cases", r["cases"])
            _count(rec, f"agents:c19-family:{kind}:steps", r["steps"])
            if r.get("skipped"):
                _count(rec, f"agents:c19-family:{kind}:configurations REJECTED at construction with a ValueError (no environment exists; outside C01)", r["skipped"])
            rec["extra"]["evals"] = rec["extra"].get("evals", 0) + r["cases"]
    rec["traces"] += rec["extra"].get("evals", 0)
    for x in raises:
        x["agent_type"] = ag.agent_type_of(x)
    rec["extra"]["raises"] = raises


def _do_rewards(rec: dict, unit: dict):
    """Reward configurations with extreme weights (harness/rigs/c01_rewards.py)."""
    from harness.rigs import c01_rewards as rw
    try:
        cfg = _load(unit["scenario"])
    except Exception as e:
        rec["notes"].append(f"{unit['scenario']}: not loadable: {type(e).__name__}")
        return
    for k in range(unit["n"]):
        mode = "bounded" if k % 3 else "overflow"
        p, st = rw.run(cfg, unit["rng"].fork(f"r{k}"), mode, unit["episodes"], unit["steps"])
        _absorb(rec, p, unit["scenario"], f"reward-weights-{mode}-{k}", st["cfg"], unit["steps"] + 5)
        _count(rec, f"reward-extremes:{mode}:runs")
        _count(rec, f"reward-extremes:{mode}:steps", p.steps)
        if mode == "overflow":
            _count(rec, "reward-extremes:overflow:non-finite-values-seen (out of domain, not reported)", st["non_finite"])
            _count(rec, "reward-extremes:overflow:runs-that-raised", 1 if p.raised else 0)
        for w in st["weights"]:
            _count(rec, f"reward-extremes:weight:{w!r}")
        rec["cases"].append((f"{unit['scenario']}|rewards|{mode}|{st['weights']}", True))


def _do_corpus(rec: dict, unit: dict):
    w = json.loads(open(unit["file"]).read())
    rp = w["replay"]
    _count(rec, "corpus:replayed")
    rec["cases"].append(("corpus|" + unit["label"], True))
    if rp.get("kind", "env") == "env":
        p = envrig.run_ops(_cfg_of(rp), rp["ops"], rp.get("max_len"), marl=rp.get("marl") or False)
        _absorb(rec, p, rp.get("scenario", unit["label"]), "corpus:" + unit["label"], _cfg_of(rp), rp.get("max_len"), marl=rp.get("marl") or False)
        _scripted_hist(rec, p, "corpus")
    elif not replay(w):
        rec["viol"].append({"sig": w.get("sig", {"kind": "corpus"}), "what": f"corpus witness {unit['label']} fails again: {w.get('what', '')[:200]}",
                            "replay": rp, "agent_file": None, "kind": "corpus"})


def _do_settings(rec: dict, unit: dict):
    """A shipped scenario whose scripted agent of one type carries other agent_settings (harness/rigs/c01_settings.py)."""
    from harness.rigs import c01_settings as cs
    hs = cs.hosts(unit["agent_type"])
    if not hs:
        rec["notes"].append(f"no shipped single-agent scenario has a {unit['agent_type']}: settings {unit['overrides']} not placed")
        return
    name, base = hs[unit.get("host", 0) % len(hs)]
    steps = unit["steps"]
    cfg, ref = cs.with_settings(base, unit["agent_type"], unit["overrides"], unit.get("probs"), max_len=steps)
    rng: Rng = unit["rng"]
    n = envrig.n_actions_of(cfg)
    idle = dist.do_nothing_action(cfg)
    ops: List[Any] = []
    for ep in range(unit.get("episodes", 2)):
        ops.append(["reset", rng.below(2 ** 31), None])
        ops += [(rng.below(n) if unit.get("random_blue") and rng.chance(1, 3) else idle) for _ in range(steps + 2)]
    p = envrig.run_ops(cfg, ops, steps)
    label = f"{name}[{unit['agent_type']} {ref}: {unit['overrides'] or unit.get('probs')}]"
    if p.raised and p.raised["kind"] == "env-construction-raises" and p.raised.get("exc") in ("ValueError", "ValidationError"):
        _count(rec, "settings:configurations REJECTED at load with a ValueError (outside C01)")
        return
    _absorb(rec, p, label, "agent-settings:" + unit.get("why", "boundary"), cfg, steps)
    _count(rec, "case:agent-settings:" + unit.get("why", "boundary"))
    for k, v in unit["overrides"].items():
        _count(rec, f"agent-settings:{k}={v}")
    st = p.scripted.get(ref) or {}
    _count(rec, f"agent-settings:{unit['agent_type']}:actions-executed", st.get("actions", 0))
    rec["cases"].append((f"{label}|{len(ops)}", True))


def _do_pairs(rec: dict, unit: dict):
    envrig.CHECK_REQUESTS = True
    try:
        _do_pairs_inner(rec, unit)
    finally:
        envrig.CHECK_REQUESTS = False


def _do_pairs_inner(rec: dict, unit: dict):
    """Ordered pairs / triples of actions on co-located targets, every action type, optional fields omitted (harness/rigs/c01_pairs.py)."""
    from harness.rigs import c01_pairs as cp
    cfg, notes = _resolve_cfg(unit)
    rec["notes"] += [n for n in notes if n != "scenario-given-a-minimal-proxy-agent"]
    if cfg is None:
        return
    rng: Rng = unit["rng"]
    plan = cp.Plan(cfg)
    if unit.get("io_on"):       # the save_* options that write per-episode files, ON (files go to a scratch directory)
        import tempfile
        from pathlib import Path
        import primaite.session.io as pio
        pio.PRIMAITE_PATHS.user_sessions_path = Path(tempfile.mkdtemp(prefix="c01_io_"))
        cfg = copy.deepcopy(cfg)
        cfg.setdefault("io_settings", {}).update({"save_agent_actions": True, "save_step_metadata": True, "save_agent_logs": True})
        plan = cp.Plan(cfg)
    if unit["group"] in ("every", "optional"):
        plan.build_variants(unit["group"])
    else:
        plan.build(unit["group"], rng, unit["thorough"], unit["cross_cap"], unit["triple_cap"], unit["dedupe"], unit.get("same_cap", 10 ** 9))
    for k, v in plan.stats.items():
        _count(rec, f"pairs:{unit['label']}:{k}", v)
    if not plan.segments:
        return
    pcfg = plan.cfg()
    max_steps = unit["max_steps"]
    max_len = max_steps + 8
    pcfg.setdefault("game", {})["max_episode_length"] = max_len
    eps = plan.episodes(max_steps)
    if unit.get("episode_cap") and len(eps) > unit["episode_cap"]:
        _count(rec, f"pairs:{unit['label']}:episodes NOT run (cap)", len(eps) - unit["episode_cap"])
        eps = rng.fork("cap").shuffle(eps)[:unit["episode_cap"]]
    env = None
    history: List[Any] = []
    failed = 0
    seen_sigs: set = set()
    for k, segs in enumerate(eps):
        if failed >= 3 * max(1, len(seen_sigs)) or failed >= 24:      # enough witnesses: the rest of the plan is not run (the check is red anyway)
            _count(rec, f"pairs:{unit['label']}:episodes NOT run after repeated failures", len(eps) - k)
            break
        if env is None:
            try:
                env = envrig.make_driver(pcfg)
                history = []
            except Exception as e:
                rec["viol"].append({"sig": {"kind": "env-construction-raises", "exc": type(e).__name__}, "what": f"{unit['label']}: constructor raises {e}",
                                    "replay": {"kind": "env", "scenario": unit["label"], "cfg_yaml": _dump(pcfg), "ops": [], "marl": False, "max_len": max_len},
                                    "agent_file": None, "kind": "env-construction-raises"})
                return
        ops: List[Any] = [["reset", rng.fork(f"seed{k}").below(2 ** 31), None]]
        for sg in segs:
            ops += sg["ops"]
        ops += [0] * (5 if unit["group"] in ("every", "optional") else 1)     # idle steps: effects that ripen a few ticks later (countdowns)
        if unit.get("io_on"):       # an episode's files are written by the NEXT reset (and by close()): keep every episode self-contained
            ops += [["reset", 1, None]] + ([0, ["close"]] if k == len(eps) - 1 else [])
        p = envrig.play(env, ops, max_len, announce=not history)
        history += ops
        desc = " | ".join(f"{sg['node']}:" + ">".join(f"{i}({t})" for i, t in sg["steps"]) for sg in segs[:3])
        sigs_now = {json.dumps(_sig(f), sort_keys=True) for f in p.fails}
        if p.fails and sigs_now <= seen_sigs:
            # the same defect class again (e.g. an open finding met on another node): counted, not minimised and reported a second time
            _count(rec, "pairs:episodes-that-failed-again-with-an-already-reported-signature")
            failed += 1
        elif p.fails:
            seen_sigs |= sigs_now
            kinds = {f["kind"] for f in p.fails}
            q = envrig.run_ops(pcfg, ops, max_len)
            if {f["kind"] for f in q.fails} & kinds:
                mcfg, mops = cp.minimise(pcfg, ops, max_len, {f["kind"] for f in q.fails} & kinds)
                p2 = envrig.run_ops(mcfg, mops, max_len)
                amap = envrig.proxy_agent_cfg(mcfg)["action_space"]["action_map"]
                seq = " ; ".join(f"{amap[a]['action']} {amap[a]['options']}" for a in mops if isinstance(a, int) and a in amap)
                _absorb(rec, p2, unit["label"], f"co-located-pairs:{unit['group']}", mcfg, max_len, extra_what=f"(minimal sequence: {seq[:600]})")
            else:
                _absorb(rec, p, unit["label"], f"co-located-pairs:{unit['group']}[{desc[:200]}]", pcfg, max_len, ops_override=list(history),
                        extra_what="(needs the earlier episodes of the same environment)")
            _count(rec, "pairs:episodes-that-failed")
            failed += 1
        else:
            _absorb(rec, p, unit["label"], f"co-located-pairs:{unit['group']}", pcfg, max_len)
        _count(rec, "case:pairs:" + unit["group"])
        for sg in segs:
            _count(rec, f"pairs:segments-run:{sg['kind']}:{sg['family']}")
            for i, _t in sg["steps"]:
                _count(rec, "pairs:action:" + i)
            rec["cases"].append((f"{unit['label']}|pairs|{sg['node']}|{sg['scope']}|{sg['steps']}", True))
        if p.raised:
            env = None
    rec["samples"].append({"scenario": unit["label"], "variant": "co-located-pairs:" + unit["group"],
                           "first_episode": [f"{sg['node']}:{sg['steps']}" for sg in eps[0][:4]], "episodes": len(eps), "action_map": len(plan.amap)})


KINDS = {"pairs": _do_pairs, "settings": _do_settings, "game": _do_game, "corpus": _do_corpus, "rewards": _do_rewards, "case": _do_case, "sched": _do_sched, "marl": _do_marl, "probe": _do_probe, "disturb": _do_disturb, "agents": _do_agents}


def _exec_unit(unit: dict) -> dict:
    t0 = time.time()
    rec = _new_rec(unit)
    try:
        KINDS[unit["kind"]](rec, unit)
    except Exception:
        import traceback
        rec["broken"] = traceback.format_exc()[-1500:]
    rec["wall"] = time.time() - t0
    if os.environ.get("C01_PROGRESS"):      # optional progress log (one line per finished unit); never read by the check
        try:
            with open(os.environ["C01_PROGRESS"], "a") as fh:
                fh.write(f"{time.strftime('%H:%M:%S')} {unit['kind']}:{unit.get('label', '')} {rec['wall']:.1f}s viol={len(rec['viol'])}\n")
        except OSError:
            pass
    return rec


def _pool_map(units: List[dict], n_workers: int) -> List[dict]:
    if not units:
        return []
    n_workers = max(1, min(n_workers, len(units)))
    if n_workers == 1:
        return [_exec_unit(u) for u in units]
    import multiprocessing as mp
    order = sorted(range(len(units)), key=lambda i: -units[i].get("weight", 1))     # longest first; results are merged in unit order
    with mp.get_context("fork").Pool(n_workers, maxtasksperchild=6) as pool:
        got = pool.map(_exec_unit, [units[i] for i in order], chunksize=1)
    recs: List[Optional[dict]] = [None] * len(units)
    for i, r in zip(order, got):
        recs[i] = r
    return recs  # type: ignore


# ================================================================================================ unit construction
def _phase1(ctx: Ctx, rng: Rng) -> List[dict]:
    units: List[dict] = []
    shipped = scen.shipped()
    names = [n for n in QUICK if n in shipped] if not ctx.thorough else [n for n in shipped if n not in SKIP and n not in MARL]
    r_env = rng.fork("env")
    for name in names:
        heavy = 30 if name.startswith("uc7") else 6
        slow = name.startswith("nmap_")       # a scripted agent scans a whole subnet at every step (seconds per step): kept short
        for v in range(-1, 1 if slow else ctx.scale(2, 3)):
            variant = "shipped-map" if v < 0 else f"generated-map-{v}"
            units.append({"kind": "case", "label": name, "scenario": name, "variant": variant, "rng": r_env.fork(name + variant),
                          "aug": None if v < 0 else ctx.scale(60, 150), "max_len": 7 if slow else r_env.choice([7, 19, 33]),
                          "episodes": 2 if slow else ctx.scale(3, 4), "weight": 40 if slow else heavy})
    from harness.gen import scenario as gscen
    r_gen = rng.fork("gen-scenarios")
    for k in range(ctx.scale(4, 18)):
        fam = gscen.FAMILIES[k % len(gscen.FAMILIES)]
        for variant, aug in (("own-map", None), ("generated-map-0", ctx.scale(50, 120))):
            units.append({"kind": "case", "label": f"generated-{fam}-{k}", "family": fam, "size": 1 + k % 3, "shadowing": (k % 2 == 0),
                          "variant": variant, "aug": aug, "rng": r_gen.fork(f"g{k}"), "max_len": r_gen.choice([7, 19, 33]),
                          "episodes": ctx.scale(3, 4), "weight": 5})
    for name in envrig.scheduled_dirs():
        if not ctx.thorough and name.startswith("uc7"):
            continue  # 20 schedule entries x 34 agents: thorough tier only
        units.append({"kind": "sched", "label": name, "dir": name, "rng": rng.fork("sched" + name), "steps": ctx.scale(6, 14),
                      "weight": 60 if name.startswith("uc7") else 8})
    for name in MARL:
        if name in shipped:
            units.append({"kind": "marl", "label": name, "scenario": name, "rng": rng.fork("marl" + name), "max_len": rng.choice([9, 21]),
                          "episodes": ctx.scale(2, 4), "weight": 6})
    for name, path in shipped.items():       # scenarios shipped without an RL agent but with scripted ones: PrimaiteGame.step()
        if name in SKIP:
            continue
        try:
            c = scen.load_cfg(path)
        except Exception:
            continue
        if c.get("agents") and not envrig.proxy_agent_cfgs(c):
            slow = name.startswith("nmap_")     # a scripted port scan of a whole subnet costs seconds per step: thorough tier only, short
            if slow and not ctx.thorough:
                continue
            units.append({"kind": "game", "label": name, "scenario": name, "rng": rng.fork("game" + name), "max_len": 9 if slow else rng.choice([9, 21]),
                          "episodes": 2 if slow else ctx.scale(2, 4), "weight": 40 if slow else 3})
    for name in ("data_manipulation", "shared_rewards"):
        if name in shipped:
            units.append({"kind": "rewards", "label": name, "scenario": name, "rng": rng.fork("rew" + name), "n": ctx.scale(6, 30),
                          "episodes": 2, "steps": ctx.scale(12, 30), "weight": 6})
    # ordered pairs / triples of actions of one target family on co-located targets (harness/rigs/c01_pairs.py)
    from harness.rigs import c01_pairs as cp
    r_pairs = rng.fork("pairs")
    pair_scenarios = [n for n in (PAIRS_THOROUGH if ctx.thorough else PAIRS_QUICK) if n in shipped]
    for name in pair_scenarios:
        big = name.startswith("uc7")
        for group in cp.GROUPS:
            units.append({"kind": "pairs", "label": name, "scenario": name, "group": group, "rng": r_pairs.fork(name + group),
                          "thorough": ctx.thorough and not big, "dedupe": True, "same_cap": ctx.scale(12, 10 ** 9),
                          "cross_cap": ctx.scale(12, 40 if big else 400), "triple_cap": ctx.scale(0, 20 if big else 150), "max_steps": 40,
                          "episode_cap": (6 if big else None) if ctx.thorough else None,
                          "weight": {"application": 25, "service": 12}.get(group, 5) * (3 if ctx.thorough else 1)})
        for group, io_on in (("every", True), ("optional", False)):
            if big:
                continue
            units.append({"kind": "pairs", "label": name, "scenario": name, "group": group, "io_on": io_on, "rng": r_pairs.fork(name + group),
                          "thorough": False, "dedupe": True, "cross_cap": 0, "triple_cap": 0, "max_steps": 40, "weight": 6})
    from harness.rigs import c01_settings as cs
    r_set = rng.fork("settings")
    for atype in ("periodic-agent", "red-database-corrupting-agent", "probabilistic-agent", "random-agent"):
        cs.hosts(atype)       # filled before the pool is forked
    for atype in ("periodic-agent", "red-database-corrupting-agent"):
        for i, ov in enumerate(cs.boundary_variants(r_set.fork(atype), ctx.scale(5, 40))):
            if atype != "periodic-agent" and i % 2:
                ov = {k: v for k, v in ov.items() if k != "max_executions"}
            units.append({"kind": "settings", "label": f"{atype}-boundary-{i}", "agent_type": atype, "overrides": ov, "steps": cs.steps_needed(ov, 40),
                          "rng": r_set.fork(f"{atype}{i}"), "random_blue": i % 2 == 1, "why": "boundary", "weight": 2})
    r_ag = rng.fork("agents")
    shards = ctx.scale(1, 8)      # the thorough sweep (256 / 48 configurations) is spread over several units
    for kind, n_cfg in (("tap1", 6), ("tap3", 6)):
        for i in range(shards):
            units.append({"kind": "agents", "label": f"sweep-{kind}" + (f"-{i}" if shards > 1 else ""), "family": "sweep", "agent": kind,
                          "rng": r_ag.fork("s" + kind), "thorough": ctx.thorough, "n_cfg": n_cfg, "n_pairs": 12, "shard": (i, shards),
                          "weight": (40 if kind == "tap1" else 15) if ctx.thorough else 8})
    n = ctx.scale(150, 800)
    units.append({"kind": "agents", "label": "c19-families", "family": "c19", "rng": r_ag.fork("c19"),
                  "kinds": [("periodic", n), ("prob", n), ("rand", n // 3), ("tap1", n), ("tap3", n)], "weight": 10 if ctx.thorough else 3})
    # undisturbed probes of the scenarios with scripted red agents
    for spec in _disturb_scenarios(ctx):
        units.append({"kind": "probe", **spec, "seed": rng.fork("probe" + spec["label"]).below(2 ** 31),
                      "weight": 35 if "uc7" in spec["label"] else 10})
    # long UNDISTURBED episodes (blue idle up to max_episode_length) of the scenarios that have no probe: thorough = every shipped
    # scenario, quick = a seeded sample of three (the uc7 scenarios and uc2 are already run to the end by their probes)
    probed = {u["label"] for u in units if u["kind"] == "probe"}
    rest = [n for n in shipped if n not in SKIP and n not in MARL and n not in probed]
    r_long = rng.fork("long")
    if not ctx.thorough:
        rest = r_long.shuffle([n for n in rest if not n.startswith("nmap_")])[:3]
    for n in rest:
        slow = n.startswith("nmap_")       # seconds per step: 36 steps (past the 30-tick session time-out), not 256
        units.append({"kind": "probe", "label": n + "(long)", "scenario": n, "seed": r_long.fork(n).below(2 ** 31), "no_plan": True,
                      "length": 36 if slow else None, "weight": 40 if slow else 8})
    return units


def _disturb_scenarios(ctx: Ctx) -> List[dict]:
    shipped = scen.shipped()
    if not ctx.thorough:
        return [{"label": n, "scenario": n} for n in QUICK_DISTURB if n in shipped]
    out = []
    for n, path in shipped.items():
        if n in SKIP or n in MARL:
            continue
        try:
            cfg = scen.load_cfg(path)
        except Exception:
            continue
        if dist.red_agents(cfg) and len(envrig.proxy_agent_cfgs(cfg)) == 1:
            out.append({"label": n, "scenario": n})
    seen = set()
    for dname, path in envrig.scheduled_dirs().items():
        try:
            entries = envrig.schedule_entries(path)
        except Exception:
            continue
        for k, cfg in enumerate(entries):
            reds = dist.red_agents(cfg)
            key = json.dumps([a.get("agent_settings") for a in reds], sort_keys=True, default=str) + dname
            if reds and len(envrig.proxy_agent_cfgs(cfg)) == 1 and key not in seen:
                seen.add(key)
                out.append({"label": f"{dname}#{k}", "sched_entry": (dname, k)})
    return out


def _phase2(ctx: Ctx, rng: Rng, probes: List[Tuple[dict, dict]]) -> List[dict]:
    units: List[dict] = []
    for unit, rec in probes:
        ex = rec.get("extra", {})
        if not ex.get("buckets") or not ex.get("probe_ok"):
            continue
        spec = {k: unit[k] for k in ("label", "scenario", "sched_entry") if k in unit}
        cfg, _ = _resolve_cfg(spec)
        if cfg is None:
            continue
        r = rng.fork("plan" + unit["label"])
        big = "uc7" in unit["label"]
        if ctx.thorough:
            if unit["label"] in GRID:       # every action of the map in every bucket, plus pairs
                items = dist.plan(cfg, ex["buckets"], r, True, n_sample=0, n_pairs=8, cap=130 if big else 220)
            else:                           # the other scenarios: relevant action x bucket cells (a seeded sample of 12), a few others, pairs
                rel = set(ex["relevant"])
                cells = [it for it in dist.plan(cfg, ex["buckets"], r, True, 0, 0, cap=10 ** 6) if it["dist"][0][1] in rel]
                items = r.shuffle(cells)[:12]
                items += [it for it in dist.plan(cfg, ex["buckets"], r.fork("s"), False, 2, 2, cap=0)]
        else:
            # quick: the relevant actions (capped; different action types first), a few of the others, a few pairs
            n_rel = len(ex.get("relevant") or [])
            # (sized so that the quick tier stays below ~120 s with 4 workers on a moderately loaded machine: a TAP001 episode costs ~10 s)
            cap = min(n_rel, 8 if n_rel <= 24 else 6) if big else 10
            items = dist.plan(cfg, ex["buckets"], r, False, n_sample=1, n_pairs=2, cap=cap)
        chunk = CHUNK if ctx.thorough else 3
        for i in range(0, len(items), chunk):
            units.append({"kind": "disturb", **spec, "seed": unit["seed"], "items": items[i:i + chunk], "sample": i == 0,
                          "weight": (14 if big else 5) * len(items[i:i + chunk])})
    return units


# ================================================================================================ replay
def _model_diff(lines: List[str], impl: List[str]) -> List[Tuple[int, str, str, str]]:
    model = run_driver(EXE, lines) if lines else []
    bad = [(i, q, a, b) for i, (q, a, b) in enumerate(zip(lines, impl, model)) if a != b]
    if len(model) != len(impl):
        bad.append((min(len(model), len(impl)), "<length>", str(len(impl)), str(len(model))))
    return bad


def replay(rec: dict) -> bool:
    rp = rec["replay"]
    kind = rp.get("kind", "env")
    if kind == "agent-obligation":
        from harness.rigs import c01_agents as ag
        import primaite.game.game  # noqa: F401
        x = rp["raise"]
        if x.get("inject") is not None and x.get("agent") in ("tap1", "tap3"):
            r = ag.drive(x["agent"], x["case"], {int(k): tuple(v) for k, v in x["inject"].items()}, 90,
                         us=[tuple(u) for u in x["us"]] if x.get("us") else None)
            return r["raise"] is None
        from harness.rigs import agents as c19rig
        impl, _, _ = c19rig.run_impl(x["case"])
        return not any(l.startswith("raised") for l in impl)
    if kind == "scheduled" or "scenario_dir" in rp:
        from primaite.session.environment import PrimaiteGymEnv
        try:
            env = PrimaiteGymEnv(env_config=rp["scenario_dir"])
        except Exception:
            return False
        p = envrig.replay_scheduled(env, rp.get("ops", rp.get("log", [])))
        if p.fails:
            return False
        return not ((LEAN / ".lake" / "build" / "bin" / EXE).exists() and _model_diff(p.lines, p.impl))
    ops = rp.get("ops")
    if ops is None:      # records written by the first version of the check: "reset" entries without a seed
        ops = [["reset", rp.get("seed"), None] if a == "reset" else a for a in rp.get("log", [])]
    envrig.CHECK_REQUESTS = (rp.get("failure") or {}).get("kind") == "handler-mutated-its-request"
    try:
        p = envrig.run_ops(_cfg_of(rp), ops, rp.get("max_len"), marl=rp.get("marl") or False)
    finally:
        envrig.CHECK_REQUESTS = False
    if p.fails:
        return False
    exe = LEAN / ".lake" / "build" / "bin" / EXE
    if exe.exists() and _model_diff(p.lines, p.impl):
        return False
    return True


# ================================================================================================ the check
def _merge(ctx: Ctx, units: List[dict], recs: List[dict], all_lines: List[str], all_impl: List[str], env_viol: List[dict]):
    for u, r in zip(units, recs):
        if r.get("broken"):
            ctx.oblige(f"rig: unit {u['kind']}:{u.get('label', '')} ran", "correspondence", False, r["broken"])
        for k, v in r["hist"].items():
            ctx.count(k, v)
        for c, nt in r["cases"]:
            ctx.case(c, nt)
        if r["extra"].get("evals"):
            ctx.cov["evaluations"] += r["extra"]["evals"]
        ctx.cov["traces_validated_against_impl"] += r["traces"]
        ctx.notes += r["notes"]
        for s in r["samples"]:
            ctx.sample(s, cap=8)
        for v in r["viol"]:
            ctx.violation(v["sig"], v["what"], v["replay"])
            env_viol.append(v)
        at = len(all_lines)
        for n_lines, variant, max_len, marl, sdir, ops in r.get("segs", []):
            _SEGS.append((at, at + n_lines, u, variant, max_len, marl, sdir, ops))
            at += n_lines
        all_lines += r["lines"]
        all_impl += r["impl"]
        for shape, n in (r["extra"].get("shapes") or {}).items():
            ctx.cov.setdefault("red_response_shapes_seen", {})
            ctx.cov["red_response_shapes_seen"][shape] = ctx.cov["red_response_shapes_seen"].get(shape, 0) + n


def _agent_file(agent_type: str) -> Optional[str]:
    return {"tap-001": "TAP001.py", "tap-003": "TAP003.py", "periodic-agent": "random_agent.py", "random-agent": "random_agent.py",
            "red-database-corrupting-agent": "data_manipulation_bot.py", "probabilistic-agent": "probabilistic_agent.py"}.get(agent_type)


def _search(ctx: Ctx, rng: Rng, raises: List[dict], probes: List[Tuple[dict, dict]], env_viol: List[dict], n_workers: int,
            all_lines: List[str], all_impl: List[str]) -> Dict[str, Any]:
    """DESIGN 3.5 for the obligation 'scripted agents are total': realise the failing response history in the real environment."""
    found: Dict[str, Any] = {}
    groups: Dict[Tuple[str, str], dict] = {}
    for x in raises:
        groups.setdefault((x["agent_type"], x.get("stage") or "?"), x)
    budget = ctx.scale(30, 160)
    from harness.rigs import c01_settings as cs
    for (atype, stage), x in groups.items():
        key = f"{atype}:{stage}"
        if atype in ("periodic-agent", "red-database-corrupting-agent", "probabilistic-agent", "random-agent"):
            # schedule-driven agents ignore responses: the failing standalone case is mapped back into a scenario file
            cases = [y for y in raises if y["agent_type"] == atype][:4]
            us = []
            for j, y in enumerate(cases):
                at, ov, probs = cs.overrides_of_case(y["case"])
                steps = min(120, max(int(y.get("t") or 0) + 4, cs.steps_needed(ov, 80)))
                for host in range(2):
                    us.append({"kind": "settings", "label": f"search-{atype}-{j}-{host}", "agent_type": at, "overrides": ov, "probs": probs,
                               "steps": steps, "host": host, "episodes": 1, "rng": rng.fork(f"set{key}{j}{host}"), "why": "search", "weight": 1})
            recs = _pool_map(us, n_workers)
            before = len(env_viol)
            _merge(ctx, us, recs, all_lines, all_impl, env_viol)
            ctx.count(f"search:{key}:scenarios-built-from-failing-cases", len(us))
            hit = next((v for v in env_viol[before:] if v.get("kind") in ("step-raises", "reset-raises")), None)
            if hit is not None:
                found[key] = "realised by a scenario carrying the failing case's agent_settings: " + hit["what"][:200]
            continue
        hit = next((v for v in env_viol if v.get("agent_file") and v["agent_file"] == _agent_file(atype)), None)
        if hit is not None:
            found[key] = "already realised by the disturbed episodes: " + hit["what"][:160]
            continue
        for unit, rec in probes:
            ex = rec.get("extra", {})
            if atype not in (ex.get("red_types") or []) or not ex.get("buckets"):
                continue
            spec = {k: unit[k] for k in ("label", "scenario", "sched_entry") if k in unit}
            cfg, _ = _resolve_cfg(spec)
            if cfg is None:
                continue
            items = dist.search_plan(cfg, ex["buckets"], rng.fork("search" + key + unit["label"]), stage, budget)
            ctx.count(f"search:{key}:episodes-planned", len(items))
            step = max(1, n_workers) * 2
            for i in range(0, len(items), step):
                us = [{"kind": "disturb", **spec, "seed": unit["seed"], "items": [it], "weight": 1} for it in items[i:i + step]]
                recs = _pool_map(us, n_workers)
                before = len(env_viol)
                _merge(ctx, us, recs, all_lines, all_impl, env_viol)
                ctx.count(f"search:{key}:episodes-run", len(us))
                hit = next((v for v in env_viol[before:] if v.get("agent_file") == _agent_file(atype)), None)
                if hit is not None:
                    found[key] = "realised by search: " + hit["what"][:160]
                    break
            if key in found:
                break
    return found


def run(ctx: Ctx):
    del _SEGS[:]
    with lean_lock():
        ctx.extract("Episode", x_ep.emit)
        ctx.extract("EpisodeHandlers", x_h.emit)
        ctx.extract("EpisodeRegs", x_regs.emit)          # SoftwareManager.uninstall, statement by statement
        ctx.extract("RequestSchema", x_schema.emit)      # C05x's extractor, run here so that the tie is against the CURRENT source
        ctx.prove(MODULES, exes=[EXE], leanchecker=ctx.thorough)
    ctx.cov["rule"] = ("cases = (a) shipped scenario x {shipped action map, generated action maps over every registered action type with existing, "
                       "missing and powered-off targets} x 2-4 episodes with a mid-episode reset, a run past truncation and public-surface calls "
                       "in between, every step one evaluation, non-trivial = action is not do-nothing; (b) disturbed full-length episodes "
                       "(scenario with red agents x one or two blue actions x time bucket of the undisturbed probe), one evaluation per "
                       "episode, all non-trivial, the steps are counted in the histogram; (c) MARL steps; (d) standalone agent cases "
                       "(configuration x injected outcomes), one evaluation each; distinct by canonical string")
    n_workers = int(os.environ.get("C01_WORKERS", "0") or 0) or ctx.scale(4, 8)
    n_workers = max(1, min(n_workers, os.cpu_count() or 2))
    ctx.cov["worker_processes"] = n_workers
    rng = ctx.rng.fork("run")
    import primaite.game.game  # noqa: F401  (loaded before the fork so that the workers share it)
    import primaite.session.environment  # noqa: F401
    all_lines: List[str] = []
    all_impl: List[str] = []
    env_viol: List[dict] = []
    walls: Dict[str, float] = {}

    # ---- corpus: stored witnesses are replayed on every run (as units of the first phase)
    t0 = time.time()
    units1 = [{"kind": "corpus", "label": f.name, "file": str(f), "weight": 40} for f in sorted((VERIF / "corpus" / "C01").glob("*.json"))]
    units1 += _phase1(ctx, rng)
    recs1 = _pool_map(units1, n_workers)
    _merge(ctx, units1, recs1, all_lines, all_impl, env_viol)
    ctx.cov["phase1_wall_s"] = round(time.time() - t0, 1)
    for u, r in zip(units1, recs1):
        if u["kind"] == "probe" and u.get("no_plan"):
            ctx.oblige(f"rig: long undisturbed episode of {u['label']} ran to the end", "correspondence",
                       bool(r["extra"].get("probe_ok")) or bool(r["viol"]) or not r["extra"], "episode did not complete")
    probes = [(u, r) for u, r in zip(units1, recs1) if u["kind"] == "probe" and not u.get("no_plan")]
    ctx.cov["disturbed_scenarios"] = {u["label"]: {"buckets": r["extra"].get("buckets"), "relevant_actions": r["extra"].get("relevant"),
                                                   "actions": r["extra"].get("n_actions"), "red": r["extra"].get("red_types")}
                                      for u, r in probes}
    for u, r in probes:
        ctx.oblige(f"rig: undisturbed probe of {u['label']} ran to max_episode_length", "correspondence", bool(r["extra"].get("probe_ok")) or bool(r["viol"]),
                   "probe did not complete")
    t0 = time.time()
    units2 = _phase2(ctx, rng, probes)
    if os.environ.get("C01_SKIP_DISTURBED"):      # test hook of the search protocol only: pretend the planned episodes found nothing
        ctx.notes.append(f"C01_SKIP_DISTURBED set: {len(units2)} planned units of disturbed episodes were NOT run")
        units2 = []
        units1 = [u for u in units1]
    recs2 = _pool_map(units2, n_workers)
    _merge(ctx, units2, recs2, all_lines, all_impl, env_viol)
    ctx.cov["phase2_wall_s"] = round(time.time() - t0, 1)
    ctx.cov["units"] = {"phase1": len(units1), "phase2": len(units2)}
    for u, r in list(zip(units1, recs1)) + list(zip(units2, recs2)):
        walls[f"{u['kind']}:{u.get('label', '')}"] = round(walls.get(f"{u['kind']}:{u.get('label', '')}", 0) + r["wall"], 1)
    ctx.cov["unit_wall_s"] = dict(sorted(walls.items(), key=lambda kv: -kv[1])[:25])

    # ---- obligation: the scripted agents are total under every response history (C19's standalone driver)
    raises = [x for u, r in zip(units1, recs1) if u["kind"] == "agents" for x in r["extra"].get("raises", [])]
    from harness.rigs import c01_agents as ag
    ctx.cov["agent_response_alphabet"] = ag.response_shapes_assumed()
    by_type: Dict[str, List[dict]] = {}
    for x in raises:
        by_type.setdefault(x["agent_type"], []).append(x)
    for atype in sorted(set(ag.AGENT_TYPE.values())):
        xs = by_type.get(atype, [])
        detail = ""
        if xs:
            x = xs[0]
            detail = (f"{len(xs)} synthetic response histories make {atype} raise; first: {x.get('exc')} {x.get('msg', '')[:120]} in {x.get('phase')} "
                      f"at {x.get('where')} (stage {x.get('stage')}/{x.get('progress')}, previous action {x.get('prev_action')} answered "
                      f"{x.get('prev_status')}); injected outcomes {x.get('inject')}; settings "
                      f"{ {k: v for k, v in (x.get('case') or {}).items() if k != 'steps'} }")
        ctx.oblige(f"agents-total:{atype} (get_action/format_request/process_action_response never raise, every response history)",
                   "correspondence", not xs, detail)
    if raises:
        t0 = time.time()
        found = _search(ctx, rng.fork("search"), raises, probes, env_viol, n_workers, all_lines, all_impl)
        ctx.cov["search"] = {"found": found, "wall_s": round(time.time() - t0, 1),
                             "obligations_without_a_realising_episode": sorted({f"{x['agent_type']}:{x.get('stage') or '?'}" for x in raises} - set(found))}
        for x in raises[:3]:
            ctx.sample({"agent-obligation-broken": {k: v for k, v in x.items() if k not in ("case", "stack")}}, cap=10)
        # keep the standalone witnesses re-executable as well
        ctx.cov["agent_raise_witnesses"] = [{"kind": "agent-obligation", "raise": {k: x.get(k) for k in ("agent", "case", "inject", "us", "exc", "stage")}}
                                            for x in list(by_type.values())[0][:2]]

    # ---- the alphabet of synthetic responses covers what the simulator really answered red actions with
    seen = ctx.cov.get("red_response_shapes_seen", {})
    ctx.cov["red_response_shapes_seen"] = dict(sorted(seen.items(), key=lambda kv: -kv[1])[:60])

    # ---- bookkeeping against the proved model
    bad = _model_diff(all_lines, all_impl)
    reported = set()
    for i, q, a, b in bad:
        seg = next((sg for sg in _SEGS if sg[0] <= i < sg[1]), None)
        if seg is None or id(seg) in reported or len(reported) >= 5:
            continue
        reported.add(id(seg))
        _, _, u, variant, max_len, marl, sdir, ops = seg
        rp: Dict[str, Any] = {"kind": "scheduled" if sdir else "env", "scenario": u.get("label"), "variant": variant, "marl": marl,
                              "max_len": max_len, "ops": ops, "model_diff": {"line_index": i - seg[0], "op": q, "impl": a, "model": b}}
        if sdir:
            rp["scenario_dir"] = sdir
        else:
            rp["cfg_yaml"] = _dump(_resolve_cfg({k: v for k, v in u.items() if k in ("label", "scenario", "sched_entry", "family", "size", "shadowing", "rng", "aug")})[0])
        ctx.violation({"kind": "bookkeeping-differs-from-model", "op": q.split()[0]},
                      f"{u.get('label')}/{variant}: episode bookkeeping after `{q}`: impl {a!r} vs proved model {b!r}", rp)
    ctx.oblige("rig:R-env bookkeeping agrees with the model at every step", "correspondence", not bad, f"{len(bad)} of {len(all_impl)} lines differ")
