"""C02 — every observation is a member of the declared observation space."""
from __future__ import annotations

import json
import time
from typing import Any, Dict, List, Optional, Tuple

from harness.extract import obs_enums as x_enums
from harness.extract import obs_tables as x_tables
from harness.lib.core import VERIF, Ctx, Rng, lean_lock, run_driver
from harness.rigs import obs as rig

MANIFEST = {
    "text": "Lean 4 proof, for every observation object (any nesting of the service/application/file/folder/NIC/port/link/ACL/host/"
            "router/firewall/nodes/nested classes; any slot counts, thresholds and flags) and every simulation state whose "
            "enumerated quantities are member values of the regenerated simulator enumerations (every count, every traffic amount, "
            "component present / absent / node not ON), that the value `observe` returns is contained in `space` (gymnasium "
            "Discrete/Dict rule), that every `default_observation` is contained, that observing never changes the space, and that "
            "this holds along every trajectory of states. ACL-carrying components: partial (hypothesis excludes num_rules "
            "above the ACL's slots and repeated list entries; both are open findings with proved counterexamples). Tie: "
            "enum members, Discrete sizes, clamps, status codes, default literals and the threshold categorisers regenerated from "
            "the source (Gen/ObsEnums, Gen/ObsTables; obligations C02_gen_*) + differential rig R-obs on the real classes "
            "(synthetic states) and on PrimaiteGymEnv trajectories (nested and flattened membership).",
    "note": "C02-specific: float binning int(x/b*9) is modelled on exact rationals; steps where float rounding differs from the exact "
            "bin are excluded from the value comparison (never from the membership check). gymnasium's flatten is trusted but "
            "checked on every trajectory step.",
    "technique": "Lean 4 theorems over an executable model of the observation classes; model tied by regenerated tables and a differential rig",
    "design_ref": "5/C02",
}
MODULES = ["PrimaiteModel.Props.C02"]
EXE = "drv_c02"


# ---------------------------------------------------------------------------------------------------- component level
def component_case(rng: Rng, n_states: int, defects: bool) -> dict:
    """Build one real object tree, feed it a sequence of synthetic states; returns everything needed for the diff."""
    capture = rng.chance(1, 2)
    rig.set_capture(capture)
    obj, facts = rig.gen_object(rng, defects)
    ev = rig.enum_values()
    lines = ["reset", f"capture {rig.B(capture)}", "cfg " + " ".join(rig.obj_tokens(obj)), "space", "default"]
    sp = obj.space
    cspace = rig.canon_space(sp)
    impl: List[Any] = ["ok", "ok", "ok", cspace, (rig.canon(obj.default_observation), bool(sp.contains(obj.default_observation)), None, False)]
    states = []
    for _ in range(n_states):
        st = rig.gen_state(rng, ev, capture, list((facts["mt"] or {}).keys()), sorted({q for v in (facts["mt"] or {}).values() for q in v}),
                           facts["ips"], facts["stray_ip"], slots=24)
        states.append(st)
        toks, pairs = rig.state_tokens(st)
        lines.append("obs " + " ".join(toks))
        o, exc, raw = rig.observe_impl(obj, st)
        contained = False if o == "raised" else bool(sp.contains(raw))
        impl.append((o, contained, exc, rig.float_boundary(pairs)))
        if o == "raised":
            break  # after an exception the object's memory is half-updated; stop the sequence on both sides
    return {"capture": capture, "facts": facts, "lines": lines, "impl": impl, "space": cspace, "states": states}


def parse_report(line: str) -> Tuple[Any, Optional[bool]]:
    head, _, rest = line.partition(" ")
    if head == "raised":
        return "raised", False
    return rig.parse_val(rest.split()), head == "1"


def check_case(ctx: Ctx, name: str, case: dict, model: List[str]) -> bool:
    """diff one component-level case; returns True when implementation and model agree everywhere"""
    impl = case["impl"]
    agree = True
    # space and default
    mspace = rig.parse_val(model[3].split())
    if mspace != impl[3]:
        agree = False
        ctx.violation({"kind": "model-vs-impl", "what": "space"}, f"{name}: declared space differs from the model's: {rig.first_diff(impl[3], mspace)}",
                      {"case": name, "cfg": case["facts"]["cfg"], "impl_space": impl[3], "model_space": mspace})
    for idx in range(4, len(impl)):
        o, contained, exc, fb = impl[idx]
        mv, mcontained = parse_report(model[idx])
        what = "default" if idx == 4 else f"observe#{idx - 5}"
        ctx.count("component:" + ("raised" if o == "raised" else "in-space" if contained else "not-in-space"))
        # the property's oracle on the implementation
        if not contained:
            sig = rig.diagnose(case["space"], o, exc, case["facts"])
            ctx.violation(dict(sig, property_oracle="space.contains(observe(state))"),
                          f"{name} {what}: observation is not a member of the declared space ({exc or sig})",
                          {"case": name, "capture": case["capture"], "cfg": case["facts"]["cfg"],
                           "state": case["states"][idx - 5] if idx >= 5 else None, "observation": o, "exception": exc})
        # correspondence
        if fb and o != "raised" and mv != "raised" and o != mv and rig.strip_bins(o) == rig.strip_bins(mv) and contained == mcontained:
            ctx.count("component:float-boundary-step (bins differ only by float rounding; excluded)")
            continue
        if o != mv or contained != mcontained:
            agree = False
            ctx.violation({"kind": "model-vs-impl", "what": "observe", "class": "component"},
                          f"{name} {what}: implementation and model disagree: {rig.first_diff(o, mv) if o != mv else f'contains impl={contained} model={mcontained}'}",
                          {"case": name, "capture": case["capture"], "cfg": case["facts"]["cfg"], "lines": case["lines"][:idx + 1][-3:],
                           "impl": o, "model": mv})
    return agree


# ---------------------------------------------------------------------------------------------------- environment level
def env_trajectory(ctx: Ctx, rel: str, cfg: dict, rng: Rng, episodes: int, steps: int, want_truth: bool = False, chaos=None) -> dict:
    """Run the real environment; collect, per agent with an observation space, the model lines and the implementation's answers."""
    import gymnasium
    import numpy as np
    env = rig.make_env(cfg)
    tracks: Dict[str, dict] = {}
    oracle_fail: List[dict] = []
    seen_visible: Dict[tuple, int] = {}
    incoherent: List[dict] = []

    def snapshot(tag: str, ep: int, step: int, env_obs):
        game = env.game
        state = game.get_sim_state()
        toks, pairs = rig.state_tokens(state)
        fb = rig.float_boundary(pairs)
        ttoks = rig.truth_tokens(game.simulation) if want_truth else None
        if want_truth:
            for node in game.simulation.network.nodes.values():
                for f in node.file_system.folders.values():
                    key = (ep, node.config.hostname, f.name)
                    prev = seen_visible.get(key, 0)
                    cur_v = f.visible_health_status.value
                    if cur_v != prev and not f._scanned_this_step and node.operating_state.value == 1:
                        incoherent.append({"scenario": rel, "episode": ep, "step": step, "folder": f"{node.config.hostname}/{f.name}", "visible": [prev, cur_v]})
                    seen_visible[key] = cur_v
        for name, agent in rig.agents_with_obs(game):
            tr = tracks[f"{ep}:{name}"]
            cur = agent.observation_manager.current_observation
            sp = agent.observation_manager.space
            ok_nested = bool(sp.contains(cur))
            tr["lines"].append(("spec " + " ".join(ttoks)) if want_truth else ("obs " + " ".join(toks)))
            tr["impl"].append((rig.canon(cur), ok_nested, fb))
            ctx.count("env:nested-in-space" if ok_nested else "env:nested-NOT-in-space")
            if not ok_nested:
                bad = rig.leaves_out_of_space(rig.canon(cur), rig.canon_space(sp))
                oracle_fail.append({"scenario": rel, "agent": name, "episode": ep, "step": step, "bad": bad[:4]})
        # what the gymnasium API actually returned to the RL agent
        a = env.agent
        osp = env.observation_space
        inside = bool(osp.contains(env_obs))
        ctx.count(("env:flat" if a.flatten_obs else "env:nested-api") + ("-in-space" if inside else "-NOT-in-space"))
        if not inside:
            oracle_fail.append({"scenario": rel, "agent": "<api>", "episode": ep, "step": step, "bad": ["returned observation not in observation_space"],
                                "flatten": bool(a.flatten_obs)})
        if a.flatten_obs:
            again = gymnasium.spaces.flatten(a.observation_manager.space, a.observation_manager.current_observation)
            if not np.array_equal(again, env_obs):
                oracle_fail.append({"scenario": rel, "agent": "<api>", "episode": ep, "step": step, "bad": ["flatten(obs) differs from returned array"]})
        return osp

    first_space = None
    first_action_n = None
    for ep in range(episodes):
        obs, _ = env.reset()
        for name, agent in rig.agents_with_obs(env.game):
            tracks[f"{ep}:{name}"] = {"lines": ["reset", f"capture {rig.B(rig.capture_flag())}", "cfg " + " ".join(rig.obj_tokens(agent.observation_manager.obs)), "space"],
                                      "impl": ["ok", "ok", "ok", rig.canon_space(agent.observation_manager.space)]}
        osp = snapshot("reset", ep, 0, obs)
        # space constant over episodes (C02's second clause)
        desc = (repr(osp), int(env.action_space.n))
        if first_space is None:
            first_space = desc
        elif desc != first_space:
            oracle_fail.append({"scenario": rel, "agent": "<api>", "episode": ep, "step": 0, "bad": ["observation/action space changed between episodes"]})
        n = int(env.action_space.n)
        for t in range(steps):
            # adversarial bias: repeat one action for a while (many creations / scans in a row), else uniform
            if t % 7 == 0:
                burst = rng.below(n)
            act = burst if rng.chance(1, 2) else rng.below(n)
            if chaos is not None:
                chaos(env.game, rng)
            obs, _r, _te, trunc, _info = env.step(act)
            ctx.count("env:steps")
            snapshot("step", ep, t + 1, obs)
            if trunc:
                break
    env.close()
    return {"tracks": tracks, "oracle_fail": oracle_fail, "incoherent": incoherent}


def check_env(ctx: Ctx, rel: str, res: dict, model_by_track: Dict[str, List[str]], spec_mode: bool = False) -> bool:
    agree = True
    for f in res["oracle_fail"]:
        leaf = f["bad"][0].rsplit("/", 1)[-1] if f["bad"] else "?"
        ctx.violation({"kind": "env-not-in-space", "leaf": leaf.split(":", 1)[-1], "property_oracle": "observation_space.contains(obs)"},
                      f"{rel}: observation outside the declared space at episode {f['episode']} step {f['step']} ({f['bad']})", f)
    for key, tr in res["tracks"].items():
        model = model_by_track[key]
        mspace = rig.parse_val(model[3].split())
        if mspace != tr["impl"][3]:
            agree = False
            ctx.violation({"kind": "model-vs-impl", "what": "space", "class": "env"}, f"{rel} {key}: space differs: {rig.first_diff(tr['impl'][3], mspace)}",
                          {"scenario": rel, "track": key})
        for idx in range(4, len(tr["impl"])):
            o, contained, fb = tr["impl"][idx]
            if spec_mode:
                continue
            mv, mcontained = parse_report(model[idx])
            if fb and o != mv and rig.strip_bins(o) == rig.strip_bins(mv) and contained == mcontained:
                ctx.count("env:float-boundary-step (excluded)")
                continue
            if o != mv or contained != mcontained:
                agree = False
                ctx.violation({"kind": "model-vs-impl", "what": "observe", "class": "env"},
                              f"{rel} {key} step {idx - 4}: implementation and model disagree: {rig.first_diff(o, mv) if o != mv else 'contains'}",
                              {"scenario": rel, "track": key, "step": idx - 4, "diff": rig.first_diff(o, mv)})
                break
    return agree


# ---------------------------------------------------------------------------------------------------- corpus / replay
def run_corpus_case(rec: dict) -> Tuple[bool, str]:
    """A corpus witness: constructor config + capture flag + one state. Returns (observation is in the space, detail)."""
    from primaite.game.agent.observations.observation_manager import ObservationManager
    rig.set_capture(bool(rec.get("capture", False)))
    import copy
    mgr = ObservationManager(config=copy.deepcopy(rec["cfg"]))
    obj = mgr.obs
    state = _intkeys(rec["state"])
    try:
        o = obj.observe(state)
    except Exception as e:  # noqa: BLE001
        return False, f"{type(e).__name__}: {e}"
    return bool(obj.space.contains(o)), "observation returned"


def _intkeys(x):
    """JSON turns int dict keys into strings; NIC numbers, ports and ACL slots are ints in the real state."""
    if isinstance(x, dict):
        return {(int(k) if isinstance(k, str) and k.lstrip("-").isdigit() else k): _intkeys(v) for k, v in x.items()}
    if isinstance(x, list):
        return [_intkeys(v) for v in x]
    return x


def replay(rec: dict) -> bool:
    r = rec.get("replay", rec)
    if "cfg" in r and r.get("state") is not None:
        ok, _ = run_corpus_case(r)
        return ok
    return False


# ---------------------------------------------------------------------------------------------------- run
def run(ctx: Ctx):
    with lean_lock():
        ctx.extract(x_enums.GEN_NAME, x_enums.emit)
        ctx.extract(x_tables.GEN_NAME, x_tables.emit)
        ctx.prove(MODULES, exes=[EXE], clean=False, leanchecker=ctx.thorough)
    ctx.cov["rule"] = ("component cases = (real observation tree built by ObservationManager from a generated config, capture flag, sequence of "
                       "synthetic states over every enum value x counts past the top threshold x absent/off x traffic up to 10x speed); env cases = "
                       "trajectory of a shipped/mutated scenario; a case is non-trivial when some observed component is present on an ON node; "
                       "distinct by canonical JSON of (config, states)")
    # Gen cross-check against the imported implementation
    ev = rig.enum_values()
    gen = {n: [v for _, v in m] for n, (_, m) in x_enums.read_enums().items()}
    ctx.oblige("gen:ObsEnums equals list(Enum) at run time", "extractor", all(gen.get(k) == v for k, v in ev.items()),
               json.dumps({k: (gen.get(k), v) for k, v in ev.items() if gen.get(k) != v}))

    # ---- corpus first: witnesses of fixed findings must now be in space; witnesses of open findings still fail (KNOWN-FINDING)
    for f in sorted((VERIF / "corpus" / "C02").glob("*.json")):
        rec = json.loads(f.read_text())
        ok, detail = run_corpus_case(rec)
        ctx.count("corpus:" + ("in-space" if ok else "not-in-space"))
        ctx.case({"corpus": f.name}, True)
        if not ok:
            ctx.violation(dict(rec["sig"], property_oracle="space.contains(observe(state))"),
                          f"corpus {f.name}: {rec['what']} ({detail})", dict(rec, corpus=f.name))

    # ---- component level
    n_cases = ctx.scale(220, 4000)
    rng = ctx.rng.fork("obs-components")
    cases = []
    t0 = time.time()
    for k in range(n_cases):
        cases.append((f"gen:{k}", component_case(rng, n_states=ctx.scale(4, 6), defects=(k % 10 == 0))))
    lines_all: List[str] = []
    bounds = []
    for name, c in cases:
        bounds.append((len(lines_all), len(c["lines"])))
        lines_all += c["lines"]
    model_all = run_driver(EXE, lines_all)
    if any(m == "bad-op" for m in model_all):
        i = model_all.index("bad-op")
        raise RuntimeError(f"driver rejected line {lines_all[i][:300]!r}")
    agree = 0
    for (name, c), (st, ln) in zip(cases, bounds):
        ctx.cov["traces_validated_against_impl"] += 1
        nontrivial = any(isinstance(x, tuple) and x[0] != "raised" and "HOST0" in json.dumps(x[0]) for x in c["impl"][5:])
        ctx.case({"cfg": c["facts"]["cfg"], "capture": c["capture"], "states": c["states"]}, nontrivial)
        if check_case(ctx, name, c, model_all[st:st + ln]):
            agree += 1
            ctx.sample({"case": name, "model_lines": [l[:160] for l in c["lines"][2:6]], "answers": [m[:160] for m in model_all[st + 2:st + 6]]}, cap=2)
    ctx.oblige("rig:R-obs components agree on every case", "correspondence", agree == len(cases), f"{len(cases) - agree} of {len(cases)} cases disagree")
    ctx.notes.append(f"component level: {len(cases)} object trees, {sum(len(c['states']) for _, c in cases)} observe calls, {time.time() - t0:.1f}s")

    # ---- environment level
    rng = ctx.rng.fork("obs-env")
    runs = []
    scen = rig.SCENARIOS if ctx.thorough else rig.SCENARIOS[:6]
    for rel in scen:
        base = rig.load_cfg(rel)
        variants = [base] + [rig.mutate_cfg(base, rng) for _ in range(ctx.scale(2, 4))]
        for vi, cfg in enumerate(variants):
            try:
                res = env_trajectory(ctx, rel, cfg, rng, episodes=ctx.scale(2, 3), steps=ctx.scale(30, 100))
            except Exception as e:  # noqa: BLE001 - an exception out of reset/step IS an observation failure when it comes from observe()
                import traceback
                tb = traceback.format_exc()
                if "observations/" in tb:
                    ctx.violation({"kind": "env-raises", "site": tb.strip().splitlines()[-3].strip()[:120]},
                                  f"{rel} variant {vi}: step/reset raised inside the observation layer: {type(e).__name__}: {e}",
                                  {"scenario": rel, "variant": vi, "traceback": tb[-1500:]})
                else:
                    ctx.count("env:variant-rejected-or-failed-outside-observations")
                    ctx.notes.append(f"{rel} variant {vi}: {type(e).__name__}: {str(e)[:120]}")
                continue
            runs.append((f"{rel}#{vi}", res))
    lines_all, index = [], {}
    for rname, res in runs:
        for key, tr in res["tracks"].items():
            index[(rname, key)] = (len(lines_all), len(tr["lines"]))
            lines_all += tr["lines"]
    model_all = run_driver(EXE, lines_all) if lines_all else []
    if any(m == "bad-op" for m in model_all):
        i = model_all.index("bad-op")
        raise RuntimeError(f"driver rejected line {lines_all[i][:300]!r}")
    agree = 0
    for rname, res in runs:
        by_track = {key: model_all[index[(rname, key)][0]: index[(rname, key)][0] + index[(rname, key)][1]] for key in res["tracks"]}
        ctx.cov["traces_validated_against_impl"] += len(res["tracks"])
        ctx.case({"env": rname, "n": sum(len(t["impl"]) for t in res["tracks"].values())}, True)
        if check_env(ctx, rname, res, by_track):
            agree += 1
    ctx.oblige("rig:R-env observation trajectories agree with the model", "correspondence", agree == len(runs), f"{len(runs) - agree} of {len(runs)} runs disagree")
