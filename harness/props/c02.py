"""C02 — every observation is a member of the declared observation space."""
from __future__ import annotations

import json
import time
from typing import Any, Dict, List, Optional, Tuple

from harness.extract import obs_enums as x_enums
from harness.extract import obs_tables as x_tables
from harness.extract import obs_config as x_cfg
from harness.lib.core import VERIF, Ctx, Rng, lean_lock, run_driver
from harness.rigs import obs as rig
from harness.rigs import obs_env as env

MANIFEST = {
    "text": "Lean 4 proof, for every observation object (any nesting of the service/application/file/folder/NIC/port/link/ACL/host/"
            "router/firewall/nodes/nested classes; any slot counts, thresholds and flags) and every simulation state whose "
            "enumerated quantities are member values of the regenerated simulator enumerations (every count, every traffic amount, "
            "component present / absent / node not ON), that the value `observe` returns is contained in `space` (gymnasium "
            "Discrete/Dict rule), that every `default_observation` is contained, that observing never changes the space, and that "
            "this holds along every trajectory of states. The objects are also derived FROM THE SCENARIO'S WORDS: Model/ObsConfig "
            "models every ConfigSchema default, the push-down of every from_config, padding/truncation and Python truthiness; "
            "every object built from an accepted observation_space section satisfies the invariant the in-space theorems need "
            "(C02_raw_build_ok), so membership holds for everything a scenario can configure (C02_built_run_in_space). "
            "NMNE (since the F-10 repair): the leaf follows the observed interface's own `nmne` entry, so no state is excluded on "
            "its account any more - the only state hypotheses left are positive NIC speed / link bandwidth and a user-session-manager. "
            "Environment level: nested or flattened, every observation of an episode is a member of the space observation_space "
            "declares during THAT episode, the space does not change within an episode, and a constant schedule declares one space "
            "(C02_env_*); flattening a member gives a 0/1 vector whose length is a function of the space only. "
            "F-6 and F-C02-2 are repaired, so no partial hypothesis is left on the ACL slot count, and the flatten guard of ProxyAgent "
            "(modelled, EpisodeCfg.accepts) keeps out the spaces gymnasium cannot flatten. The flattened vector is also modelled in "
            "gymnasium's OWN key order (Model/ObsFlat: Dict sorts a complete dict of comparable keys, keeps insertion order for keys "
            "added afterwards - only NICObservation.space does that, regenerated fact - and for mixed str/int keys): membership, "
            "flattenability and length are invariant under that re-ordering (C02_contains_gym, C02_flattenable_gym, C02_flatDim_gym) "
            "and the vector an RL agent receives is a 0/1 vector of the declared length (C02_gym_flatten_length). Construction "
            "includes the constructors' threshold validation where it happens (before truncation; RawObs.buildV, translated "
            "_validate_thresholds). Tie: enum members, Discrete sizes, clamps, status codes, default literals, threshold categorisers "
            "(Gen/ObsEnums, Gen/ObsTables), the ORDER of events in every __init__ (pads/truncations precede every read by "
            "default_observation), no in-place write through default_observation / cached_obs in any observe, the exact bodies of "
            "PrimaiteGymEnv.agent / observation_space / action_space / _get_obs and no stored space attribute (Gen/ObsCfgTables; "
            "obligations C02_gen_*) + differential rig R-obs: the model builds its objects from the same configuration text as the "
            "implementation (generated scenario-style configurations with explicit lists shorter/equal/longer than their counts, "
            "per-node overrides, ACL sub-configs, rejected configurations), every object of every tree goes through the "
            "default/space/ON-observe key-structure oracle, synthetic states, and PrimaiteGymEnv trajectories (shipped, toggled, "
            "regenerated observation spaces, generated scenarios, shipped and generated episode schedules) with the spaces read "
            "through the public properties at construction, after every reset and at every step.",
    "note": "C02-specific: float binning int(x/b*9) is modelled on exact rationals; steps where float rounding differs from the exact "
            "bin are excluded from the value comparison (never from the membership check). gymnasium's flatten / flatten_space are "
            "trusted; modelled for Discrete/Dict trees and checked on every trajectory step (length, number of ones, refusal of empty "
            "Dicts). Action-space constancy is checked by the rig (equality with the space read at construction, and within every "
            "episode) and tied by the Gen body of action_space; the action manager itself is not modelled here. Ray wrappers are not run.",
    "technique": "Lean 4 theorems over an executable model of the observation classes and of their construction from the scenario; model tied by regenerated tables and a differential rig",
    "design_ref": "5/C02",
}
MODULES = ["PrimaiteModel.Props.C02", "PrimaiteModel.Props.C02Cfg", "PrimaiteModel.Props.C02Flat"]
EXE = "drv_c02"


# ---------------------------------------------------------------------------------------------------- component level
def innermost(bad: List[dict]) -> List[dict]:
    """a failure inside a child shows in every ancestor too: keep the innermost object per check"""
    def inner(b):
        pre = "" if b["path"] == "/" else b["path"]
        return not any(o is not b and o.get("check") == b.get("check") and o["path"] != b["path"] and o["path"].startswith(pre + "/") for o in bad)
    return [b for b in bad if inner(b)]


def tree_oracle(cfg: dict, ev: Dict[str, List[int]]) -> List[dict]:
    """The property's oracle on EVERY object of a freshly constructed tree (a second instance, so that the main sequence keeps its
    memory): the default observation is a member of the space; space, default observation and an all-present, all-ON observation
    have the same key structure; the ON observation is a member; observing leaves every default observation as it was."""
    root = rig.build_impl(cfg)
    if root is None:
        return []
    bad: List[dict] = []
    nodes = rig.walk(root)
    before = {path: rig.canon(o.default_observation) for path, o in nodes}
    full = rig.full_state(root, ev)
    for path, o in nodes:
        cls = type(o).__name__
        sp = o.space
        d = o.default_observation
        csp = rig.canon_space(sp)
        if not sp.contains(d):
            bad.append({"class": cls, "check": "space.contains(default_observation)", "path": path,
                        "detail": rig.shape_diff(rig.shape(rig.canon(d)), rig.shape(csp)) or str(rig.leaves_out_of_space(rig.canon(d), csp)[:3])})
        sd = rig.shape_diff(rig.shape(rig.canon(d)), rig.shape(csp))
        if sd:
            bad.append({"class": cls, "check": "keys(default_observation) == keys(space)", "path": path, "detail": sd})
    # one ON observation of the whole tree, then each object on its own (children have observed once more: memory only, shape unaffected)
    for path, o in nodes:
        cls = type(o).__name__
        try:
            v = o.observe(full)
        except Exception as e:  # noqa: BLE001
            b = {"class": cls, "check": "observe(all-present state) raises", "path": path, "detail": f"{type(e).__name__}: {e}"}
            if isinstance(e, KeyError) and e.args and isinstance(e.args[0], int) and e.args[0] >= 24:
                b["sig"] = {"kind": "raises", "site": "ACLObservation.observe", "cause": "num_rules-exceeds-slots"}  # F-6 (open)
            bad.append(b)
            continue
        sp = o.space
        sd = rig.shape_diff(rig.shape(rig.canon(v)), rig.shape(rig.canon_space(sp)))
        if sd:
            bad.append({"class": cls, "check": "keys(observe(all-present state)) == keys(space)", "path": path, "detail": sd})
        elif not sp.contains(v):
            bad.append({"class": cls, "check": "space.contains(observe(all-present state))", "path": path,
                        "detail": str(rig.leaves_out_of_space(rig.canon(v), rig.canon_space(sp))[:3])})
    for path, o in nodes:
        if rig.canon(o.default_observation) != before[path]:
            bad.append({"class": type(o).__name__, "check": "default_observation unchanged by observe", "path": path,
                        "detail": rig.first_diff(before[path], rig.canon(o.default_observation))})
    return innermost(bad)


def has_empty_dict(sp) -> Optional[bool]:
    """the repaired code's own test for "gymnasium cannot flatten this space" (None on a tree without it)"""
    try:
        from primaite.game.agent.interface import _has_empty_dict
    except ImportError:
        return None
    return bool(_has_empty_dict(sp))


def flatten_guard_witness(cfg: dict) -> Tuple[bool, str]:
    """F-C02-2 regression: a proxy agent with this observation space and flatten_obs is REFUSED when it is built, with a ValueError that
    names the cause (not numpy's 'need at least one array to concatenate' at the first access); without flatten_obs it is built."""
    import copy
    from primaite.game.agent.interface import AbstractAgent
    osp, th = rig.split_cfg(cfg)
    base = {"ref": "witness", "team": "BLUE", "type": "proxy-agent", "observation_space": osp, "thresholds": th or {}}
    try:
        AbstractAgent.from_config(dict(copy.deepcopy(base), agent_settings={"flatten_obs": False}))
    except Exception as e:  # noqa: BLE001
        return False, f"the nested agent is refused too: {type(e).__name__}: {str(e)[:160]}"
    try:
        agent = AbstractAgent.from_config(dict(copy.deepcopy(base), agent_settings={"flatten_obs": True}))
    except ValueError as e:
        ok = "cannot flatten" in str(e) and "need at least one array" not in str(e)
        return ok, f"refused at construction: {str(e)[:160]}"
    import gymnasium
    try:
        gymnasium.spaces.flatten_space(agent.observation_manager.space)
    except ValueError as e:
        return False, f"accepted at construction, then flatten_space raises {e}"
    return False, "accepted and flattenable: the witness no longer contains an empty dictionary"


def flatten_probe(sp, value, want=None):
    """(`<length> <number of leaves>` of flatten_space / flatten, or `raised`; a description when something is inconsistent)"""
    import gymnasium
    import numpy as np
    try:
        n = int(gymnasium.spaces.flatten_space(sp).shape[0])
        x = gymnasium.spaces.flatten(sp, value)
    except ValueError as e:
        if "need at least one array to concatenate" in str(e):
            return "raised", None
        return "raised", f"flatten raises {type(e).__name__}: {e}"
    except Exception as e:  # noqa: BLE001
        return "raised", f"flatten raises {type(e).__name__}: {e}"
    leaves = len(env.leaf_paths(rig.canon(value)))
    if len(x) != n or int(np.sum(x)) != leaves or not set(np.unique(x)) <= {0, 1}:
        return f"{n} {leaves}", f"flatten(space, value) has {len(x)} entries / {int(np.sum(x))} ones, flatten_space says {n}, the value has {leaves} leaves"
    if want is not None and f"{n} {leaves}" != want:
        return f"{n} {leaves}", f"flattened length changed between observations: {n} {leaves} vs {want}"
    return f"{n} {leaves}", None


def component_case(rng: Rng, n_states: int, defects: bool, invalid: bool = False) -> dict:
    """Build one real object tree from a generated scenario-style configuration, feed it a sequence of synthetic states; the model
    builds ITS object from the same configuration text (`rawcfg`).  Returns everything needed for the diff."""
    capture = None  # no process-wide switch any more (F-10 repaired): each generated interface state decides by its own `nmne` entry
    obj, facts = rig.gen_object(rng, defects, invalid)
    ev = rig.enum_values()
    osp, th = rig.split_cfg(facts["cfg"])
    lines = ["reset", rig.rawcfg_line(osp, th), "show", "space", "flatdim", "default"]
    if obj is None:
        return {"capture": capture, "facts": facts, "lines": lines[:2], "impl": ["ok", "rejected"], "space": None, "states": [],
                "rejected": getattr(rig.build_impl, "last_error", "?"), "tree": [], "defaults_changed": []}
    sp = obj.space
    cspace = rig.canon_space(sp)
    nodes = rig.walk(obj)
    before = {path: rig.canon(o.default_observation) for path, o in nodes}
    flat_dim, flat_bad = flatten_probe(sp, obj.default_observation)
    impl: List[Any] = ["ok", "ok", " ".join(rig.obj_tokens(obj, fresh=True)), cspace, flat_dim,
                       (rig.canon(obj.default_observation), bool(sp.contains(obj.default_observation)), None, False)]
    states = []
    for _ in range(n_states):
        st = rig.gen_state(rng, ev, list((facts["mt"] or {}).keys()), sorted({q for v in (facts["mt"] or {}).values() for q in v}),
                           facts["ips"], facts["stray_ip"], slots=24)
        states.append(st)
        toks, pairs = rig.state_tokens(st)
        lines.append("obs " + " ".join(toks))
        o, exc, raw = rig.observe_impl(obj, st)
        contained = False if o == "raised" else bool(sp.contains(raw))
        impl.append((o, contained, exc, rig.float_boundary(pairs)))
        if o == "raised":
            break  # after an exception the object's memory is half-updated; stop the sequence on both sides
        if contained and not flat_bad:
            _, bad2 = flatten_probe(sp, raw, want=flat_dim)
            flat_bad = flat_bad or bad2
    changed = [{"class": type(o).__name__, "path": path, "detail": rig.first_diff(before[path], rig.canon(o.default_observation))}
               for path, o in nodes if rig.canon(o.default_observation) != before[path]]
    return {"capture": capture, "facts": facts, "lines": lines, "impl": impl, "space": cspace, "states": states,
            "tree": tree_oracle(facts["cfg"], ev), "defaults_changed": innermost(changed), "guard": has_empty_dict(sp), "objects": len(nodes), "flat_bad": flat_bad}


def length_relations(ctx: Ctx, cfg: dict) -> None:
    """evidence: how the generated explicit lists relate to their `num_*` (shorter / equal / longer / list absent), per kind"""
    for comp in cfg["options"]["components"]:
        if comp["type"] != "nodes":
            continue
        o = comp["options"]

        def rel(kind, lst, n):
            if n is None:
                ctx.count(f"gen:{kind}:count-missing")
            elif lst is None:
                ctx.count(f"gen:{kind}:list-absent")
            else:
                ctx.count(f"gen:{kind}:" + ("empty-list" if not lst and n else "shorter" if len(lst) < n else "equal" if len(lst) == n else "longer"))

        def eff(h, k):
            return h.get(k) if h.get(k) is not None else o.get(k)
        for h in o.get("hosts", []):
            rel("services", h.get("services"), eff(h, "num_services"))
            rel("applications", h.get("applications"), eff(h, "num_applications"))
            rel("folders", h.get("folders"), eff(h, "num_folders"))
            rel("nics", h.get("network_interfaces"), eff(h, "num_nics"))
            for f in h.get("folders") or []:
                rel("files", f.get("files"), eff(h, "num_files"))
            for k in ("include_users", "include_nmne", "include_num_access", "file_system_requires_scan", "services_requires_scan", "applications_requires_scan"):
                ctx.count(f"gen:host-option:{k}:" + ("absent" if k not in h else "null" if h[k] is None else "own-value"))
        for r in o.get("routers", []):
            rel("router-ports", r.get("ports"), eff(r, "num_ports"))
            ctx.count("gen:router-acl:" + ("sub-config" if "acl" in r else "absent"))
            ctx.count("gen:router-include_users:" + ("absent" if "include_users" not in r else "null" if r["include_users"] is None else "own-value"))


def parse_report(line: str) -> Tuple[Any, Optional[bool]]:
    head, _, rest = line.partition(" ")
    if head == "raised":
        return "raised", False
    return rig.parse_val(rest.split()), head == "1"


def token_diff(a: str, b: str) -> str:
    x, y = a.split(), b.split()
    for i, (p, q) in enumerate(zip(x, y)):
        if p != q:
            return f"token {i}: impl …{' '.join(x[max(0, i - 6):i + 3])} | model …{' '.join(y[max(0, i - 6):i + 3])}"
    return f"lengths {len(x)} vs {len(y)}"


CFG_AT, SHOW_AT, SPACE_AT, FLAT_AT, DEFAULT_AT, FIRST_OBS = 1, 2, 3, 4, 5, 6


def check_case(ctx: Ctx, name: str, case: dict, model: List[str]) -> bool:
    """diff one component-level case; returns True when implementation and model agree everywhere"""
    impl = case["impl"]
    agree = True
    cfg = case["facts"]["cfg"]
    # construction: accepted / rejected by both
    if impl[CFG_AT] != model[CFG_AT]:
        ctx.violation({"kind": "model-vs-impl", "what": "construction accepted/rejected"},
                      f"{name}: constructing the observation from the configuration: implementation {impl[CFG_AT]} ({case.get('rejected', '')}), model {model[CFG_AT]}",
                      {"case": name, "cfg": cfg})
        return False
    ctx.count("component:construction-" + impl[CFG_AT])
    if impl[CFG_AT] == "rejected":
        if "threshold" in str(case.get("rejected", "")):
            ctx.count("component:construction-rejected:thresholds-not-strictly-ascending (both sides)")
        return True
    # the object the model builds from the scenario's words is the object the implementation built
    if impl[SHOW_AT] != model[SHOW_AT]:
        agree = False
        ctx.violation({"kind": "construction-vs-scenario", "what": "constructed object differs from from_config(model) of the scenario", "class": "component"},
                      f"{name}: the constructed observation objects are not what the configuration says: {token_diff(impl[SHOW_AT], model[SHOW_AT])}",
                      {"case": name, "cfg": cfg, "diff": token_diff(impl[SHOW_AT], model[SHOW_AT])})
    # the property's oracle on every object of the tree
    for b in case["tree"]:
        ctx.violation(dict(b.get("sig") or {"kind": "tree-oracle", "class": b["class"], "check": b["check"]}, property_oracle=b["check"]),
                      f"{name}: {b['class']} at {b['path']}: {b['check']} fails: {b['detail']}", {"case": name, "cfg": cfg, "problem": b})
    for b in case["defaults_changed"]:
        ctx.violation({"kind": "tree-oracle", "class": b["class"], "check": "default_observation unchanged by observe"},
                      f"{name}: {b['class']} at {b['path']}: default_observation was changed by observe(): {b['detail']}",
                      {"case": name, "cfg": cfg, "capture": case["capture"], "states": case["states"], "problem": b})
    # space and default
    mspace = rig.parse_val(model[SPACE_AT].split())
    if mspace != impl[SPACE_AT]:
        agree = False
        ctx.violation({"kind": "model-vs-impl", "what": "space"}, f"{name}: declared space differs from the model's: {rig.first_diff(impl[SPACE_AT], mspace)}",
                      {"case": name, "cfg": cfg, "impl_space": impl[SPACE_AT], "model_space": mspace})
    # flattening: length and number of leaves are a function of the space (model: flatDim), or gymnasium refuses the space (F-C02-2)
    ctx.count("component:flatten-" + ("raises (space with an empty Dict)" if impl[FLAT_AT] == "raised" else "ok"))
    if impl[FLAT_AT] != model[FLAT_AT]:
        agree = False
        ctx.violation({"kind": "model-vs-impl", "what": "flatten_space length / leaves"}, f"{name}: flatten_space gives {impl[FLAT_AT]!r}, the model {model[FLAT_AT]!r}",
                      {"case": name, "cfg": cfg})
    # the code's own guard (ProxyAgent refuses a flattened agent with such a space) must agree with gymnasium and with the model
    if case.get("guard") is not None and case["guard"] != (impl[FLAT_AT] == "raised"):
        ctx.violation({"kind": "flatten-guard", "what": "_has_empty_dict(space) disagrees with gymnasium's flatten_space"},
                      f"{name}: _has_empty_dict(space) = {case['guard']} but flatten_space {'raises' if impl[FLAT_AT] == 'raised' else 'succeeds'}",
                      {"case": name, "cfg": cfg, "flatten": True})
    if case.get("flat_bad"):
        ctx.violation({"kind": "flatten-inconsistent", "property_oracle": "len(flatten(space, obs)) == flatten_space(space).shape[0]"},
                      f"{name}: {case['flat_bad']}", {"case": name, "cfg": cfg, "capture": case["capture"], "states": case["states"]})
    for idx in range(DEFAULT_AT, len(impl)):
        o, contained, exc, fb = impl[idx]
        mv, mcontained = parse_report(model[idx])
        what = "default" if idx == DEFAULT_AT else f"observe#{idx - FIRST_OBS}"
        ctx.count("component:" + ("raised" if o == "raised" else "in-space" if contained else "not-in-space"))
        # the property's oracle on the implementation
        if not contained:
            sig = rig.diagnose(case["space"], o, exc, case["facts"])
            ctx.violation(dict(sig, property_oracle="space.contains(observe(state))"),
                          f"{name} {what}: observation is not a member of the declared space ({exc or sig})",
                          {"case": name, "capture": case["capture"], "cfg": cfg,
                           "state": case["states"][idx - FIRST_OBS] if idx >= FIRST_OBS else None,
                           "states": case["states"][:idx - FIRST_OBS + 1] if idx >= FIRST_OBS else [], "observation": o, "exception": exc})
        # correspondence
        if fb and o != "raised" and mv != "raised" and o != mv and rig.strip_bins(o) == rig.strip_bins(mv) and contained == mcontained:
            ctx.count("component:float-boundary-step (bins differ only by float rounding; excluded)")
            continue
        if o != mv or contained != mcontained:
            agree = False
            ctx.violation({"kind": "model-vs-impl", "what": "observe", "class": "component"},
                          f"{name} {what}: implementation and model disagree: {rig.first_diff(o, mv) if o != mv else f'contains impl={contained} model={mcontained}'}",
                          {"case": name, "capture": case["capture"], "cfg": cfg, "lines": case["lines"][:idx + 1][-3:],
                           "impl": o, "model": mv})
    return agree


# ---------------------------------------------------------------------------------------------------- environment level
def env_recipes(ctx: Ctx, rng: Rng, truth: bool = False) -> List[dict]:
    """The trajectories of one run, as recipes (re-executable one by one).  Families: shipped scenarios as they are; `toggle` /
    `regen` variants (observation options switched / a generated observation space with non-default nodes-level options, explicit
    lists, routers with ACL sub-configs); generated small scenarios (LAN / routed / DMZ); shipped episode schedules; generated
    schedules whose episodes observe different things (and one whose episodes are all alike)."""
    out: List[dict] = []
    scen = rig.SCENARIOS if ctx.thorough else rig.SCENARIOS[:6]
    eps, steps = ctx.scale(2, 3), ctx.scale(36 if truth else 20, 60)

    def add(family, label, **kw):
        # one recipe in five runs under the process-wide override `NetworkInterface.nmne_config = NMNEConfig(...)` (restored afterwards)
        kw.setdefault("nmne_override", rig.gen_nmne_settings(rng) if rng.chance(1, 5) else None)
        kw.setdefault("targeted", bool(truth))  # ground-truth runs: events inside the tick aimed at the counted leaves
        # scripted "make every observed leaf non-default, THEN take the component away" (power off / delete / uninstall), see obs_env.saturate
        kw.setdefault("takeaway", bool(truth) and kw.get("steps", steps) >= 14)
        out.append(dict({"family": family, "label": label, "traj_seed": rng.next(), "variant_seed": rng.next(), "episodes": eps, "steps": steps,
                         "truth": truth, "chaos": False}, **kw))
    for rel in scen:
        short = rel.rsplit("/", 1)[-1] + ("@tests" if rel.startswith("tests/") and any(r != rel and r.endswith("/" + rel.rsplit("/", 1)[-1]) for r in scen) else "")
        add("shipped", short, rel=rel)
        for i in range(ctx.scale(1, 2)):
            add("toggle", f"{short}#toggle{i}", rel=rel, chaos=truth)
        for i in range(ctx.scale(2 if truth else 1, 2)):
            add("regen", f"{short}#regen{i}", rel=rel, chaos=truth)
    for i in range(ctx.scale(12 if truth else 4, 18)):
        add("generated", f"generated#{i}", topology=["lan", "routed", "dmz"][i % 3], size=1 + (i // 3) % 2, episodes=2, steps=ctx.scale(20 if truth else 14, 60),
            chaos=truth and i % 3 != 2)
    for rel in env.SCHEDULE_DIRS:
        add("schedule-shipped", rel.rsplit("/", 1)[-1] + "@" + rel.split("/")[0], rel=rel, episodes=ctx.scale(4, 6), steps=ctx.scale(6, 30))
    if ctx.thorough:
        add("schedule-shipped", "uc7_multiple_attack_variants", rel="src/primaite/config/_package_data/uc7_multiple_attack_variants", episodes=6, steps=20)
    for i in range(ctx.scale(3, 9)):
        rel = env.SCHEDULE_BASES[i % len(env.SCHEDULE_BASES)]
        add("schedule-generated", f"{rel.rsplit('/', 1)[-1]}#schedule{i}", rel=rel, n_episodes=3, same=(i % 3 == 2), flatten=(i % 2 == 0),
            episodes=4, steps=ctx.scale(5, 25))
    return out


def run_env_recipes(ctx: Ctx, recipes: List[dict], chaos=None) -> List[Tuple[str, dict]]:
    runs = []
    labels = [rc["label"] for rc in recipes]
    if len(set(labels)) != len(labels):
        raise RuntimeError(f"recipe labels must be unique: {sorted(l for l in set(labels) if labels.count(l) > 1)}")
    for rc in recipes:
        ctx.count("env:family:" + rc["family"])
        try:
            res = env.run_recipe(ctx, rc, chaos=chaos)
        except Exception as e:  # noqa: BLE001 - an exception out of reset/step IS an observation failure when it comes from observe()
            import traceback
            tb = traceback.format_exc()
            if "flatten_obs is set, but the observation space contains a dictionary without" in str(e):
                ctx.count("env:configuration-refused-by-the-flatten-guard")
            elif "need at least one array to concatenate" in str(e) and "gymnasium/spaces/utils" in tb:
                ctx.violation({"kind": "flatten-raises", "site": "gymnasium.spaces.flatten", "cause": "empty-dict-subspace", "class": "env"},
                              f"{rc['label']}: observation_space / reset / step raise: gymnasium cannot flatten a Dict without sub-spaces",
                              {"recipe": rc, "traceback": tb[-800:]})
            elif "observations/" in tb or "gymnasium/spaces" in tb:
                ctx.violation({"kind": "env-raises", "site": tb.strip().splitlines()[-3].strip()[:120]},
                              f"{rc['label']}: step/reset raised inside the observation layer: {type(e).__name__}: {e}",
                              {"recipe": rc, "traceback": tb[-1500:]})
            else:
                ctx.count("env:variant-rejected-or-failed-outside-observations")
                ctx.notes.append(f"{rc['label']}: {type(e).__name__}: {str(e)[:160]}")
            continue
        runs.append((rc["label"], res))
    from primaite.simulator.network.hardware.base import NetworkInterface
    ctx.oblige("rig: process-wide NetworkInterface.nmne_config is None again after the recipes", "correspondence", NetworkInterface.nmne_config is None,
               repr(NetworkInterface.nmne_config))
    return runs


# ---------------------------------------------------------------------------------------------------- corpus / replay
def run_corpus_case(rec: dict) -> Tuple[bool, str]:
    """A corpus witness: constructor config + capture flag + one state. Returns (observation is in the space, detail)."""
    from primaite.game.agent.observations.observation_manager import ObservationManager
    import copy
    mgr = ObservationManager(config=copy.deepcopy(rec["cfg"]))
    obj = mgr.obs
    state = _intkeys(rec["state"])
    try:
        o = obj.observe(state)
    except Exception as e:  # noqa: BLE001
        return False, f"{type(e).__name__}: {e}"
    return bool(obj.space.contains(o)), "observation returned"


def _intkeys(x):
    """JSON turns int dict keys into strings; NIC numbers, ports and ACL slots are ints in the real state."""
    if isinstance(x, dict):
        return {(int(k) if isinstance(k, str) and k.lstrip("-").isdigit() else k): _intkeys(v) for k, v in x.items()}
    if isinstance(x, list):
        return [_intkeys(v) for v in x]
    return x


def construction_agrees(cfg: dict, capture: bool = False) -> Tuple[bool, str]:  # `capture`: ignored (old replay records carry it)
    """Is the object the implementation builds from this manager configuration the one the model builds from the same words
    (both reject, or the same object tokens, space and default observation)?"""
    obj = rig.build_impl(cfg)
    osp, th = rig.split_cfg(cfg)
    out = run_driver(EXE, ["reset", rig.rawcfg_line(osp, th), "show", "space", "default"])
    if obj is None:
        return out[1] == "rejected", f"implementation rejects ({getattr(rig.build_impl, 'last_error', '?')}), model: {out[1]}"
    if out[1] != "ok":
        return False, f"implementation accepts, model: {out[1]}"
    toks = " ".join(rig.obj_tokens(obj, fresh=True))
    if toks != out[2]:
        return False, token_diff(toks, out[2])
    if rig.parse_val(out[3].split()) != rig.canon_space(obj.space):
        return False, "space differs: " + str(rig.first_diff(rig.canon_space(obj.space), rig.parse_val(out[3].split())))
    mv, _ = parse_report(out[4])
    if mv != rig.canon(obj.default_observation):
        return False, "default observation differs: " + str(rig.first_diff(rig.canon(obj.default_observation), mv))
    return True, "same object"


def replay_component(r: dict) -> bool:
    """a component-level record (generated configuration + capture flag + the state sequence): re-run the property's oracle"""
    ev = rig.enum_values()
    if tree_oracle(r["cfg"], ev):
        return False
    obj = rig.build_impl(r["cfg"])
    if obj is None:
        return True
    nodes = rig.walk(obj)
    before = {path: rig.canon(o.default_observation) for path, o in nodes}
    for st in r.get("states") or ([r["state"]] if r.get("state") else []):
        o, exc, raw = rig.observe_impl(obj, _intkeys(st))
        if o == "raised" or not obj.space.contains(raw):
            return False
    return all(rig.canon(o.default_observation) == before[path] for path, o in nodes)


def replay_env(r: dict, prop: str = "C02") -> bool:
    """an environment-level record: run its recipe again (same derived seeds) and apply the same checks"""
    ctx = Ctx(prop, "quick", 0)
    chaos = None
    if r["recipe"].get("chaos"):
        from harness.props import c09
        chaos = c09.chaos
    runs = run_env_recipes(ctx, [r["recipe"]], chaos=chaos)
    models = env.run_model(EXE, runs)
    for rname, res in runs:
        env.check_env(ctx, rname, res, models[rname], spec_mode=bool(r["recipe"].get("truth")))
        if r["recipe"].get("truth"):
            from harness.props import c09
            c09.check_truth_run(ctx, rname, res, models[rname])
    return not ctx.violations


def replay(rec: dict) -> bool:
    r = rec.get("replay", rec)
    if r.get("flatten") and "cfg" in r:
        return flatten_guard_witness(r["cfg"])[0]
    if "recipe" in r:
        return replay_env(r)
    if "cfg" in r and "diff" in r and "recipe" not in r:
        return construction_agrees(r["cfg"], bool(r.get("capture", False)))[0]
    if "cfg" in r and (r.get("state") is not None or "states" in r or "problem" in r) and "sig" not in r:
        return replay_component(r)
    if "cfg" in r and r.get("state") is not None:
        ok, _ = run_corpus_case(r)
        return ok
    return False


# ---------------------------------------------------------------------------------------------------- run
def guarded(ctx: Ctx, name: str, fn, *a):
    """A rig family must never take the whole run down: a crash inside it (a rig assumption the changed code no longer meets) is a
    broken correspondence obligation, reported with its traceback; the other families still run and search for a concrete input."""
    import traceback
    try:
        return fn(*a)
    except Exception as e:  # noqa: BLE001
        ctx.oblige(f"rig:{name} ran to completion", "correspondence", False, f"{type(e).__name__}: {e}\n{traceback.format_exc()[-1800:]}")
        return None


def corpus_family(ctx: Ctx):
    """witnesses of fixed findings must now be in space; witnesses of open findings still fail (KNOWN-FINDING)"""
    for f in sorted((VERIF / "corpus" / "C02").glob("*.json")):
        rec = json.loads(f.read_text())
        if rec.get("flatten"):
            ok, detail = flatten_guard_witness(rec["cfg"])
        elif "recipe" in rec or "states" in rec:
            ok, detail = replay(rec), "replayed"
        else:
            ok, detail = run_corpus_case(rec)
        ctx.count("corpus:" + ("in-space" if ok else "not-in-space"))
        ctx.case({"corpus": f.name}, True)
        if not ok:
            ctx.violation(dict(rec["sig"], property_oracle="space.contains(observe(state))"),
                          f"corpus {f.name}: {rec['what']} ({detail})", dict(rec, corpus=f.name))


def component_family(ctx: Ctx):
    n_cases = ctx.scale(220, 3000)
    rng = ctx.rng.fork("obs-components")
    cases = []
    t0 = time.time()
    for k in range(n_cases):
        cases.append((f"gen:{k}", component_case(rng, n_states=ctx.scale(4, 6), defects=(k % 10 == 0), invalid=(k % 13 == 7))))
    lines_all: List[str] = []
    bounds = []
    for name, c in cases:
        bounds.append((len(lines_all), len(c["lines"])))
        lines_all += c["lines"]
    model_all = run_driver(EXE, lines_all)
    if any(m == "bad-op" for m in model_all):
        i = model_all.index("bad-op")
        raise RuntimeError(f"driver rejected line {lines_all[i][:300]!r}")
    agree = 0
    for (name, c), (st, ln) in zip(cases, bounds):
        ctx.cov["traces_validated_against_impl"] += 1
        nontrivial = any(isinstance(x, tuple) and x[0] != "raised" and "HOST0" in json.dumps(x[0]) for x in c["impl"][FIRST_OBS:])
        ctx.case({"cfg": c["facts"]["cfg"], "capture": c["capture"], "states": c["states"]}, nontrivial)
        ctx.count("component:objects-checked-by-tree-oracle", c.get("objects", 0))
        length_relations(ctx, c["facts"]["cfg"])
        if check_case(ctx, name, c, model_all[st:st + ln]):
            agree += 1
            ctx.sample({"case": name, "model_lines": [l[:160] for l in c["lines"][1:6]], "answers": [m[:160] for m in model_all[st + 1:st + 6]]}, cap=2)
    ctx.oblige("rig:R-obs components agree on every case", "correspondence", agree == len(cases), f"{len(cases) - agree} of {len(cases)} cases disagree")
    ctx.notes.append(f"component level: {len(cases)} object trees, {sum(len(c['states']) for _, c in cases)} observe calls, {time.time() - t0:.1f}s")


def env_family(ctx: Ctx):
    recipes = env_recipes(ctx, ctx.rng.fork("obs-env"))
    t0 = time.time()
    runs = run_env_recipes(ctx, recipes)
    models = env.run_model(EXE, runs)
    agree = 0
    for rname, res in runs:
        ctx.cov["traces_validated_against_impl"] += len(res["tracks"])
        ctx.case({"env": rname, "recipe": res["recipe"], "n": sum(len(t["impl"]) for t in res["tracks"].values())}, True)
        if env.check_env(ctx, rname, res, models[rname]):
            agree += 1
    ctx.oblige("rig:R-env observation trajectories agree with the model", "correspondence", agree == len(runs), f"{len(runs) - agree} of {len(runs)} runs disagree")
    ctx.notes.append(f"environment level: {len(runs)} of {len(recipes)} recipes ran, {ctx.hist.get('env:steps', 0)} steps, {time.time() - t0:.1f}s")


def run(ctx: Ctx):
    with lean_lock():
        ctx.extract(x_enums.GEN_NAME, x_enums.emit)
        ctx.extract(x_tables.GEN_NAME, x_tables.emit)
        ctx.extract(x_cfg.GEN_NAME, x_cfg.emit)
        ctx.prove(MODULES, exes=[EXE], clean=False, leanchecker=ctx.thorough)
    ctx.cov["rule"] = ("component cases = (real observation tree built by ObservationManager from a generated scenario-style configuration - explicit "
                       "lists shorter/equal/longer than their counts, per-node overrides, ACL sub-configs, rejected configurations - , "
                       "sequence of synthetic states over every enum value x counts past the top threshold x absent/off x traffic up to 10x speed); the "
                       "model builds its object from the same configuration text; every object of every tree goes through the default/space/ON-observe "
                       "key-structure oracle; env cases = one recipe (shipped / toggled / regenerated observation space / generated scenario / shipped "
                       "or generated episode schedule); a component case is non-trivial when some observed component is present on an ON node; "
                       "distinct by canonical JSON of (config, states) or of the recipe")
    # Gen cross-check against the imported implementation
    ev = rig.enum_values()
    gen = {n: [v for _, v in m] for n, (_, m) in x_enums.read_enums().items()}
    ctx.oblige("gen:ObsEnums equals list(Enum) at run time", "extractor", all(gen.get(k) == v for k, v in ev.items()),
               json.dumps({k: (gen.get(k), v) for k, v in ev.items() if gen.get(k) != v}))
    guarded(ctx, "corpus", corpus_family, ctx)
    guarded(ctx, "R-obs components", component_family, ctx)
    guarded(ctx, "R-env", env_family, ctx)
