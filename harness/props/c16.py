"""C16 — logins need valid credentials; remote commands need a live session."""
from __future__ import annotations

import json
import os
import time
from typing import List, Optional, Tuple

from harness.lib.core import VERIF, Ctx, lean_lock, run_driver, shrink_ops
from harness.extract import session as x_session
from harness.extract import session_tr as x_session_tr
from harness.rigs import session as rig

MANIFEST = {
    "text": "Lean 4 proof, for every state of two or more connected nodes — including every set of blocked directions between them — and "
            "every sequence of add-user (request and config API), disable-user, enable-user, change-password, local/remote login, the "
            "direct user-session-manager login/logout requests, local/remote terminal commands carrying any node request (nested to any "
            "depth), logoff, service verbs, node power requests, ticks and ACL edits that block / open one direction of a path, about an "
            "executable model of UserManager / UserSessionManager / Terminal: a session appears only through a login with the current "
            "password of an existing, enabled account on a powered-on node with running managers and (remote) under the session limit, and "
            "every such attempt succeeds iff both directions of the path are open; when only the reply is dropped the target lists a "
            "session (it counts against the limit) that nobody can ever run a command on (orphan invariant over all sequences); a command "
            "changes the target only through a connection whose id is a live remote session of the target (or valid local credentials), "
            "at EVERY hop of a nested command (closed form); `success` is answered only for an executed command whose answer travelled "
            "back; session ids are fresh, an ended id is never valid again and commands on it change nothing; time-out is exact for each "
            "kind of session with ITS OWN parameter, in every reachable state no listed session is past its time-out and only an accepted "
            "command moves the clock of exactly the session it travels on (a local session's clock never moves); a password change ends "
            "every session of the user; which ending event needs which service is proved row by row (the time-out needs none: it ends the "
            "session and its connection in every power / service state and for ever after; password change needs the user-manager only; "
            "the logouts need a running session manager); a password stays what it is until a change_password for that user; sessions "
            "survive a power cycle of their node within their time-out (observation, stated as theorems); an enabled admin always remains, whichever of the five account editors is used, accounts are never "
            "removed / renamed / demoted / overwritten, and any configured user list starts with an enabled admin; the session limit is "
            "never exceeded and a login succeeds again once a session ended; a local command / local login changes nothing unless the "
            "credentials supplied WITH it are the current password of an enabled account (also while that user is logged in, after "
            "disable, after a password change; a disabled account stays refused until enable_user); closed forms over any nesting depth "
            "for commands, for new sessions and for which session's clock moved; in reachable states a session id has one client connection "
            "and after a client logoff no node but the target holds it; the disconnect recursion never exhausts its fuel; connection OBJECTS "
            "somebody kept (Python API: what Terminal.login returns — the second connection to a target, which no request can reach, and "
            "local connections): execute on a kept object runs its command only while the object's id is a live session of its target "
            "(remote) / the node's current local session (local, repaired code: finding F-C16-h), the request send_remote_command IS that "
            "operation on the first connection, after disconnect() the object is dead whether or not the message arrived, an ended id "
            "stays dead over sequences that contain handle operations, the reachable-state invariant survives handle operations, a local "
            "session id never returns; a client logoff that reaches a target whose session manager is down removes the target's "
            "connection and leaves its session list as it was (request level) (is_active of a remote client "
            "object is modelled as 'still a key of the dictionary', of a local object as an input). Tie: constants, "
            "comparison operators, guard shapes, the time-out decisions per session kind, every write to last_active_step and every "
            "account-editing statement / caller / request in the package regenerated from the source (Gen/Session.lean, obligations "
            "C16_gen_*), the guard clauses of the two connection-object execute methods TRANSLATED to Boolean functions and proved equal to the model's tests, "
            "the requests really registered on a built node, + differential rig R-sess (2-3 real Computers on a Switch or "
            "behind one Router or two Routers in a chain whose ACLs block single directions, which are powered off / on and whose ARP "
            "caches are emptied mid-session) comparing every answer and the whole session state after every "
            "operation, plus the property's own oracle on the implementation.",
    "note": "C16-specific: whatever lies between two hosts is abstracted to per-direction reachability flags (Net.blocked, driven by DENY "
            "rules for the address pair / tcp 22 and by the power state of one or two real routers in the rig; ARP frames are exempt from "
            "a router's ACL, so there is no ARP-level block to drive; switches in between and link saturation are not driven) plus 'both NICs "
            "enabled and the receiver's terminal RUNNING'; on the routed topology a host reaches itself through its gateway (Net.hairpin); "
            "a terminal command carries any node request (file creation with a fresh name, user-manager requests, service / power "
            "requests, the direct user-session-manager requests, and terminal requests towards a further node, nested to any depth); "
            "shut_down/start_up durations 0..2.",
    "technique": "Lean 4 theorems (invariants by induction over operation sequences and over nested commands) over an executable session "
                 "model; model tied by regenerated constants/guards/inventories and a differential rig on real nodes",
    "design_ref": "5/C16",
}
MODULES = ["PrimaiteModel.Props.C16", "PrimaiteModel.Props.C16Conn", "PrimaiteModel.Props.C16Transport",
           "PrimaiteModel.Props.C16Timeout", "PrimaiteModel.Props.C16Admin", "PrimaiteModel.Props.C16Local",
           "PrimaiteModel.Props.C16Chain", "PrimaiteModel.Props.C16Ends", "PrimaiteModel.Props.C16Handle", "PrimaiteModel.Props.C16Logoff",
           "PrimaiteModel.Props.C16Tr"]
EXE = "drv_c16"


def _first_diff(impl: List[str], model: List[str]) -> int:
    for i, (a, b) in enumerate(zip(impl, model)):
        if a != b:
            return i
    return -1 if len(impl) == len(model) else min(len(impl), len(model))


def _opname(line: str) -> str:
    w = line.split()
    return w[2] if w and w[0] == "req" and len(w) > 2 else (w[0] if w else "?")


def _run_one(case: dict):
    impl, snaps, stats = rig.run_impl(case)
    lines = rig.model_lines(case)
    model = rig.canon_ids(run_driver(EXE, lines))
    return impl, model, lines, snaps, stats


def _fails(case: dict) -> Optional[Tuple[dict, str]]:
    """(sig, what) if the case is a failing input: oracle failure on the implementation, or implementation != proved model."""
    impl, model, lines, snaps, stats = _run_one(case)
    o = rig.oracle(case, snaps, stats)
    if o:
        return o[0], o[1]
    d = _first_diff(impl, model)
    if d >= 0:
        opname = _opname(lines[d]) if d < len(lines) else "?"
        a = impl[d] if d < len(impl) else None
        b = model[d] if d < len(model) else None
        field = "answer" if (a or "").split(" | ")[0] != (b or "").split(" | ")[0] else "state"
        return ({"kind": "model-vs-impl", "op": opname, "field": field},
                f"implementation differs from the proved model at line {d} ({lines[d] if d < len(lines) else '?'}): impl={a!r} model={b!r}")
    return None


def replay(rec: dict) -> bool:
    with lean_lock():
        from harness.lib.core import lake_build
        lake_build([EXE])
    return _fails(rec["replay"]["case"]) is None


SERVICE_BASE = {"stop", "start", "pause", "resume", "restart", "disable", "enable", "scan", "fix", "compromise"}
EXPECTED_REQUESTS = {
    "user-manager": {"add_user", "disable_user", "change_password"},
    "user-session-manager": {"remote_login", "remote_logout"},
    "terminal": {"node_session_remote_login", "remote_logoff", "send_remote_command", "send_local_command"},
}


def _runtime_inventory(ctx: Ctx):
    """The requests the three services really register on a built node (beyond the common service verbs) are the operations of the
    model; `logon` / `logoff` of the node are stubs that answer failure and change nothing; the account-editing methods of the
    UserManager object are the four the model has operations for."""
    im = rig.Impl({"n": 2, "su": 1, "sd": 1, "rd": 1, "max": 2, "lto": 2, "rto": 3})
    c = im.nodes[0]
    for svc, want in EXPECTED_REQUESTS.items():
        have = set(c.software_manager.software[svc]._request_manager.request_types) - SERVICE_BASE
        ctx.oblige(f"inventory:requests of {svc} = operations of the model", "correspondence", have == want,
                   f"registered beyond the service verbs: {sorted(have)}; modelled: {sorted(want)}")
    before = rig.render("x", im.snap())
    stubs = [im._req(0, ["logon"]), im._req(0, ["logoff"])]
    ctx.oblige("inventory:node logon/logoff are stubs (answer failure, change nothing)", "correspondence",
               stubs == ["failure", "failure"] and rig.render("x", im.snap()) == before, f"answers {stubs}")
    # the agent actions build exactly the requests the rig sends for the model's operations (the rig also sends the action-built
    # request itself in the families `viaaction` and in every second random trace)
    ima = rig.Impl({"n": 2, "su": 1, "sd": 1, "rd": 1, "max": 2, "lto": 2, "rto": 3, "via": "action"})
    for smp in rig.ACTION_SAMPLES:
        node = rig.exec_node(smp)
        try:
            built = ima.action_request(node, smp)
        except Exception as e:  # noqa: BLE001
            built = f"{type(e).__name__}: {e}"
        want = ["network", "node", f"n{node}"] + ima.cmd_request(node, smp)
        ctx.oblige(f"action:{rig.ACTION_OF[smp['op']]} builds the request of operation {smp['op']}", "correspondence", built == want,
                   f"action builds {built!r}; the model's operation is {want!r}")
    editors = sorted(m for m in dir(type(c.user_manager)) if "user" in m and not m.startswith("_")
                     and callable(getattr(type(c.user_manager), m, None)))
    ctx.oblige("inventory:public account methods of UserManager", "correspondence",
               editors == ["add_user", "authenticate_user", "change_user_password", "disable_user", "enable_user"], str(editors))


def _sample(rng, items: list, k: int):
    """`k` of the items (all when k >= len), seeded, in their original order, with their original index"""
    idx = list(range(len(items)))
    if k < len(items):
        idx = sorted(rng.shuffle(idx)[:k])
    return [(i, items[i]) for i in idx]


def _thin(rng, cases: list, cap: int) -> list:
    fam = {}
    for i, (name, _) in enumerate(cases):
        fam.setdefault(name.split(":")[0], []).append(i)
    keep = set()
    for f, idx in fam.items():
        keep |= set(idx if len(idx) <= cap else rng.fork(f).shuffle(idx)[:cap])
    return [c for i, c in enumerate(cases) if i in keep]


def _run_impl_chunk(chunk: List[dict]):
    return [rig.run_impl(c) for c in chunk]


def _run_impl_all(case_list: List[dict]):
    """The implementation side of every trace.  Building the real nodes is > 90 % of the cost of a trace (pydantic construction of
    ~13 software objects per node), and a third of that is the cyclic garbage collector walking the freshly built object graphs:
    collect rarely while the rig runs, and spread the traces over a few forked workers (C16_WORKERS, default 3; results are
    position-ordered, every trace is independent, so the outcome does not depend on the scheduling)."""
    import gc
    import multiprocessing as mp
    workers = max(1, int(os.environ.get("C16_WORKERS", "3")))
    old = gc.get_threshold()
    gc.collect()
    gc.freeze()
    gc.set_threshold(50000, 20, 20)
    try:
        if workers == 1 or len(case_list) < 200:
            return _run_impl_chunk(case_list)
        size = 64
        chunks = [case_list[i:i + size] for i in range(0, len(case_list), size)]
        with mp.get_context("fork").Pool(workers) as pool:
            out = pool.map(_run_impl_chunk, chunks, chunksize=1)
        return [r for ch in out for r in ch]
    finally:
        gc.set_threshold(*old)
        gc.unfreeze()


def run(ctx: Ctx):
    with lean_lock():
        ctx.extract(x_session.GEN_NAME, x_session.emit)
        ctx.extract(x_session_tr.GEN_NAME, x_session_tr.emit)
        ctx.prove(MODULES, exes=[EXE], clean=False, leanchecker=ctx.thorough)
    ctx.cov["rule"] = ("case = (node count, durations, session limit, time-outs, operation sequence); every answer and the complete "
                       "session state (power, NIC, service states, users, local session, remote sessions, terminal connections, files) "
                       "is compared after every operation; non-trivial = at least one remote session was opened and at least one "
                       "operation was refused; distinct by canonical JSON")
    _runtime_inventory(ctx)
    fam_rng_pc = ctx.rng.fork("powercycle")
    cases: List[Tuple[str, dict]] = []
    for f in sorted((VERIF / "corpus" / "C16").glob("*.json")):
        cases.append(("corpus:" + f.name, json.loads(f.read_text())["case"]))
    # bounded-exhaustive core: every sequence of `depth` operations of the alphabet after each prefix
    base_cfg = {"n": 2, "su": 1, "sd": 1, "rd": 1, "max": 2, "lto": 2, "rto": 3}
    alpha = rig.alphabet(base_cfg)
    login = {"op": "rlogin", "x": 0, "y": 1, "u": "admin", "p": "admin"}
    prefixes = [[], [login], [login, login]]
    depth = ctx.scale(2, 3)
    for pi, prefix in enumerate(prefixes):
        for k, c in enumerate(rig.exhaustive_cases(base_cfg, prefix, depth, alpha)):
            cases.append((f"exh:{pi}:{k}", c))
    # one deeper exhaustive family over the session-relevant core of the alphabet
    core = [a for a in alpha if a["op"] in ("rlogin", "rcmd", "rlogoff", "chpw", "tick") or a.get("v") == "stop"]
    for k, c in enumerate(rig.exhaustive_cases(base_cfg, [login], ctx.scale(3, 4), core)):
        cases.append((f"exhcore:{k}", c))
    # the last-administrator rule: two administrator accounts, every way of disabling / enabling them
    # (all eleven instances at depth 3; thorough: additionally the eight disable / enable / add instances at depth 4)
    for k, c in enumerate(rig.exhaustive_cases(base_cfg, rig.ADMIN_PREFIX, 3, rig.admin_alphabet())):
        cases.append((f"exhadmin:{k}", c))
    if ctx.thorough:
        for k, c in enumerate(rig.exhaustive_cases(base_cfg, rig.ADMIN_PREFIX, 4, rig.admin_alphabet()[:8])):
            cases.append((f"exhadmin4:{k}", c))
    # direct session-manager requests and nested commands on three nodes
    cfg3 = dict(base_cfg, n=3)
    for k, c in enumerate(rig.exhaustive_cases(cfg3, [], ctx.scale(2, 3), rig.session_alphabet())):
        cases.append((f"exhsess:{k}", c))
    # transport: routed topology (every host behind its own router port), both directions of the 0 <-> 1 path blocked / opened
    cfgr = dict(base_cfg, topo="routed", max=2)
    for pi, prefix in enumerate([[], [login]]):
        # (after the login prefix the quick tier leaves out the last two instances of the alphabet: 8^3 instead of 10^3)
        alpha_r = rig.route_alphabet() if (pi == 0 or ctx.thorough) else rig.route_alphabet()[:8]
        for k, c in enumerate(rig.exhaustive_cases(cfgr, prefix, ctx.scale(3, 4 - pi), alpha_r)):
            cases.append((f"exhroute:{pi}:{k}", c))
    # the session core of the first family once more on the routed topology (nothing blocked: must behave like the switch)
    for k, c in enumerate(rig.exhaustive_cases(dict(base_cfg, topo="routed"), [login], ctx.scale(2, 3), core)):
        cases.append((f"exhcore-routed:{k}", c))
    # below IP: two routers in a chain; router power, ARP "denied" + caches emptied (a decoy: ARP is exempt from the ACL), caches
    # cleared, the reply direction blocked at the far router — mid-session
    cfgm = dict(base_cfg, topo="routed2", max=2)
    for k, c in enumerate(rig.exhaustive_cases(cfgm, [login], 3, rig.medium_alphabet())):
        cases.append((f"exhmedium:1:{k}", c))
    for k, c in enumerate(rig.exhaustive_cases(cfgm, [], 2, rig.medium_alphabet())):
        cases.append((f"exhmedium:0:{k}", c))
    # which session-ending event works in which service state
    cfge = dict(base_cfg, lto=3, rto=2)
    for k, c in enumerate(rig.exhaustive_cases(cfge, rig.ENDS_PREFIX, 3, rig.ends_alphabet())):
        cases.append((f"exhends:{k}", c))
    # sessions across a power cycle of the target (time-outs longer than the cycle)
    for k in range(ctx.scale(60, 600)):
        pr = fam_rng_pc.fork(str(k))
        cfgp = {"n": 2 + pr.below(2), "su": pr.range(0, 2), "sd": pr.range(0, 2), "rd": 1, "max": 2, "lto": 9, "rto": pr.choice([5, 6, 9]),
                "topo": pr.choice(["switch", "routed"])}
        cases.append((f"powercycle:{k}", {"cfg": cfgp, "ops": rig.power_cycle_story(pr, cfgp)}))
    # a node commanding itself through its gateway
    cfgs = dict(base_cfg, topo="routed", su=0, sd=0)
    for k, c in enumerate(rig.exhaustive_cases(cfgs, [dict(rig.self_alphabet()[0])], 3, rig.self_alphabet())):
        cases.append((f"exhself:{k}", c))
    # kept connection objects (what Terminal.login returns): the second connection to a target and a local connection, used and
    # logged off across every way their sessions end (time-out, password change on either node, logoff, logout, dead path)
    cfgh = dict(base_cfg, topo="routed", max=3)
    for k, c in enumerate(rig.exhaustive_cases(cfgh, rig.HANDLE_PREFIX, 3, rig.handle_alphabet())):
        cases.append((f"exhhandle:{k}", c))
    # ... and from the two states in which a logoff did not reach the target (dead path; target's session manager stopped): the
    # target still lists the session, the kept object must be dead
    lost = [[{"op": "block", "x": 0, "y": 1, "on": True}, {"op": "hdisc", "k": 0}, {"op": "block", "x": 0, "y": 1, "on": False}],
            [{"op": "svc", "y": 1, "s": "user-session-manager", "v": "stop"}, {"op": "hdisc", "k": 0}]]
    for pi, extra in enumerate(lost):
        for k, c in enumerate(rig.exhaustive_cases(cfgh, rig.HANDLE_PREFIX + extra, 2, rig.handle_alphabet())):
            cases.append((f"exhhandle-lost:{pi}:{k}", c))
    # the same operations sent as agent ACTIONS (the request is built by the action class): session core, account editors, local commands
    cfga = dict(base_cfg, via="action")
    for k, c in enumerate(rig.exhaustive_cases(cfga, [login], 2, core)):
        cases.append((f"viaaction:core:{k}", c))
    for k, c in enumerate(rig.exhaustive_cases(cfga, rig.ADMIN_PREFIX, 2, rig.admin_alphabet())):
        cases.append((f"viaaction:admin:{k}", c))
    for k, c in enumerate(rig.exhaustive_cases(cfga, rig.LOCAL_PREFIX, 2, rig.local_alphabet())):
        cases.append((f"viaaction:local:{k}", c))
    # the local command path: every sequence of three operations of the local alphabet (quick: a seeded sample of the largest families)
    fam_rng = ctx.rng.fork("families")
    local_all = list(rig.exhaustive_cases(base_cfg, rig.LOCAL_PREFIX, 3, rig.local_alphabet()))
    for k, c in _sample(fam_rng, local_all, len(local_all)):
        cases.append((f"exhlocal:{k}", c))
    if ctx.thorough:   # depth 4: a seeded sample of 4 000 out of 14 641 sequences for each of the two newest families
        for k, c in _sample(fam_rng, list(rig.exhaustive_cases(base_cfg, rig.LOCAL_PREFIX, 4, rig.local_alphabet())), 4000):
            cases.append((f"exhlocal4:{k}", c))
        for k, c in _sample(fam_rng, list(rig.exhaustive_cases(cfgm, [login], 4, rig.medium_alphabet())), 4000):
            cases.append((f"exhmedium4:{k}", c))
    rng = ctx.rng.fork("sess")
    for k in range(ctx.scale(500, 5000)):
        gc_case = rig.gen_case(rng, max_ops=ctx.scale(30, 60))
        if k % 2 == 1:   # every second random trace sends its top-level operations as agent actions
            gc_case = dict(gc_case, cfg=dict(gc_case["cfg"], via="action"))
        if k % 3 == 0:   # every third random trace keeps connection objects and uses / logs them off later (own random stream)
            gc_case = dict(gc_case, ops=rig.with_handles(ctx.rng.fork(f"handles:{k}"), gc_case["cfg"], gc_case["ops"]))
        cases.append((f"gen:{k}", gc_case))

    # quick tier: of every bounded-exhaustive family with more than 550 sequences a seeded sample of 550 is run (another sample for
    # every VERIF_SEED; the thorough tier runs all of them): keeps the tier under its time limit on the loaded machine
    if not ctx.thorough:
        cases = _thin(ctx.rng.fork("thin"), cases, 550)
        ctx.notes.append("quick tier: families exhadmin / exhroute / exhmedium / exhends / exhlocal / exhhandle are seeded samples of 550 sequences each")

    # implementation side, then ONE driver run for all cases
    impl_all, lines_all, bounds, aux = [], [], [], []
    t_impl = time.time()
    results = _run_impl_all([c for _, c in cases])
    ctx.cov["impl_side_wall_s"] = round(time.time() - t_impl, 1)
    for (name, case), (impl, snaps, stats) in zip(cases, results):
        lines = rig.model_lines(case)
        bounds.append((len(lines_all), len(lines)))
        lines_all += lines
        impl_all.append(impl)
        aux.append((snaps, stats))
    model_raw = run_driver(EXE, lines_all)
    agree = 0
    oracle_ok = 0
    reported = set()
    for (name, case), impl, (st, ln), (snaps, stats) in zip(cases, impl_all, bounds, aux):
        model = rig.canon_ids(model_raw[st:st + ln])
        lines = lines_all[st:st + ln]
        ctx.cov["traces_validated_against_impl"] += 1
        if "bad-op" in model:
            raise RuntimeError(f"driver rejected a line of case {name}")
        answers = [m.split(" | ")[0] for m in model[2:]]
        opened = any(_opname(q) in ("rlogin", "usmlogin") and a == "success" for q, a in zip(lines[2:], answers))
        refused = any(a != "success" for a in answers)
        ctx.case(case, opened and refused)
        ctx.count("family:" + name.split(":")[0])
        ctx.count("topology:" + case["cfg"].get("topo", "switch"))
        for o in case["ops"]:
            if o["op"] in rig.MEDIUM_OPS:
                ctx.count("medium:" + o["op"] + (":" + o.get("how", "pair") if o["op"] == "block" else ""))
        if any(sn.get("blk") for sn in snaps):
            ctx.count("traces-with-a-blocked-direction")
        for q, a in zip(lines[2:], answers):
            opn = _opname(q)
            ctx.count("op:" + opn)
            w = q.split()
            if opn in ("rcmd", "lcmd"):
                inner = [t for t in w[3:] if t in ("file", "adduser", "disable", "chpw", "rlogin", "rlogoff", "usmlogin", "usmlogout", "svc",
                                                    "shutdown", "startup", "reset")]
                ctx.count(f"carried:{inner[-1] if inner else '?'}")
                ctx.count(f"nesting-depth:{sum(1 for t in w[2:] if t in ('rcmd', 'lcmd'))}")
            ctx.count(f"answer:{opn}:{a}")
        if any("stuck=1" in m for m in model):
            ctx.count("model-out-of-fuel")
        o = rig.oracle(case, snaps, stats)
        d = _first_diff(impl, model)
        if o is None:
            oracle_ok += 1
        if d < 0:
            agree += 1
        if o is None and d < 0:
            if name.startswith("gen:"):
                ctx.sample({"case": name, "cfg": case["cfg"], "lines": lines[2:10], "answers": answers[:8]}, cap=3)
            continue
        sig, what = _fails(case)
        key = json.dumps(sig, sort_keys=True)
        if key in reported:
            continue
        reported.add(key)

        def fails(ops, case=case, key=key):
            r = _fails(dict(case, ops=ops))
            return r is not None and json.dumps(r[0], sort_keys=True) == key
        small = dict(case, ops=shrink_ops(case["ops"], fails))
        r = _fails(small)
        if r is None or json.dumps(r[0], sort_keys=True) != key:
            small, r = case, (sig, what)
        impl2, model2, lines2, _, _ = _run_one(small)
        ctx.violation(r[0], r[1], {"case": small, "lines": lines2, "impl": impl2, "model": model2, "from": name})
    ctx.oblige("rig:R-sess implementation agrees with the model on every trace", "correspondence", agree == len(cases),
               f"{len(cases) - agree} of {len(cases)} traces disagree")
    ctx.oblige("oracle:C16 holds on the implementation on every trace", "oracle", oracle_ok == len(cases),
               f"{len(cases) - oracle_ok} of {len(cases)} traces fail the property's oracle")
    ctx.oblige("model never ran out of fuel", "correspondence", ctx.hist.get("model-out-of-fuel", 0) == 0)
    ctx.count("half-open-logins(session on the target, client told failure)", rig.HALF_OPEN["n"])
    ctx.count("commands-executed-on-a-session-that-survived-a-power-cycle-of-its-node(observation)", rig.POWER_CYCLE["n"])
