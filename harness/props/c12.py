"""C12 — power states gate everything a node does, with the configured timing."""
from __future__ import annotations

import json
import multiprocessing as mp
import os
from typing import Dict, List, Optional, Tuple

from harness.lib.core import VERIF, Ctx, lean_lock, run_driver, shrink_ops
from harness.extract import power as x_power
from harness.extract import power_prog as x_prog
from harness.extract import request_schema as x_schema   # C05x's extractor, used read-only: the schematic request tree
from harness.rigs import power as rig

MANIFEST = {
    "text": "Lean 4 proof about an executable model of Node.power_on/power_off/reset/apply_timestep/pre_timestep, the interface "
            "enable/disable/connect_link guards (NIC, router interface, switch port, wireless access point), the start-up/shut-down "
            "actions on services and applications, the node-level request routes, the direct Python API, the scenario loader's power "
            "calls and Network.setup_for_episode. PROVED for every start-up/shut-down duration (any integer; <= 0 = instant), every "
            "initial state and every sequence of node-level requests, ticks and frames: (1) every assignment to operating_state "
            "follows ON->SHUTTING_DOWN->OFF->BOOTING->ON (shortcuts only for duration <= 0); (2) a transitional state entered with "
            "duration d is held for exactly d ticks and left at tick d+1, whatever requests arrive meanwhile and whatever the "
            "configured durations are changed to in mid-countdown; reset = shutdown then automatic start; (3) a node that is not ON has "
            "no enabled interface, accepts and emits no frame, and a ping along a path needs every node on it ON; (4) an OFF node has "
            "no RUNNING or PAUSED service and no RUNNING application - (3) and (4) for ANY route table and also under direct calls of "
            "power_on/power_off/reset/enable/disable/connect_link/service verbs/run/close/install from any state, after loading any "
            "declared operating_state/durations/countdowns, and after episode set-up; (5) every request but startup is refused while "
            "not ON, for the route table of every node class (ten classes, from two independent extractors); (6) per tick, a node "
            "that is not ON executes only super/interfaces/the two countdown blocks of apply_timestep (no node scan, process, "
            "service, application or file-system step) and no software or scan clock moves however long it stays not ON, while "
            "every statement of pre_timestep runs regardless (counter resets, user-session time-outs); (7) on reaching ON every "
            "linked interface is enabled and RUNNING/PAUSED/STOPPED services and RUNNING/CLOSED applications are RUNNING, DISABLED / "
            "RESTARTING / INSTALLING software is left as it was (exact, service by service); (8) ONE composite timing theorem: a timed "
            "power cycle (shutdown, d_s ticks, one tick, any wait, startup, d_u ticks, one tick, arbitrary other requests/frames "
            "interleaved) visits exactly SHUTTING_DOWN, OFF, BOOTING, ON with four assignments and the exact tick numbers, and reset = "
            "the same with the automatic start; (9) startup is accepted iff the node is OFF (validators translated by meaning); "
            "(10) the direct API: the exact transition table of power_on/power_off/reset from every state and the exact condition "
            "under which a direct call leaves the state machine; (11) a frame reaches a node's receive_frame / session manager / "
            "software manager / software receive only through an interface's hand-over under `if self.enabled` (cut theorem over the "
            "regenerated table of all hand-over calls), hence a non-ON node processes no traffic; (12) user-session time-outs are a "
            "function of the sessions and the time alone (modelled; agrees with C16's model; logins refused while not ON); (13) the "
            "composite timing theorem for ALL integer durations (a duration <= 0 skips the transitional state within the request); "
            "(14) a session that survives a power cycle is inert while the node is not ON (every request but startup refused and "
            "changing nothing, every login refused, every frame stopped at the interface; only the time-out sweep touches it); "
            "(15) the power methods are tied BY MEANING: the bodies of Node.power_on / power_off / reset / the countdown blocks of "
            "apply_timestep / _start_up_actions / _shut_down_actions are translated statement by statement (helper methods of Node inlined, "
            "all()/any() over the interfaces with their short-circuit semantics) and proved, for every node, to compute exactly the model's "
            "powerOn / powerOff / reset / tickDown∘tickUp / actions (node afterwards incl. every operating_state assignment, and the answer); "
            "a rewrite that keeps the meaning re-proves, one that does not breaks the theorem and a counter-model search prints the "
            "differing node closest to a fresh one, which is replayed on the real code at once (shortest request sequence); "
            "(16) the interfaces' own enable()/disable() (Wired-, IPWired-, Wireless-, IPWirelessNetworkInterface) are translated too "
            "(local variables, super(), a dereference of a missing node/link raises) and proved for EVERY interface, node or no node, "
            "every node state, link or no link: enable is the model's Nic.enable (refuses unless the node is ON / a link is attached), "
            "never raises, answers as the model says; disable always clears and answers True; "
            "(17) every route registered at RUN TIME (application installed by request, software installed by the software manager, "
            "interface connected later) goes into a manager that hangs under a node-level edge with the node-is-on validator "
            "(regenerated list of registration sites; a registration on the node's own manager is refused by the extractor), hence a "
            "node that is not ON refuses whatever is sent below it, for every node class. "
            "Tie: Gen/PowerProg.lean (the translated bodies) + Gen/Power.lean (enum, defaults, "
            "guarded statement lists of apply_timestep and pre_timestep, the inventory of "
            "every enable/disable definition, run-time route registration sites, validators, route tables per class, inventories of every class below Node and "
            "NetworkInterface, the power-relevant statements of constructors/loader/set-up, every power_on/power_off call site, "
            "software guards) + Gen/RequestSchema.lean (C05x's schematic request tree) + differential rig R-node: bounded-exhaustive "
            "and random request/tick/ping sequences on two hosts, on a six-class network, and with a node of EVERY instantiable class "
            "under test between peers; direct API calls, run-time duration changes, negative and huge durations; whole power cycles "
            "from assorted software states; whole power cycles for EVERY placement of the links on the ports of a switch / router / "
            "firewall (and plugged / unplugged hosts and wireless routers), also after an interface was disabled by request; an application of every registered class installed at run time (by request / by the software manager) on a computer and a server, the node then OFF / SHUTTING_DOWN / BOOTING and every leaf of its live request tree sent; scenario dictionaries with every declared state through PrimaiteGame.from_config and "
            "setup_for_episode; user-session time-outs across power changes. Compared after every operation: the response, every "
            "operating_state assignment, the whole modelled state, and per tick which sub-component pre_timestep/apply_timestep calls "
            "the node made; implementation-side oracles for frames passing an interface of a non-ON node, enabled interfaces / "
            "running software in the wrong state, a plugged-in interface left down by the operation that returned the node to ON, accepted requests, moved software clocks, pings crossing a non-ON node.",
    "note": "C12-specific: the software layer is summarised (service/application state + restart/install countdown, two node-scan "
            "countdowns); what a running service does with a payload is C13, sessions are C16 (here only: their time-out ignores "
            "power). The legal-moves and timing theorems are about requests, as the property's quantifier is: the Python API and "
            "episode set-up can leave the state machine (power_on() with duration <= 0 from SHUTTING_DOWN: theorem C12_setup_jump, an "
            "observation related to F-31, not claimed as a violation); the invariants (3)(4) are proved for those entry points too. "
            "Traffic theorems stop at the interface's `enabled` test (C06/C08 take over).",
    "technique": "Lean 4 theorems (induction over operation sequences, invariants, statement-list interpretation) over an executable "
                 "power model; model tied by regenerated tables/shapes/inventories and a differential rig",
    "design_ref": "5/C12",
}
MODULES = ["PrimaiteModel.Props.C12", "PrimaiteModel.Props.C12Deep", "PrimaiteModel.Props.C12Cycle", "PrimaiteModel.Props.C12Any",
           "PrimaiteModel.Props.C12Prog"]
EXE = "drv_c12"
TAIL = [{"op": "tick"}, {"op": "ping", "src": 1, "dst": 0}, {"op": "tick"}, {"op": "tick"}, {"op": "tick"}, {"op": "tick"},
        {"op": "ping", "src": 1, "dst": 0}, {"op": "ping", "src": 0, "dst": 1}]


# ------------------------------------------------------------------------------------------------ one case
def _first_diff(lines: List[str], impl: List[str], model: List[str]) -> int:
    for i, (a, b) in enumerate(zip(impl, model)):
        if a != b:
            return i
    return -1 if len(impl) == len(model) else min(len(impl), len(model))


def _field_of_diff(a: str, b: str) -> str:
    ta, tb = a.split(), b.split()
    for x, y in zip(ta, tb):
        if x != y:
            return x.split("=")[0] if "=" in x else "answer"
    return "length"


def _diff_sig(case: dict, lines: List[str], impl: List[str], model: List[str], i: int) -> dict:
    w = lines[i].split() if 0 <= i < len(lines) else ["?"]
    op = w[0] + (":" + w[2] if w[0] == "req" and len(w) > 2 else "")
    cls = "?"
    if w[0] in ("req", "tick", "in", "api", "setdur", "setup", "login", "sesscfg") and len(w) > 1 and w[1].isdigit():
        cls = case["nodes"][int(w[1])]["cls"]
    elif w[0] == "load" and len(w) > 1:
        cls = w[1]
    elif w[0] == "pingpath":
        cls = case["nodes"][0]["cls"]
    if w[0] == "api" and len(w) > 2:
        op = "api:" + w[2]
    return {"kind": "model-vs-impl", "op": op, "field": _field_of_diff(impl[i], model[i]) if i < min(len(impl), len(model)) else "length",
            "cls": cls}


def _oracle_sig(o: str) -> dict:
    kind, cls, _ = o.split("|", 2)
    return {"kind": "oracle", "oracle": kind, "cls": cls}


def _eval_case(case: dict) -> Tuple[List[dict], List[str], List[str], List[str]]:
    """Run one case on both sides. Returns (failures [{sig, what}], lines, impl, model)."""
    if case.get("kind") == "rtinstall":   # implementation-side family: the oracle is theorem C12_runtime_routes_refused
        fs, _ = rig.run_rtinstall(case)
        return [{"sig": _oracle_sig(o), "what": "oracle: " + o} for o in fs], [], [], []
    lines, impl, oracle, _ = rig.run_case(case)
    model = run_driver(EXE, lines)
    fails = []
    i = _first_diff(lines, impl, model)
    if i >= 0:
        fails.append({"sig": _diff_sig(case, lines, impl, model, i),
                      "what": f"answer/state differs from the proved model at line {i} ({lines[i] if i < len(lines) else '?'}): "
                              f"impl={impl[i] if i < len(impl) else None!r} model={model[i] if i < len(model) else None!r}"})
    for o in oracle:
        fails.append({"sig": _oracle_sig(o), "what": "oracle: " + o})
    return fails, lines, impl, model


def replay(rec: dict) -> bool:
    with lean_lock():
        from harness.lib.core import lake_build
        lake_build([EXE])
    fails, *_ = _eval_case(rec["replay"]["case"])
    return not fails



# ------------------------------------------------------------------------------------------------ counter-model -> replay
_CM_METHOD = {"reset": "reset", "power_off": "shutdown", "power_on": "startup", "apply_timestep": None}


def _case_from_counter_model(line: str) -> Optional[dict]:
    """A counter-model of a translated power method (a line of drv_c12prog) turned into the SHORTEST request sequence that puts a
    real node into that state and calls the method: only for nodes a fresh episode reaches at once (ON with nothing pending; OFF
    after a shutdown), durations >= 0. None when the node is not of that kind (the rig families then have to find the input)."""
    w = line.split(" | ")[0].split()
    meth = w[0]
    f = dict(t.split("=", 1) for t in w[2:] if "=" in t)
    try:
        up, down = int(f["up_dur"]), int(f["down_dur"])
    except (KeyError, ValueError):
        return None
    if meth not in _CM_METHOD or up < 0 or down < 0 or f.get("rs") != "false" or f.get("up_cd") != "0" or f.get("down_cd") != "0":
        return None
    call = [{"op": "req", "node": 0, "key": _CM_METHOD[meth]}] if _CM_METHOD[meth] else [{"op": "tick"}]
    if f.get("st") == "ON":
        pre = []
    elif f.get("st") == "OFF":
        pre = [{"op": "req", "node": 0, "key": "shutdown"}] + [{"op": "tick"}] * (down + 1 if down > 0 else 0)
    else:
        return None
    return rig.pair_case(up, down, 1, 1, pre + call + [{"op": "tick"}] * (up + down + 2))

# ------------------------------------------------------------------------------------------------ workers
def _work(case: dict):
    try:
        lines, impl, oracle, fe = rig.run_case(case)
        return lines, impl, oracle, fe, None
    except Exception as e:  # the machinery, not the property
        import traceback
        return [], [], [], {}, f"{type(e).__name__}: {e}\n{traceback.format_exc()[-1500:]}"


def _run_impl_all(cases: List[dict], workers: int):
    if workers <= 1 or len(cases) < 50:
        return [_work(c) for c in cases]
    import primaite  # noqa: F401  (import before forking so that workers share it)
    ctxm = mp.get_context("fork")
    with ctxm.Pool(workers) as pool:
        return pool.map(_work, cases, chunksize=max(1, min(200, len(cases) // (workers * 4))))


# ------------------------------------------------------------------------------------------------ the check
def run(ctx: Ctx):
    import time
    t0 = time.time()
    cm_cases: List[Tuple[str, Optional[dict]]] = []
    iface_table: Dict[str, str] = {}
    with lean_lock():
        ctx.extract("Power", x_power.emit)
        ctx.extract("PowerProg", x_prog.emit)
        ctx.extract("RequestSchema", x_schema.emit)
        ctx.prove(MODULES, exes=[EXE], clean=False, leanchecker=ctx.thorough)
        # counter-model search for the translated power methods: turns a broken `C12_gen_*_sem` proof into a readable node
        # (it proves nothing; when the theorems check it must find nothing)
        try:
            import subprocess
            from harness.lib.core import LEAN, lake_build
            okb, outb = lake_build(["drv_c12prog"])
            if okb:
                res = subprocess.run([str(LEAN / ".lake" / "build" / "bin" / "drv_c12prog")], stdout=subprocess.PIPE, text=True, timeout=600)
                iface_table.update(dict(l.split(" -> ", 1) for l in res.stdout.splitlines() if l.startswith("table ") and " -> " in l))
                found = [l for l in res.stdout.splitlines() if " counter-model " in l]
                tried = [l for l in res.stdout.splitlines() if " ok " in l]
                ctx.oblige("model:translated power methods agree with the model on every small node (counter-model search)",
                           "correspondence", not found and len(tried) == 12, " || ".join(found)[:3000] or res.stdout[:500])
                for l in found:
                    ctx.notes.append("counter-model of a translated power method: " + l[:1200])
                    cm_cases.append((l.split()[0], _case_from_counter_model(l)))
                if tried:
                    ctx.notes.append("counter-model search: " + "; ".join(tried))
            else:
                ctx.oblige("model:translated power methods agree with the model on every small node (counter-model search)",
                           "correspondence", False, "drv_c12prog does not build: " + outb[-600:])
        except Exception as e:
            ctx.oblige("model:translated power methods agree with the model on every small node (counter-model search)",
                       "correspondence", False, f"{type(e).__name__}: {e}")
    # the translation of the interfaces' enable()/disable() validated on REAL interface objects in every context (no node / node in
    # each state, link or none, up or down, every interface class a node carries, the base classes' methods called unbound)
    try:
        import logging
        logging.disable(logging.CRITICAL)
        try:
            real = rig.iface_probe()
        finally:
            logging.disable(logging.NOTSET)
        bad = {k: {"real": v, "translated": iface_table.get(k)} for k, v in real.items() if iface_table.get(k) != v}
        ctx.count("iface-probe:contexts", len(real))
        ctx.count("iface-probe:raised", sum(1 for v in real.values() if "RAISES" in v))
        ctx.oblige("rig:the translated interface enable()/disable() agree with the real interface objects in every context (probe)",
                   "correspondence", bool(real) and bool(iface_table) and not bad, json.dumps(bad)[:2000])
    except Exception as e:
        ctx.oblige("rig:the translated interface enable()/disable() agree with the real interface objects in every context (probe)",
                   "correspondence", False, f"{type(e).__name__}: {e}")
    # a counter-model of a broken `C12_gen_*_sem` theorem is replayed on the REAL code at once: the shortest request sequence that
    # reaches the node and calls the method, compared with the proved model like any other case, then shrunk
    for meth, cm in cm_cases:
        if cm is None:
            ctx.notes.append(f"counter-model of {meth}: not a node a fresh episode reaches at once; left to the rig families")
            continue
        try:
            fails_cm, *_ = _eval_case(cm)
        except Exception as e:
            ctx.notes.append(f"counter-model of {meth}: replay failed to run ({type(e).__name__}: {e})")
            continue
        if not fails_cm:
            ctx.notes.append(f"counter-model of {meth}: the real code agrees with the model on the derived request sequence "
                             "(the difference is not observable through requests from this node)")
            continue
        hit = fails_cm[0]
        key = json.dumps(hit["sig"], sort_keys=True)

        def still_cm(ops, cm=cm, key=key):
            fs, *_ = _eval_case(dict(cm, ops=ops))
            return any(json.dumps(f["sig"], sort_keys=True) == key for f in fs)
        small = dict(cm, ops=shrink_ops(cm["ops"], still_cm, budget=40))
        fs, lines2, impl2, model2 = _eval_case(small)
        hit2 = next((f for f in fs if json.dumps(f["sig"], sort_keys=True) == key), None)
        if hit2 is None:
            small, hit2 = cm, hit
            fs, lines2, impl2, model2 = _eval_case(cm)
        ctx.violation(hit2["sig"], hit2["what"], {"case": small, "lines": lines2, "impl": impl2, "model": model2,
                                                  "from": f"counter-model of the translated {meth} (C12_gen_{meth}_sem)"})
        ctx.notes.append(f"counter-model of {meth} replayed on the real code: {len(small['ops'])} operation(s): "
                         + json.dumps(small["ops"])[:300] + " -> " + hit2["what"][:300])
    ctx.cov["rule"] = ("case = (node classes, start-up/shut-down durations, op sequence over shutdown/startup/reset requests, ticks, "
                       "pings, other node-level requests, frame injections); every answer, every operating_state assignment and "
                       "the whole modelled state after every op are compared; a case is non-trivial when some node leaves ON or "
                       "a request is refused; distinct by canonical JSON of the case")
    # --- run-time cross-check of the regenerated route tables (tells 'the table changed' from 'the extractor mis-read')
    try:
        gen = {d: rs for d, rs in x_power.class_tables()}
        live = rig.route_tables()
        bad = {c: (gen.get(c), live.get(c)) for c in set(gen) | set(live) if gen.get(c) != live.get(c)}
        ctx.oblige("gen:classTables = live request managers", "correspondence", not bad, json.dumps(bad)[:2000])
        from primaite.simulator.network.hardware.node_operating_state import NodeOperatingState
        ctx.oblige("gen:stateValues = list(NodeOperatingState)", "correspondence",
                   [(m.name, m.value) for m in NodeOperatingState] == [("ON", 1), ("OFF", 2), ("BOOTING", 3), ("SHUTTING_DOWN", 4)])
        reg, kinds = rig.live_inventories()
        gen_nodes = {d: (n, inst) for n, d, inst, _ in x_power.node_inventory() if d}
        ctx.oblige("gen:nodeClasses = Node._registry (discriminator, class, instantiable)", "correspondence", gen_nodes == reg,
                   json.dumps({"gen": gen_nodes, "live": reg})[:2000])
        driven = sorted(n for n, (c, inst) in reg.items() if inst)
        ctx.oblige("rig drives every instantiable node class", "correspondence", driven == sorted(rig.ALL_CLASSES),
                   json.dumps({"instantiable": driven, "driven": sorted(rig.ALL_CLASSES)}))
        ctx.oblige("rig drives every interface class a node carries", "correspondence", kinds == sorted(rig.NIC_KIND),
                   json.dumps({"carried": kinds, "driven": sorted(rig.NIC_KIND)}))
    except Exception as e:
        ctx.oblige("gen:classTables = live request managers", "correspondence", False, f"{type(e).__name__}: {e}")

    t_prove = time.time() - t0
    cases: List[Tuple[str, dict]] = []
    for f in sorted((VERIF / "corpus" / "C12").glob("*.json")):
        cases.append(("corpus:" + f.name, json.loads(f.read_text())["case"]))
    # --- bounded-exhaustive core: every sequence of the 7-letter alphabet, followed by a fixed observation tail
    rng = ctx.rng.fork("power")
    all_durs = [(u, d) for u in (0, 1, 2, 3) for d in (0, 1, 2, 3)]
    depth_all = ctx.scale(3, 4)
    # quick (round 7, to pay for the layout family): {0,1,3}²; duration 2 is in the class / layout / random families and in thorough
    pair_durs = all_durs if ctx.thorough else [(u, d) for (u, d) in all_durs if u != 2 and d != 2]
    for (u, d) in pair_durs:
        for k, c in enumerate(rig.exhaustive_pair(depth_all, (u, d, 1, 1))):
            c["ops"] += [dict(o) for o in TAIL]
            cases.append((f"exh{depth_all}:{u},{d}:{k}", c))
    deeper = [(0, 0)] + rng.shuffle([x for x in all_durs if x != (0, 0)])[: ctx.scale(0, 1)]
    if ctx.thorough:
        for (u, d) in deeper:
            for k, c in enumerate(rig.exhaustive_pair(depth_all + 1, (u, d, 1, 1))):
                c["ops"] += [dict(o) for o in TAIL]
                cases.append((f"exh{depth_all + 1}:{u},{d}:{k}", c))
    # --- every node class under test between peers: bounded-exhaustive over the class's own 7-letter alphabet
    cls_depth = ctx.scale(2, 3)
    # quick: {0,1,3}² without (1,1) and (3,3)
    cls_durs = all_durs if ctx.thorough else [(u, d) for (u, d) in all_durs if u != 2 and d != 2 and (u, d) not in ((1, 1), (3, 3))]
    for cls in rig.ALL_CLASSES:
        if cls == "computer":
            continue  # the pair family above
        for (u, d) in cls_durs:
            for k, c in enumerate(rig.exhaustive_cls(cls, cls_depth, u, d)):
                cases.append((f"clsexh{cls_depth}:{cls}:{u},{d}:{k}", c))
        if not ctx.thorough and cls in ("printer", "server"):
            continue  # quick: the deeper family on one host class besides computer (host-node); all host classes share HostNode's code
        for k, c in enumerate(rig.exhaustive_cls(cls, cls_depth + 1, 0, 0)):
            cases.append((f"clsexh{cls_depth + 1}:{cls}:0,0:{k}", c))
    # --- round 7: whole power cycles for every placement of the links on the ports of a switch / router / firewall
    for k, c in enumerate(rig.layout_cycle_cases()):
        cases.append((f"layout:{c['nodes'][0]['cls']}:{k}", c))
    # --- dynamic cross-check of the (lexical) frame entry-point table: every class, every interface, every power state
    for k, c in enumerate(rig.entry_cases()):
        cases.append((f"entry:{c['nodes'][0]['cls']}:{k}", c))
    # --- random: two hosts, the six-class network, every class (requests only / with direct API calls and duration changes),
    #     whole power cycles from assorted software states, scenario files through the loader
    for k in range(ctx.scale(400, 4000)):
        cases.append((f"pair:{k}", rig.gen_random_pair(rng, ctx.scale(30, 60))))
    for k in range(ctx.scale(150, 1500)):
        cases.append((f"scen:{k}", rig.gen_random_scenario(rng, ctx.scale(30, 60))))
    for k in range(ctx.scale(320, 4000)):
        cases.append((f"cls:{k}", rig.gen_random_cls(rng, ctx.scale(30, 60), cls=rig.ALL_CLASSES[k % len(rig.ALL_CLASSES)])))
    for k in range(ctx.scale(240, 3000)):
        cases.append((f"clsapi:{k}", rig.gen_random_cls(rng, ctx.scale(30, 60), cls=rig.ALL_CLASSES[k % len(rig.ALL_CLASSES)], api=True)))
    for k in range(ctx.scale(200, 2000)):
        cases.append((f"cycle:{k}", rig.gen_cycle(rng)))
    for k in range(ctx.scale(120, 1000)):
        cases.append((f"load:{k}", rig.load_case(rng, ctx.scale(16, 40))))
    for k in range(ctx.scale(100, 1000)):
        cases.append((f"sess:{k}", rig.gen_sessions(rng)))

    only = [x for x in os.environ.get("C12_FAMILIES", "").split(",") if x]
    # --- round 7c: routes registered at RUN TIME. An application is installed during the episode (by request / by the software
    #     manager), the node leaves ON, every leaf of its LIVE request tree is sent: all must answer `failure` and change nothing
    #     (theorem C12_runtime_routes_refused + C12_refused_unless_startup_all_classes, read on the implementation)
    rt_fail, rt_seen = 0, set()
    for c in (rig.runtime_install_cases() if (not only or "rtinstall" in only) else []):
        try:
            fs, h = rig.run_rtinstall(c)
        except Exception as e:
            raise RuntimeError(f"rig failed on rtinstall {c}: {type(e).__name__}: {e}")
        ctx.case(c, True)
        ctx.count("family:rtinstall")
        ctx.cov["traces_validated_against_impl"] += 1
        for k, v in h.items():
            ctx.count("rtinstall:" + k, v)
        if fs:
            rt_fail += 1
        for o in fs:
            key = json.dumps(_oracle_sig(o), sort_keys=True)
            if key in rt_seen:
                continue
            rt_seen.add(key)
            small = c
            if " -> " in o.split("|", 2)[2]:
                cand = dict(c, only=o.split("|", 2)[2].split(" -> ")[0].split("/"))
                if any(json.dumps(f["sig"], sort_keys=True) == key for f in _eval_case(cand)[0]):
                    small = cand
            ctx.violation(_oracle_sig(o), "oracle: " + o, {"case": small, "lines": [], "impl": [], "model": [], "from": "rtinstall"})
    if not only or "rtinstall" in only:
        blind = not (ctx.hist.get("rtinstall:installed-at-run-time", 0) and ctx.hist.get("rtinstall:answer:runtime:failure", 0)
                     and ctx.hist.get("rtinstall:answer:other:failure", 0))
        ctx.oblige("rig:every leaf of the live request tree (routes registered at run time included) is refused while the node is not ON",
                   "correspondence", rt_fail == 0 and not blind,
                   f"{rt_fail} case(s) failed; installed at run time: {ctx.hist.get('rtinstall:installed-at-run-time', 0)}, "
                   f"requests sent: {ctx.hist.get('rtinstall:leaves-sent', 0)}, of which to run-time routes and refused: "
                   f"{ctx.hist.get('rtinstall:answer:runtime:failure', 0)}")
    if only:   # development aid (mutation self-checks): run the named families only; recorded in the evidence
        cases = [(nm, c) for nm, c in cases if nm.split(":")[0] in only]
        ctx.notes.append(f"C12_FAMILIES={','.join(only)}: only these case families were run (development setting, not the check as shipped)")
    workers = int(os.environ.get("C12_WORKERS", "0")) or max(1, min(14, (os.cpu_count() or 2) - 2))
    t1 = time.time()
    results = _run_impl_all([c for _, c in cases], workers)
    t_impl = time.time() - t1
    lines_all: List[str] = []
    bounds = []
    for (name, case), (lines, impl, oracle, fe, err) in zip(cases, results):
        if err:
            raise RuntimeError(f"rig failed on {name}: {err}")
        bounds.append((len(lines_all), len(lines)))
        lines_all += lines
    t2 = time.time()
    model_all = run_driver(EXE, lines_all, timeout=3000)
    t_model = time.time() - t2
    t3 = time.time()
    agree = 0
    oracle_bad = 0
    reported = set()
    unstable: List[dict] = []
    for (name, case), (lines, impl, oracle, fe, _), (st, ln) in zip(cases, results, bounds):
        model = model_all[st:st + ln]
        ctx.cov["traces_validated_against_impl"] += 1
        for k, v in fe.items():
            ctx.count("frame:" + k, v)
        left_on = any("st=" in m and "st=ON" not in m for m in model)
        refused = any(m.startswith("failure") or m.startswith("unreachable") for m in model)
        ctx.case(case, left_on or refused)
        ctx.count("family:" + name.split(":")[0])
        if case["kind"] == "cls":
            ctx.count("under-test:" + case["nodes"][0]["cls"])
        else:
            for c in sorted({sp["cls"] for sp in case["nodes"]}):
                ctx.count("present:" + c)
        for q, m in zip(lines, model):
            w = q.split()
            if m == "bad-op":
                raise RuntimeError(f"driver rejected line {q!r}")
            if w[0] == "req":
                ctx.count(f"req:{w[2]}:{m.split()[0]}")
                ctx.count(f"class:{case['nodes'][int(w[1])]['cls']}:req")
                if "h=" in m and " h=- " not in m:
                    ctx.count("trace:" + m.split()[1][2:])
            elif w[0] == "tick":
                if " h=- " not in m:
                    ctx.count("trace:" + m.split()[1][2:])
                ctx.count(f"class:{case['nodes'][int(w[1])]['cls']}:tick")
                st_after = next((t[3:] for t in m.split() if t.startswith("st=")), "?")
                work_tags = "".join(sorted({t[:2] for t in m.split()[2][2:].split(",") if t}))
                ctx.count(f"work:{'ON' if st_after == 'ON' else 'not-ON'}:{work_tags or 'none'}")
            elif w[0] in ("ping", "in", "pingpath"):
                ctx.count(f"{w[0]}:{m}")
            elif w[0] == "login":
                ctx.count(f"login:{w[3]}:{m.split()[0]}")
            elif w[0] == "api":
                ctx.count(f"api:{w[2]}")
                if " h=- " not in m:
                    ctx.count("apitrace:" + m.split()[1][2:])
            elif w[0] == "load":
                ctx.count(f"load:{w[1]}:declared={w[2]}:{m.split()[2][3:]}")
            elif w[0] == "setup":
                ctx.count("setup:" + (m.split()[1][2:] if " h=- " not in m else "no-assignment"))
            elif w[0] == "setdur":
                ctx.count("setdur:" + ("neg" if "-" in w[2] + w[3] else "huge" if len(w[2]) > 6 or len(w[3]) > 6 else "small"))
        i = _first_diff(lines, impl, model)
        if i < 0 and not oracle:
            agree += 1
            if name.startswith(("pair", "scen", "cls:", "load", "cycle")):
                ctx.sample({"case": name, "lines": lines[:10], "answers": model[:10]}, cap=8)
            continue
        if oracle:
            oracle_bad += 1
        # a disagreement with the proved model on a property observable, or a property oracle failing on the implementation
        batch_sigs = {json.dumps(_oracle_sig(o), sort_keys=True) for o in oracle}
        if i >= 0:
            batch_sigs.add(json.dumps(_diff_sig(case, lines, impl, model, i), sort_keys=True))
        if batch_sigs <= reported:
            continue  # nothing new in this trace: every signature it shows has been reported (with a replay) already
        fails0, *_ = _eval_case(case)
        sigs0 = {json.dumps(f["sig"], sort_keys=True) for f in fails0}
        if not fails0:  # seen in the batch but not when the case is run again on its own: keep what was seen
            unstable.append({"case": name, "line": lines[i] if 0 <= i < len(lines) else None,
                             "impl": impl[i] if 0 <= i < len(impl) else None, "model": model[i] if 0 <= i < len(model) else None,
                             "oracle": oracle[:3]})
        for key in sorted(sigs0):
            if key in reported:
                continue
            reported.add(key)

            def still(ops, case=case, key=key):
                fs, *_ = _eval_case(dict(case, ops=ops))
                return any(json.dumps(f["sig"], sort_keys=True) == key for f in fs)
            # the first few distinct signatures are minimised; the rest are reported as found (a defect that touches every
            # node class produces dozens of signatures, and each shrink step re-runs implementation and model)
            budget = 120 if len(reported) <= 6 else 12 if len(reported) <= 16 else 0
            small_ops = shrink_ops(case["ops"], still, budget=budget) if len(case["ops"]) > 1 and budget else case["ops"]
            small = dict(case, ops=small_ops)
            fs, lines2, impl2, model2 = _eval_case(small)
            hit = next((f for f in fs if json.dumps(f["sig"], sort_keys=True) == key), None)
            if hit is None:
                small = case
                fs, lines2, impl2, model2 = fails0, lines, impl, model
                hit = next(f for f in fs if json.dumps(f["sig"], sort_keys=True) == key)
            ctx.violation(hit["sig"], hit["what"], {"case": small, "lines": lines2, "impl": impl2, "model": model2, "from": name})
    # the dynamic counterpart of C12_gen_frame_entry_points: each interface class a node carries handed frames to its node when
    # enabled on an ON node (the probe is not blind) and never when disabled / on a node that is not ON
    ent = {k[len("frame:entry:"):]: v for k, v in ctx.hist.items() if k.startswith("frame:entry:")}
    bad_ent = {k: v for k, v in ent.items() if k.endswith("reached-node") and not k.split(":")[1:3] == ["ON", "enabled"]}
    blind = [c for c in rig.NIC_KIND if not ent.get(f"{c}:ON:enabled:reached-node")]
    unprobed = [f"{c}:{st}" for c in rig.NIC_KIND for st in ("OFF", "BOOTING", "SHUTTING_DOWN")
                if not ent.get(f"{c}:{st}:disabled:stopped-at-interface")]
    ctx.oblige("rig:every interface class hands frames to its node only when enabled on an ON node (dynamic entry cross-check)",
               "correspondence", not bad_ent and not blind and not unprobed,
               json.dumps({"reached-while-disabled-or-not-on": bad_ent, "never-reached-when-on": blind, "not-probed": unprobed}))
    ctx.notes.append("frame entry cross-check (frames handed straight to an interface): " + ", ".join(f"{k}={v}" for k, v in sorted(ent.items())))
    ctx.oblige("rig:R-node agrees on every trace", "correspondence", agree == len(cases),
               f"{len(cases) - agree} of {len(cases)} traces disagree or fail an oracle; not reproduced alone: {json.dumps(unstable)[:1500]}")
    ctx.notes.append(f"cases={len(cases)} lines={len(lines_all)} workers={workers} exhaustive depth {depth_all} over {len(pair_durs)} duration pairs"
                     + (f", depth {depth_all + 1} over {deeper}" if ctx.thorough else "")
                     + f"; class family: depth {cls_depth} over {len(cls_durs)} duration pairs (7 classes) + depth {cls_depth + 1} at (0,0) "
                     f"({7 if ctx.thorough else 5} classes)")
    ctx.notes.append(f"wall: extract+prove+audit+cross-checks {t_prove:.0f}s, implementation side {t_impl:.0f}s ({workers} workers), "
                     f"model driver {t_model:.0f}s, comparison {time.time() - t3:.0f}s")
    ctx.notes.append("node classes under test (cases): " + ", ".join(
        f"{c}={ctx.hist.get('under-test:' + c, 0) + (ctx.hist.get('family:exh' + str(depth_all), 0) if c == 'computer' else 0)}"
        for c in rig.ALL_CLASSES))
    ctx.notes.append("ticks observed with the node not ON afterwards: " + ", ".join(
        f"{k[5:]}={v}" for k, v in sorted(ctx.hist.items()) if k.startswith("work:not-ON")) +
        " (tags: pn/ps/pa/pf = pre_timestep of interfaces/services/applications/file system, tn/ts/ta/tf = apply_timestep)")
