"""C09 — observations faithfully encode ground truth."""
from __future__ import annotations

import json
import time
from typing import Any, Dict, List

from harness.extract import obs_enums as x_enums
from harness.extract import obs_tables as x_tables
from harness.extract import obs_config as x_cfg
from harness.lib.core import VERIF, Ctx, Rng, lean_lock, run_driver
from harness.props import c02
from harness.rigs import obs as rig
from harness.rigs import obs_env as env

MANIFEST = {
    "text": "Lean 4 proof that, for every observation object and every ground truth (simulator objects: power state, NIC enabled, "
            "service/application operating state and true/visible health, folder/file true/visible health and deleted items, ACL "
            "slots, link load, per-step counters, sessions), the code's observe() applied to describe_state() of the objects equals "
            "an independently written specification encoder over the objects (C09_observe_eq_spec, all classes, nested); scan "
            "gating per component kind; absent / deleted / node-not-ON read as default with operating_status still reported; slot "
            "i+1 reads configured component i, padding reads default, ACL entry i is list position i; the folder cache equals the "
            "visible health at every step of every scan-coherent trajectory; NMNE memory holds the previous counters, and the NMNE "
            "leaves follow the observed interface's OWN network settings (C09_nmne_follows_interface; F-10 repaired). "
            "WHICH option governs which leaf is proved from the scenario's words (Model/ObsConfig): the effective option of a host "
            "= host-level value if given, else nodes-level value, else the documented default, for every inheritable option "
            "(C09_effective_options, full since the F-C09-3 repair; counterexample for the old default proved), likewise routers / "
            "firewalls / the acl sub-configuration; every service / application / folder / file / NIC slot of a built host is gated "
            "by that effective option and a value at the child's own level is ignored (C09_built_host_gates); the health leaf the "
            "code reports is the last-scanned value exactly when the SCENARIO's effective requires_scan is true "
            "(C09_*_gate_from_scenario). The simulator-side condition of the folder-cache invariant is proved about C14's health "
            "model: a folder's visible health changes only in a timestep in which a scan of it completes (C09_health_*). Objects "
            "with one name: the statement presupposes distinct live names (Truth.NamesDistinct); under it the model's lookups are "
            "the Python dictionary lookups (C09_first_match_is_dict_lookup, counterexample without it). "
            "Threshold triples: _validate_thresholds is TRANSLATED (Gen validateThresholds = Thr.valid for every triple, "
            "C09_gen_validate_thresholds), the setters / constructor calls are regenerated (C09_gen_threshold_setters), the model "
            "validates where components are constructed (before truncation), and every object ObservationManager builds holds only "
            "strictly ascending triples (C09_built_thr_valid) - the invariant under which the code's if-chain equals the documented "
            "band table (C09_band_eq_code). The not-ON family (C09Power) and the NMNE case table (by cases, not by source text) "
            "are as in rounds 6 / 7. "
            "Tie: scan-gate keys and cache update (C09_gen_scan_gates), every ConfigSchema default, every push-down statement, "
            "constructor and padding arguments of every from_config / __init__ (C09_gen_schema_*, C09_gen_pushdown_*, "
            "C09_gen_ctor_args), the folder flag set at both writers of visible_health_status (C09_gen_folder_flag) + rig that reads "
            "ground truth from the objects (not from describe_state), sends it to the model whose observation object was built from "
            "the scenario's observation_space SECTION (not read back from the constructed object), and diffs spec(truth) with the "
            "observation the environment returned at every step of random and adversarial trajectories (direct object mutation "
            "included), with non-default nodes-level options that hosts do not repeat; an ACL family on real routers / firewalls "
            "with every presence combination of the seven rule fields; a threshold family on real components (ascending and every kind "
            "of non-ascending triple: a component that exists must band by the documented table); in every ground-truth run a scripted "
            "phase first drives every observed leaf away from its default (NMNE, counters, log-ins, traffic, link load) and THEN takes "
            "the component away (power off through the countdown / OFF / booting, delete, uninstall), and an alias oracle checks after "
            "every step that no stored default_observation of any observation object changed.",
    "note": "C09-specific: binned float leaves (NIC TRAFFIC, link PROTOCOLS) are excluded from the equality on steps where float rounding "
            "differs from the exact bin. The specification is independent of observe() but shares its threshold categoriser and "
            "dictionary-layout definitions. A listed network interface monitors only its OWN monitored_traffic (the host/nodes value "
            "is not pushed into it): modelled and stated (C09_built_nic_traffic), not treated as a defect.",
    "technique": "Lean 4 refinement proof (code encoder o describe_state = specification over objects; construction from the scenario) + ground-truth differential rig",
    "design_ref": "5/C09",
}
MODULES = ["PrimaiteModel.Props.C09", "PrimaiteModel.Props.C09Cfg", "PrimaiteModel.Props.C09Health", "PrimaiteModel.Props.C09Power",
           "PrimaiteModel.Props.C09Built"]
EXE = "drv_c02"


# ----------------------------------------------------------------------------------------------- adversarial object mutation
def chaos(game, rng: Rng) -> None:
    """Change the simulator objects directly (between agent actions), so that states no action sequence of the shipped agents
    reaches quickly are visited too: compromised / fixing / stopped / deleted / off / scanned, ACL edits, logins, traffic."""
    from primaite.simulator.file_system.file_system_item_abc import FileSystemItemHealthStatus
    from primaite.simulator.system.software import SoftwareHealthState
    if not rng.chance(1, 2):
        return
    health = [h for h in SoftwareHealthState if h.name != "FIXING"]  # FIXING is entered through fix() (it needs its countdown)
    nodes = list(game.simulation.network.nodes.values())
    watched = observed_hostnames(game)
    pool = [n for n in nodes if n.config.hostname in watched]
    node = rng.choice(pool) if pool and rng.chance(3, 4) else rng.choice(nodes)  # mostly nodes some agent observes
    k = rng.below(14)
    try:
        if k == 0 and node.services:
            s = rng.choice(list(node.services.values()))
            s.health_state_actual = rng.choice(health)
        elif k == 1 and node.services:
            s = rng.choice(list(node.services.values()))
            rng.choice([s.stop, s.start, s.pause, s.resume, s.restart, s.disable, s.enable, s.scan, s.fix])()
        elif k == 2 and node.applications:
            a = rng.choice(list(node.applications.values()))
            rng.choice([a.run, a.close, a.scan, a.fix, lambda: setattr(a, "health_state_actual", rng.choice(health)),
                        lambda: setattr(a, "num_executions", a.num_executions + rng.range(1, 12))])()
        elif k == 3:
            folders = list(node.file_system.folders.values())
            if folders:
                f = rng.choice(folders)
                rng.choice([f.scan, f.corrupt, f.repair, f.restore, lambda: node.file_system.delete_folder(f.name)])()
        elif k == 4:
            files = [x for f in node.file_system.folders.values() for x in f.files.values()]
            if files:
                x = rng.choice(files)
                rng.choice([x.scan, x.corrupt, x.repair, lambda: node.file_system.delete_file(x.folder_name, x.name),
                            lambda: setattr(x, "num_access", x.num_access + rng.range(1, 12)),
                            lambda: setattr(x, "health_status", rng.choice(list(FileSystemItemHealthStatus)))])()
        elif k == 5:
            for _ in range(rng.range(1, 6)):
                node.file_system.create_file(file_name=f"v{rng.below(1000)}.txt", folder_name=rng.choice(["root", "verif"]))
        elif k == 6:
            netnodes = [n for n in pool if type(n).__name__ in ("Router", "Firewall", "WirelessRouter")]
            target = rng.choice(netnodes) if netnodes and rng.chance(1, 2) else node  # routers and firewalls too, not only hosts
            rng.choice([target.power_off, target.power_on, target.reset])()
        elif k == 7 and node.network_interface:
            nic = rng.choice(list(node.network_interface.values()))
            rng.choice([nic.disable, nic.enable])()
        elif k == 8:
            from primaite.simulator.network.hardware.nodes.network.router import AccessControlList, ACLAction
            acls = [getattr(node, a) for a in rig.ACL_NAMES if isinstance(getattr(node, a, None), AccessControlList)]
            if acls:
                acl = rng.choice(acls)
                if rng.chance(3, 4):
                    acl.add_rule(position=rng.range(0, 11), **gen_rule_args(rng, known_addresses(game)))
                else:
                    acl.remove_rule(rng.range(0, 11))
        elif k == 9 and hasattr(node, "user_session_manager"):
            usm = node.user_session_manager
            if rng.chance(1, 2):
                usm.local_login("admin", "admin")
            else:
                usm.local_logout()
        elif k == 10:
            node.scan() if hasattr(node, "scan") else None
        elif k == 11 and node.network_interface:
            nic = rng.choice(list(node.network_interface.values()))
            if getattr(nic, "_connected_link", None) is not None:
                nic._connected_link.current_load = rng.choice([0.0, 1.0, nic._connected_link.bandwidth / 2, nic._connected_link.bandwidth * 2])
        elif k == 12 and node.network_interface:
            nic = rng.choice(list(node.network_interface.values()))
            nic.traffic = {"icmp": {"inbound": rng.choice([0, 0.001, 50.0, 250.0]), "outbound": 0.25},
                           "tcp": {80: {"inbound": rng.choice([0, 12.5, 99.0, 1000.0]), "outbound": 0}, 5432: {"inbound": 3.0, "outbound": 7.0}}}
        elif k == 13 and node.network_interface:
            nic = rng.choice(list(node.network_interface.values()))
            if nic.nmne_settings.capture_nmne:
                d = nic.nmne.setdefault("direction", {}).setdefault(rng.choice(["inbound", "outbound"]), {}).setdefault("keywords", {})
                d["*"] = d.get("*", 0) + rng.choice([1, 2, 6, 11])
    except Exception:  # noqa: BLE001 - a refused mutation is not an observation concern
        pass


def observed_hostnames(game) -> set:
    out = set()
    for _name, agent in rig.agents_with_obs(game):
        for _path, o in rig.walk(agent.observation_manager.obs):
            w = getattr(o, "where", None)
            if w is not None and len(list(w)) >= 3 and list(w)[:2] == ["network", "nodes"]:
                out.add(list(w)[2])
    return out


def known_addresses(game) -> List[str]:
    out = []
    for n in game.simulation.network.nodes.values():
        for nic in n.network_interface.values():
            ip = getattr(nic, "ip_address", None)
            if ip is not None and str(ip) not in out:
                out.append(str(ip))
    return out


def gen_rule_args(rng: Rng, addresses: List[str]) -> dict:
    """An ACL rule in which EVERY field of each end is independently present or absent (so: a wildcard mask on an end without an
    address, a port without a protocol, ...), values drawn from what observation spaces usually list plus unlisted ones."""
    from primaite.simulator.network.hardware.nodes.network.router import ACLAction

    def opt(pool):
        return rng.choice(pool) if rng.chance(1, 2) else None
    ips = (addresses or ["192.168.1.10"]) + ["10.9.9.9"]
    wcs = ["0.0.0.1", "0.0.0.255", "0.0.255.255", "0.0.0.3"]
    ports = [80, 5432, 53, 0, 21, 8080]
    return {"action": rng.choice(list(ACLAction)), "protocol": opt(["tcp", "udp", "icmp"]),
            "src_ip_address": opt(ips), "src_wildcard_mask": opt(wcs), "src_port": opt(ports),
            "dst_ip_address": opt(ips), "dst_wildcard_mask": opt(wcs), "dst_port": opt(ports)}


def parse_spec_line(line: str):
    spec_part, _, obs_part = line.partition(" | ")
    spec = rig.parse_val(spec_part.split())
    mv, mcontained = c02.parse_report(obs_part)
    return spec, mv


def check_truth_run(ctx: Ctx, rname: str, res: dict, by_track: Dict[str, List[str]]) -> bool:
    ok = True
    recipe = res.get("recipe")
    for inc in res["incoherent"]:
        ctx.violation({"kind": "sim-incoherent", "site": "Folder.visible_health_status", "cause": "changed-without-scanned_this_step"},
                      f"{rname}: folder {inc['folder']} visible health changed {inc['visible']} in a step not flagged scanned_this_step "
                      f"(episode {inc['episode']} step {inc['step']}): the folder observation cannot show it", dict(inc, recipe=recipe))
    for key, tr in res["tracks"].items():
        model = by_track[key]
        if model[env.CFG_AT] != "ok":
            continue  # reported by check_env
        step = -1
        for idx in range(tr["first"], len(tr["impl"])):
            cell = tr["impl"][idx]
            if isinstance(cell, str) or cell[0] in ("flatdim", "gflat"):
                continue
            step += 1
            o, contained, fb = cell
            spec, mv = parse_spec_line(model[idx])
            ctx.count("truth:steps-compared")
            ctx.count("truth:model-object-from-" + tr["mode"])
            a, b, m = o, spec, mv
            if fb:
                a, b, m = rig.strip_bins(o), rig.strip_bins(spec), rig.strip_bins(mv)
                if (a, b, m) != (o, spec, mv) and (o != spec or o != mv) and a == b == m:
                    ctx.count("truth:float-boundary-step (binned leaves excluded)")
            if a != b:
                ok = False
                d = rig.first_diff(a, b) or ""
                path = d.split(": impl=")[0]
                sig = {"kind": "obs-vs-ground-truth", "leaf": path.rsplit("/", 1)[-1].split(":", 1)[-1], "property_oracle": "observation == spec(objects)"}
                if sig["leaf"] == "health_status" and "/s:FOLDERS/" in path and "/s:FILES/" not in path and \
                        (res.get("replaced") or {}).get(f"{key.split(':', 1)[0]}:{step}"):
                    # the class of F-C09-5 (repaired by 59ceb16): a folder deleted and created again under the same name between two observations
                    sig["cause"] = "folder-replaced-within-one-tick"
                ctx.violation(sig,
                              f"{rname} {key} step {step}: observation differs from the documented encoding of the objects "
                              f"(gates taken from the {'scenario file' if tr['mode'] == 'scenario' else 'constructed object'}): {d}",
                              {"recipe": recipe, "scenario": rname, "track": key, "step": step, "diff": d})
                break
            if a != m:
                ok = False
                ctx.violation({"kind": "model-vs-impl", "what": "observe(describe(truth))", "class": "env"},
                              f"{rname} {key} step {step}: model of describe_state/observe differs from the implementation: {rig.first_diff(a, m)}",
                              {"recipe": recipe, "scenario": rname, "track": key, "step": step, "diff": rig.first_diff(a, m)})
                break
    return ok


# ----------------------------------------------------------------------------------------------- threshold bands on real objects
def doc_band(triple, n: int) -> int:
    """the documented table: the band is the number of thresholds (low, medium, high) the count has passed"""
    return sum(1 for t in triple if t < n)


def threshold_case(kind: str, triple) -> Dict[str, Any]:
    """Construct the real component with this triple; {"built": False} when the constructor refuses it, else the first count whose
    band differs from the documented table (counts from below `low` to above `high`)."""
    from primaite.game.agent.observations.file_system_observations import FileObservation
    from primaite.game.agent.observations.nic_observations import NICObservation
    from primaite.game.agent.observations.software_observation import ApplicationObservation
    lo, me, hi = triple
    d = {"low": lo, "medium": me, "high": hi}
    try:
        if kind == "app_executions":
            o = ApplicationObservation(where=None, applications_requires_scan=False, thresholds={kind: d})
            f = o._categorise_num_executions
        elif kind == "file_access":
            o = FileObservation(where=None, include_num_access=True, file_system_requires_scan=False, thresholds={kind: d})
            f = o._categorise_num_access
        else:
            o = NICObservation(where=None, include_nmne=True, monitored_traffic=None, thresholds={kind: d})
            f = o._categorise_mne_count
    except Exception as e:  # noqa: BLE001 - refusal is the outcome the model predicts for a triple that is not strictly ascending
        return {"built": False, "error": f"{type(e).__name__}: {str(e)[:120]}"}
    for n in range(min(triple) - 2, max(triple) + 3):
        got = int(f(n))
        if got != doc_band(triple, n):
            return {"built": True, "bad": {"count": n, "band": got, "documented": doc_band(triple, n)}}
    return {"built": True, "bad": None}


def threshold_family(ctx: Ctx, rng: Rng, n: int) -> int:
    """Every component that EXISTS encodes its counts by the documented table, whatever triple the scenario gave: ascending triples
    (accepted) and every kind of non-ascending one (must be refused: with `medium < low` the code's if-chain and the table differ)."""
    bad = 0
    for i in range(n):
        kind = rng.choice(["app_executions", "file_access", "nmne"])
        lo = rng.range(-2, 6)
        me = lo + rng.range(1, 5)
        hi = me + rng.range(1, 6)
        triple = rng.choice([(lo, me, hi)] * 3 + [(me, lo, hi), (lo, hi, me), (hi, me, lo), (lo, lo, hi), (lo, me, me), (hi, lo, me)])
        r = threshold_case(kind, list(triple))
        asc = triple[0] < triple[1] < triple[2]
        ctx.count(f"thresholds:{'ascending' if asc else 'not-ascending'}:{'built' if r['built'] else 'refused'}")
        ctx.case({"thresholds": kind, "triple": list(triple)}, True)
        if r["built"] and r["bad"] is not None:
            bad += 1
            ctx.violation({"kind": "band-vs-documented-table", "component": kind, "triple": "ascending" if asc else "not-ascending",
                           "property_oracle": "band == number of thresholds passed"},
                          f"thresholds {kind} {list(triple)}: the constructed component reports band {r['bad']['band']} for the count {r['bad']['count']}, "
                          f"the documented table says {r['bad']['documented']}", {"kind": "thresholds", "component": kind, "triple": list(triple), "result": r})
        elif asc and not r["built"]:
            bad += 1
            ctx.violation({"kind": "ascending-thresholds-refused", "component": kind}, f"thresholds {kind} {list(triple)}: refused ({r['error']})",
                          {"kind": "thresholds", "component": kind, "triple": list(triple), "result": r})
    return bad


# ----------------------------------------------------------------------------------------------- ACL family on real routers / firewalls
def acl_family(ctx: Ctx, rng: Rng, n: int) -> int:
    """Real `Router` / `Firewall` nodes whose ACLs receive rules with every combination of present / absent address, wildcard, port
    and protocol per rule end; an ACL-observing tree built from a generated configuration observes `describe_state()`; the ground
    truth is read from the rule OBJECTS and sent to the model's specification (`spec`).  Every ACL leaf of every slot is compared."""
    from primaite.simulator.network.hardware.nodes.network.firewall import Firewall
    from primaite.simulator.network.hardware.nodes.network.router import Router
    from primaite.simulator.sim_container import Simulation
    lines_all: List[str] = []
    cases = []
    addresses = ["10.0.0.1", "10.0.0.2", "192.168.1.10", "192.168.1.12"]
    combos = rng.shuffle(list(range(128)))
    ci = 0
    seen_bits: set = set()
    for k in range(n):
        fw = k % 3 == 2
        name = "fw" if fw else "rt"
        node = (Firewall.from_config(config={"type": "firewall", "hostname": name, "operating_state": "ON"}) if fw
                else Router.from_config(config={"type": "router", "hostname": name, "num_ports": 3, "operating_state": "ON"}))
        sim = Simulation()
        sim.network.add_node(node)
        lists = {"ip_list": [x for x in addresses if rng.chance(3, 4)], "wildcard_list": [x for x in ["0.0.0.1", "0.0.0.255", "0.0.255.255"] if rng.chance(3, 4)],
                 "port_list": [x for x in [80, 5432, 53, 0, 21] if rng.chance(3, 4)], "protocol_list": [x for x in ["tcp", "udp", "icmp"] if rng.chance(3, 4)]}
        opts = dict(lists, num_rules=rng.choice([8, 16, 24]), num_ports=2, hosts=[], include_users=False,
                    routers=[] if fw else [{"hostname": name}], firewalls=[{"hostname": name}] if fw else [])
        cfg = {"type": "nodes", "options": opts}
        obj = rig.build_impl(cfg)
        if obj is None:
            raise RuntimeError(f"ACL family configuration rejected: {getattr(rig.build_impl, 'last_error', '?')}")
        lines = ["reset", rig.rawcfg_line({"type": "nodes", "options": opts}, None)]
        impl: List[Any] = [None, None]
        acls = [getattr(node, a) for a in (rig.ACL_NAMES[1:] if fw else ["acl"])]
        for _round in range(3):
            for acl in acls:
                for _ in range(rng.range(2, 8)):
                    bits = combos[ci % 128]
                    ci += 1
                    args = gen_rule_args(rng, addresses)
                    for j, f in enumerate(["protocol", "src_ip_address", "src_wildcard_mask", "src_port", "dst_ip_address", "dst_wildcard_mask", "dst_port"]):
                        pool = {"protocol": ["tcp", "udp", "icmp"], "src_ip_address": addresses + ["10.9.9.9"], "dst_ip_address": addresses + ["10.9.9.9"],
                                "src_wildcard_mask": ["0.0.0.1", "0.0.0.255", "0.0.255.255", "0.0.0.3"], "dst_wildcard_mask": ["0.0.0.1", "0.0.0.255", "0.0.255.255", "0.0.0.3"],
                                "src_port": [80, 5432, 53, 0, 21, 8080], "dst_port": [80, 5432, 53, 0, 21, 8080]}[f]
                        args[f] = rng.choice(pool) if (bits >> j) & 1 else None
                    seen_bits.add(bits)
                    for end in ("src", "dst"):
                        if args[f"{end}_wildcard_mask"] is not None and args[f"{end}_ip_address"] is None:
                            ctx.count(f"acl-family:rules-with-{end}-wildcard-but-no-address")
                    if (args["src_port"] is not None or args["dst_port"] is not None) and args["protocol"] is None:
                        ctx.count("acl-family:rules-with-port-but-no-protocol")
                    ctx.count("acl-family:rules-added")
                    try:
                        acl.add_rule(position=rng.range(0, 23), **args)
                    except Exception:  # noqa: BLE001
                        ctx.count("acl-family:add_rule-refused")
                if rng.chance(1, 3):
                    acl.remove_rule(rng.range(0, 23))
            state = sim.describe_state()
            o, exc, raw = rig.observe_impl(obj, state)
            lines.append("spec " + " ".join(rig.truth_tokens(sim)))  # ground truth from the objects
            impl.append((o, exc))
        # power transitions of the router / firewall itself, with its ACLs full of rules, ports enabled: every state on the way down
        # (SHUTTING_DOWN … OFF) and up again (BOOTING … ON) is observed and compared with the ground truth
        tick = [0]

        def observe_now():
            state = sim.describe_state()
            o, exc, raw = rig.observe_impl(obj, state)
            lines.append("spec " + " ".join(rig.truth_tokens(sim)))
            impl.append((o, exc))
            rules = sum(1 for a in acls for r in a.acl if r is not None)
            ctx.count(f"acl-family:observed-while:{node.operating_state.name}:{'firewall' if fw else 'router'}" + (":with-rules" if rules else ""))

        def step_sim():
            tick[0] += 1
            sim.pre_timestep(tick[0])
            sim.apply_timestep(tick[0])
        node.power_off()
        observe_now()
        for _ in range(8):
            if node.operating_state.name == "OFF":
                break
            step_sim()
            observe_now()
        node.power_on()
        observe_now()
        for _ in range(8):
            if node.operating_state.name == "ON":
                break
            step_sim()
            observe_now()
        cases.append((len(lines_all), lines, impl, cfg))
        lines_all += lines
    model_all = run_driver(EXE, lines_all)
    if any(m == "bad-op" for m in model_all):
        i = model_all.index("bad-op")
        raise RuntimeError(f"driver rejected line {lines_all[i][:300]!r}")
    bad = 0
    ctx.count("acl-family:distinct-presence-combinations-of-7-fields", len(seen_bits))
    for st, lines, impl, cfg in cases:
        if model_all[st + 1] != "ok":
            bad += 1
            ctx.violation({"kind": "model-vs-impl", "what": "construction accepted/rejected", "class": "acl-family"}, f"acl family: model answers {model_all[st + 1]}", {"cfg": cfg})
            continue
        for i in range(2, len(lines)):
            o, exc = impl[i]
            spec, mv = parse_spec_line(model_all[st + i])
            ctx.count("acl-family:states-compared")
            if o != spec:
                bad += 1
                d = rig.first_diff(o, spec) or str(exc)
                path = d.split(": impl=")[0]
                ctx.violation({"kind": "obs-vs-ground-truth", "leaf": path.rsplit("/", 1)[-1].split(":", 1)[-1], "class": "acl-family",
                               "property_oracle": "observation == spec(objects)"},
                              f"acl family: the ACL observation differs from the documented encoding of the rule objects: {d}", {"cfg": cfg, "diff": d, "line": lines[i][:2000]})
                break
            if o != mv:
                bad += 1
                ctx.violation({"kind": "model-vs-impl", "what": "observe(describe(truth))", "class": "acl-family"},
                              f"acl family: model of describe_state/observe differs from the implementation: {rig.first_diff(o, mv)}", {"cfg": cfg})
                break
    return bad


# ----------------------------------------------------------------------------------------------- corpus witnesses (directed trajectories)
def run_witness(rec: dict) -> Dict[str, Any]:
    """A directed trajectory on a shipped scenario: object-level operations + steps; returns the first step where the named leaf
    differs from the ground truth, if any.  A `construction` witness instead holds a manager configuration: the object built from
    it must be the one the model builds from the same words (option inheritance, defaults, padding)."""
    if rec.get("kind") == "construction":
        ok, detail = c02.construction_agrees(rec["cfg"])
        return {"ok": ok, "bad": None if ok else detail}
    cfg = rig.load_cfg(rec["scenario"])
    for agent in cfg["agents"]:
        osp = agent.get("observation_space") or {}
        if osp.get("type") == "custom":
            agent["agent_settings"]["flatten_obs"] = False
            for comp in osp["options"]["components"]:
                if comp["type"] == "nodes":
                    comp["options"].update(rec.get("nodes_options", {}))
    env = rig.make_env(cfg)
    env.reset()
    game = env.game
    bad = None
    for i, op in enumerate(rec["ops"]):
        node = game.simulation.network.get_node_by_hostname(op["node"]) if "node" in op else None
        if op["op"] == "corrupt_file":
            node.file_system.get_file(op["folder"], op["file"]).corrupt()
        elif op["op"] == "scan_folder":
            node.file_system.get_folder(op["folder"]).scan()
        elif op["op"] == "scan_node":
            node.scan()
        elif op["op"] == "request":  # through the simulator's request interface, as an agent's action arrives
            node.apply_request(op["request"])
        elif op["op"] == "acl_add":
            from primaite.simulator.network.hardware.nodes.network.router import ACLAction
            node.acl.add_rule(action=ACLAction.DENY, src_port=op["src_port"], position=op["position"])
        elif op["op"] == "step":
            env.step(0)
            obs = env.agent.observation_manager.current_observation
            for chk in rec["checks"]:
                leaf = obs
                for k in chk["path"]:
                    leaf = leaf[k]
                n = game.simulation.network.get_node_by_hostname(chk["node"])
                if chk["truth"] == "folder_visible":
                    fo_ = n.file_system.get_folder(chk["folder"])
                    want = 0 if fo_ is None else fo_.visible_health_status.value  # a folder that is not there reads as the default
                elif chk["truth"] == "acl_src_port_listed":
                    r = n.acl.acl[chk["position"]]
                    want = chk["id"] if r is not None and r.src_port == chk["port"] else leaf
                if leaf != want and bad is None:
                    bad = {"op_index": i, "path": chk["path"], "observed": int(leaf), "ground_truth": int(want)}
    env.close()
    return {"ok": bad is None, "bad": bad}


def replay(rec: dict) -> bool:
    r = rec.get("replay", rec)
    if r.get("kind") == "thresholds":
        res = threshold_case(r["component"], r["triple"])
        return (not res["built"]) or res["bad"] is None
    if "ops" in r or r.get("kind") == "construction":
        return run_witness(r)["ok"]
    if "cfg" in r and "diff" in r and r.get("recipe") is None:
        return c02.construction_agrees(r["cfg"])[0]
    if "recipe" in r and r["recipe"] is not None:
        return c02.replay_env(r, "C09")
    return False


def slot_oracle(ctx: Ctx, rng: Rng, n: int) -> int:
    """Implementation-side oracle for slot assignment (C09_slot_padding / C09_slot_assignment): build real HostObservations from
    generated configs and check that slot i is configured component i, extra slots are padding (where=None), surplus is truncated.
    The count of a host is its own `num_*` when given, else the nodes-level one."""
    bad = 0
    for k in range(n):
        obj, facts = rig.gen_object(rng, defects=False)
        if obj is None:
            continue
        nodes_cfg = facts["cfg"]["options"]["components"][0]["options"]

        def eff(hc, key):
            return hc[key] if hc.get(key) is not None else nodes_cfg[key]
        for hc, host in zip(nodes_cfg["hosts"], obj.components["NODES"].hosts):
            for kind, attr, key, num in (("services", "services", "service_name", "num_services"), ("applications", "applications", "application_name", "num_applications"),
                                         ("folders", "folders", "folder_name", "num_folders")):
                names = [c[key] for c in hc.get(kind, [])]
                cnt = eff(hc, num)
                want = (names + [None] * max(0, cnt - len(names)))[:cnt]
                got = [(list(x.where)[-1] if x.where is not None else None) for x in getattr(host, attr)]
                ctx.count("slots:" + kind)
                if got != want:
                    bad += 1
                    ctx.violation({"kind": "slot-assignment", "class": "HostObservation", "slot_kind": kind},
                                  f"slot list of {kind} is {got}, configuration says {want}", {"cfg": facts["cfg"], "host": hc})
            nf = eff(hc, "num_files")
            for fc, fo in zip(hc.get("folders", []), host.folders):
                names = [c["file_name"] for c in fc.get("files", [])]
                want = (names + [None] * max(0, nf - len(names)))[:nf]
                got = [(list(x.where)[-1] if x.where is not None else None) for x in fo.files]
                ctx.count("slots:files")
                if got != want:
                    bad += 1
                    ctx.violation({"kind": "slot-assignment", "class": "FolderObservation", "slot_kind": "files"},
                                  f"file slots are {got}, configuration says {want}", {"cfg": facts["cfg"], "host": hc})
            nn = eff(hc, "num_nics")
            nics = [c["nic_num"] for c in hc.get("network_interfaces", [])]
            want = (nics + list(range(1, nn + 1)))[:nn] if len(nics) < nn else nics[:nn]
            got = [list(x.where)[-1] for x in host.nics]
            ctx.count("slots:nics")
            if got != want:
                bad += 1
                ctx.violation({"kind": "slot-assignment", "class": "HostObservation", "slot_kind": "nics"},
                              f"NIC slots are {got}, configuration says {want}", {"cfg": facts["cfg"], "host": hc})
        for rc, router in zip(nodes_cfg.get("routers", []), obj.components["NODES"].routers):
            np_ = eff(rc, "num_ports")
            ids = [c["port_id"] for c in rc["ports"]] if rc.get("ports") is not None else list(range(1, np_ + 1))
            want = (ids + [None] * max(0, np_ - len(ids)))[:np_]
            got = [(list(x.where)[-1] if x.where is not None else None) for x in router.ports]
            ctx.count("slots:router-ports")
            if got != want:
                bad += 1
                ctx.violation({"kind": "slot-assignment", "class": "RouterObservation", "slot_kind": "ports"},
                              f"port slots are {got}, configuration says {want}", {"cfg": facts["cfg"], "router": rc})
    return bad


guarded = c02.guarded


def run(ctx: Ctx):
    with lean_lock():
        ctx.extract(x_enums.GEN_NAME, x_enums.emit)
        ctx.extract(x_tables.GEN_NAME, x_tables.emit)
        ctx.extract(x_cfg.GEN_NAME, x_cfg.emit)
        ctx.prove(MODULES, exes=[EXE], clean=False, leanchecker=ctx.thorough)
    ctx.cov["rule"] = ("cases = trajectories of shipped scenarios, of variants with generated observation spaces (non-default nodes-level options "
                       "that hosts do not repeat), of generated small scenarios and of episode schedules (random + burst actions, plus direct "
                       "mutation of simulator objects); at every step, for every agent with an observation space, ground truth is read from the "
                       "objects, sent to the model whose observation object was built from the SCENARIO's observation_space section, and "
                       "spec(truth) is diffed with the observation the environment produced; plus an ACL family on real routers/firewalls; "
                       "distinct by (recipe, track)")
    # corpus: directed witnesses
    for f in sorted((VERIF / "corpus" / "C09").glob("*.json")):
        rec = json.loads(f.read_text())
        r = guarded(ctx, f"corpus {f.name}", run_witness, rec)
        if r is None:
            continue
        ctx.count("corpus:" + ("faithful" if r["ok"] else "unfaithful"))
        ctx.case({"corpus": f.name}, True)
        if not r["ok"]:
            ctx.violation(dict(rec["sig"], property_oracle="observation == ground truth"), f"corpus {f.name}: {rec['what']} ({r['bad']})",
                          dict(rec, corpus=f.name, result=r))
    bad = guarded(ctx, "slot oracle", slot_oracle, ctx, ctx.rng.fork("slots"), ctx.scale(150, 2000))
    if bad is not None:
        ctx.oblige("oracle: slot i reads configured component i, padding is where=None, surplus truncated", "correspondence", bad == 0, f"{bad} slot lists differ")
    bad = guarded(ctx, "threshold family", threshold_family, ctx, ctx.rng.fork("thresholds"), ctx.scale(120, 1500))
    if bad is not None:
        ctx.oblige("oracle: every constructed component's band == documented table, for ascending and non-ascending triples", "correspondence", bad == 0,
                   f"{bad} triples differ")
    bad = guarded(ctx, "acl family", acl_family, ctx, ctx.rng.fork("acl-family"), ctx.scale(12, 120))
    if bad is not None:
        ctx.oblige("rig:ACL family: every ACL leaf equals spec(rule objects)", "correspondence", bad == 0, f"{bad} cases differ")
    t0 = time.time()
    recipes = c02.env_recipes(ctx, ctx.rng.fork("obs-truth"), truth=True)
    runs = c02.run_env_recipes(ctx, recipes, chaos=chaos)
    models = guarded(ctx, "model driver on the trajectories", env.run_model, EXE, runs)
    if models is not None:
        agree = 0
        for rname, res in runs:
            ctx.cov["traces_validated_against_impl"] += len(res["tracks"])
            ctx.case({"env": rname, "recipe": res["recipe"], "n": sum(len(t["impl"]) for t in res["tracks"].values())}, True)
            a = guarded(ctx, f"check {rname}", env.check_env, ctx, rname, res, models[rname], True)
            b = guarded(ctx, f"truth {rname}", check_truth_run, ctx, rname, res, models[rname])
            if a and b:
                agree += 1
        ctx.oblige("rig:R-env observation == spec(ground truth) on every step", "correspondence", agree == len(runs), f"{len(runs) - agree} of {len(runs)} runs differ")
    ctx.notes.append(f"ground-truth trajectories: {len(runs)} of {len(recipes)} recipes ran, {ctx.hist.get('env:steps', 0)} steps, {time.time() - t0:.1f}s")
