"""C09 — observations faithfully encode ground truth."""
from __future__ import annotations

import json
import time
from typing import Any, Dict, List

from harness.extract import obs_enums as x_enums
from harness.extract import obs_tables as x_tables
from harness.lib.core import VERIF, Ctx, Rng, lean_lock, run_driver
from harness.props import c02
from harness.rigs import obs as rig

MANIFEST = {
    "text": "Lean 4 proof that, for every observation object and every ground truth (simulator objects: power state, NIC enabled, "
            "service/application operating state and true/visible health, folder/file true/visible health and deleted items, ACL "
            "slots, link load, per-step counters, sessions), the code's observe() applied to describe_state() of the objects equals "
            "an independently written specification encoder over the objects (C09_observe_eq_spec, all classes, nested); scan "
            "gating per component kind; absent / deleted / node-not-ON read as default with operating_status still reported; slot "
            "i+1 reads configured component i, padding reads default, ACL entry i is list position i; the folder cache equals the "
            "visible health at every step of every scan-coherent trajectory; NMNE memory holds the previous counters. Tie: scan-gate "
            "keys and cache update regenerated from the source (C09_gen_scan_gates) + rig that reads ground truth from the objects "
            "(not from describe_state), sends it to the model and diffs spec(truth) with the observation the environment returned, "
            "at every step of random and adversarial trajectories (direct object mutation included).",
    "note": "C09-specific: binned float leaves (NIC TRAFFIC, link PROTOCOLS) are excluded from the equality on steps where float rounding "
            "differs from the exact bin. The specification is independent of observe() but shares its threshold categoriser and "
            "dictionary layout definitions.",
    "technique": "Lean 4 refinement proof (code encoder o describe_state = specification over objects) + ground-truth differential rig",
    "design_ref": "5/C09",
}
MODULES = ["PrimaiteModel.Props.C09"]
EXE = "drv_c02"


# ----------------------------------------------------------------------------------------------- adversarial object mutation
def chaos(game, rng: Rng) -> None:
    """Change the simulator objects directly (between agent actions), so that states no action sequence of the shipped agents
    reaches quickly are visited too: compromised / fixing / stopped / deleted / off / scanned, ACL edits, logins, traffic."""
    from primaite.simulator.file_system.file_system_item_abc import FileSystemItemHealthStatus
    from primaite.simulator.system.software import SoftwareHealthState
    if not rng.chance(1, 2):
        return
    health = [h for h in SoftwareHealthState if h.name != "FIXING"]  # FIXING is entered through fix() (it needs its countdown)
    nodes = list(game.simulation.network.nodes.values())
    node = rng.choice(nodes)
    k = rng.below(14)
    try:
        if k == 0 and node.services:
            s = rng.choice(list(node.services.values()))
            s.health_state_actual = rng.choice(health)
        elif k == 1 and node.services:
            s = rng.choice(list(node.services.values()))
            rng.choice([s.stop, s.start, s.pause, s.resume, s.restart, s.disable, s.enable, s.scan, s.fix])()
        elif k == 2 and node.applications:
            a = rng.choice(list(node.applications.values()))
            rng.choice([a.run, a.close, a.scan, a.fix, lambda: setattr(a, "health_state_actual", rng.choice(health)),
                        lambda: setattr(a, "num_executions", a.num_executions + rng.range(1, 12))])()
        elif k == 3:
            folders = list(node.file_system.folders.values())
            if folders:
                f = rng.choice(folders)
                rng.choice([f.scan, f.corrupt, f.repair, f.restore, lambda: node.file_system.delete_folder(f.name)])()
        elif k == 4:
            files = [x for f in node.file_system.folders.values() for x in f.files.values()]
            if files:
                x = rng.choice(files)
                rng.choice([x.scan, x.corrupt, x.repair, lambda: node.file_system.delete_file(x.folder_name, x.name),
                            lambda: setattr(x, "num_access", x.num_access + rng.range(1, 12)),
                            lambda: setattr(x, "health_status", rng.choice(list(FileSystemItemHealthStatus)))])()
        elif k == 5:
            for _ in range(rng.range(1, 6)):
                node.file_system.create_file(file_name=f"v{rng.below(1000)}.txt", folder_name=rng.choice(["root", "verif"]))
        elif k == 6:
            rng.choice([node.power_off, node.power_on, node.reset])()
        elif k == 7 and node.network_interface:
            nic = rng.choice(list(node.network_interface.values()))
            rng.choice([nic.disable, nic.enable])()
        elif k == 8 and hasattr(node, "acl"):
            from primaite.simulator.network.hardware.nodes.network.router import ACLAction
            if rng.chance(2, 3):
                node.acl.add_rule(action=rng.choice(list(ACLAction)), protocol=rng.choice([None, "tcp", "udp", "icmp"]),
                                  src_ip_address=rng.choice([None, "192.168.1.10", "192.168.10.21", "10.9.9.9", "192.168.0.10"]),
                                  src_wildcard_mask=rng.choice([None, "0.0.0.1", "0.0.0.255"]),
                                  dst_ip_address=rng.choice([None, "192.168.1.12", "192.168.1.14"]),
                                  src_port=rng.choice([None, 80, 5432, 0, 21]), dst_port=rng.choice([None, 80, 53, 0]),
                                  position=rng.range(0, 11))
            else:
                node.acl.remove_rule(rng.range(0, 11))
        elif k == 9 and hasattr(node, "user_session_manager"):
            usm = node.user_session_manager
            if rng.chance(1, 2):
                usm.local_login("admin", "admin")
            else:
                usm.local_logout()
        elif k == 10:
            node.scan() if hasattr(node, "scan") else None
        elif k == 11 and node.network_interface:
            nic = rng.choice(list(node.network_interface.values()))
            if getattr(nic, "_connected_link", None) is not None:
                nic._connected_link.current_load = rng.choice([0.0, 1.0, nic._connected_link.bandwidth / 2, nic._connected_link.bandwidth * 2])
        elif k == 12 and node.network_interface:
            nic = rng.choice(list(node.network_interface.values()))
            nic.traffic = {"icmp": {"inbound": rng.choice([0, 0.001, 50.0, 250.0]), "outbound": 0.25},
                           "tcp": {80: {"inbound": rng.choice([0, 12.5, 99.0, 1000.0]), "outbound": 0}, 5432: {"inbound": 3.0, "outbound": 7.0}}}
        elif k == 13 and node.network_interface:
            nic = rng.choice(list(node.network_interface.values()))
            if nic.nmne_config and nic.nmne_config.capture_nmne:
                d = nic.nmne.setdefault("direction", {}).setdefault(rng.choice(["inbound", "outbound"]), {}).setdefault("keywords", {})
                d["*"] = d.get("*", 0) + rng.choice([1, 2, 6, 11])
    except Exception:  # noqa: BLE001 - a refused mutation is not an observation concern
        pass


def parse_spec_line(line: str):
    spec_part, _, obs_part = line.partition(" | ")
    spec = rig.parse_val(spec_part.split())
    mv, mcontained = c02.parse_report(obs_part)
    return spec, mv


def check_truth_run(ctx: Ctx, rname: str, res: dict, by_track: Dict[str, List[str]]) -> bool:
    ok = True
    for inc in res["incoherent"]:
        ctx.violation({"kind": "sim-incoherent", "site": "Folder.visible_health_status", "cause": "changed-without-scanned_this_step"},
                      f"{rname}: folder {inc['folder']} visible health changed {inc['visible']} in a step not flagged scanned_this_step "
                      f"(episode {inc['episode']} step {inc['step']}): the folder observation cannot show it", inc)
    for key, tr in res["tracks"].items():
        model = by_track[key]
        for idx in range(4, len(tr["impl"])):
            o, contained, fb = tr["impl"][idx]
            spec, mv = parse_spec_line(model[idx])
            ctx.count("truth:steps-compared")
            a, b, m = o, spec, mv
            if fb:
                a, b, m = rig.strip_bins(o), rig.strip_bins(spec), rig.strip_bins(mv)
                if (a, b, m) != (o, spec, mv) and (o != spec or o != mv) and a == b == m:
                    ctx.count("truth:float-boundary-step (binned leaves excluded)")
            if a != b:
                ok = False
                d = rig.first_diff(a, b) or ""
                leaf = d.split(":")[1].rsplit("/", 1)[-1] if ":" in d else "?"
                path = d.split(": impl=")[0]
                ctx.violation({"kind": "obs-vs-ground-truth", "leaf": path.rsplit("/", 1)[-1].split(":", 1)[-1], "property_oracle": "observation == spec(objects)"},
                              f"{rname} {key} step {idx - 4}: observation differs from the documented encoding of the objects: {d}",
                              {"scenario": rname, "track": key, "step": idx - 4, "diff": d})
                break
            if a != m:
                ok = False
                ctx.violation({"kind": "model-vs-impl", "what": "observe(describe(truth))", "class": "env"},
                              f"{rname} {key} step {idx - 4}: model of describe_state/observe differs from the implementation: {rig.first_diff(a, m)}",
                              {"scenario": rname, "track": key, "step": idx - 4, "diff": rig.first_diff(a, m)})
                break
    return ok


# ----------------------------------------------------------------------------------------------- corpus witnesses (directed trajectories)
def run_witness(rec: dict) -> Dict[str, Any]:
    """A directed trajectory on a shipped scenario: object-level operations + steps; returns the first step where the named leaf
    differs from the ground truth, if any."""
    cfg = rig.load_cfg(rec["scenario"])
    for agent in cfg["agents"]:
        osp = agent.get("observation_space") or {}
        if osp.get("type") == "custom":
            agent["agent_settings"]["flatten_obs"] = False
            for comp in osp["options"]["components"]:
                if comp["type"] == "nodes":
                    comp["options"].update(rec.get("nodes_options", {}))
    env = rig.make_env(cfg)
    env.reset()
    game = env.game
    bad = None
    for i, op in enumerate(rec["ops"]):
        node = game.simulation.network.get_node_by_hostname(op["node"]) if "node" in op else None
        if op["op"] == "corrupt_file":
            node.file_system.get_file(op["folder"], op["file"]).corrupt()
        elif op["op"] == "scan_folder":
            node.file_system.get_folder(op["folder"]).scan()
        elif op["op"] == "scan_node":
            node.scan()
        elif op["op"] == "acl_add":
            from primaite.simulator.network.hardware.nodes.network.router import ACLAction
            node.acl.add_rule(action=ACLAction.DENY, src_port=op["src_port"], position=op["position"])
        elif op["op"] == "step":
            env.step(0)
            obs = env.agent.observation_manager.current_observation
            for chk in rec["checks"]:
                leaf = obs
                for k in chk["path"]:
                    leaf = leaf[k]
                n = game.simulation.network.get_node_by_hostname(chk["node"])
                if chk["truth"] == "folder_visible":
                    want = n.file_system.get_folder(chk["folder"]).visible_health_status.value
                elif chk["truth"] == "acl_src_port_listed":
                    r = n.acl.acl[chk["position"]]
                    want = chk["id"] if r is not None and r.src_port == chk["port"] else leaf
                if leaf != want and bad is None:
                    bad = {"op_index": i, "path": chk["path"], "observed": int(leaf), "ground_truth": int(want)}
    env.close()
    return {"ok": bad is None, "bad": bad}


def replay(rec: dict) -> bool:
    r = rec.get("replay", rec)
    if "ops" in r:
        return run_witness(r)["ok"]
    return False


def slot_oracle(ctx: Ctx, rng: Rng, n: int) -> int:
    """Implementation-side oracle for slot assignment (C09_slot_padding / C09_slot_assignment): build real HostObservations from
    generated configs and check that slot i is configured component i, extra slots are padding (where=None), surplus is truncated."""
    bad = 0
    for k in range(n):
        rig.set_capture(False)
        obj, facts = rig.gen_object(rng, defects=False)
        nodes_cfg = facts["cfg"]["options"]["components"][0]["options"]
        for hc, host in zip(nodes_cfg["hosts"], obj.components["NODES"].hosts):
            for kind, attr, key, num in (("services", "services", "service_name", "num_services"), ("applications", "applications", "application_name", "num_applications"),
                                         ("folders", "folders", "folder_name", "num_folders")):
                names = [c[key] for c in hc.get(kind, [])]
                want = (names + [None] * max(0, nodes_cfg[num] - len(names)))[:nodes_cfg[num]]
                got = [(list(x.where)[-1] if x.where is not None else None) for x in getattr(host, attr)]
                ctx.count("slots:" + kind)
                if got != want:
                    bad += 1
                    ctx.violation({"kind": "slot-assignment", "class": "HostObservation", "slot_kind": kind},
                                  f"slot list of {kind} is {got}, configuration says {want}", {"cfg": facts["cfg"], "host": hc})
            nn = nodes_cfg["num_nics"]
            nics = [c["nic_num"] for c in hc.get("network_interfaces", [])]
            want = (nics + list(range(1, nn + 1)))[:nn] if len(nics) < nn else nics[:nn]
            got = [list(x.where)[-1] for x in host.nics]
            ctx.count("slots:nics")
            if got != want:
                bad += 1
                ctx.violation({"kind": "slot-assignment", "class": "HostObservation", "slot_kind": "nics"},
                              f"NIC slots are {got}, configuration says {want}", {"cfg": facts["cfg"], "host": hc})
    return bad


def run(ctx: Ctx):
    with lean_lock():
        ctx.extract(x_enums.GEN_NAME, x_enums.emit)
        ctx.extract(x_tables.GEN_NAME, x_tables.emit)
        ctx.prove(MODULES, exes=[EXE], clean=False, leanchecker=ctx.thorough)
    ctx.cov["rule"] = ("cases = trajectories of shipped and mutated scenarios (random + burst actions, plus direct mutation of simulator "
                       "objects); at every step, for every agent with an observation space, ground truth is read from the objects, sent to "
                       "the model, and spec(truth) is diffed with the observation the environment produced; distinct by (scenario variant, track)")
    # corpus: directed witnesses
    for f in sorted((VERIF / "corpus" / "C09").glob("*.json")):
        rec = json.loads(f.read_text())
        r = run_witness(rec)
        ctx.count("corpus:" + ("faithful" if r["ok"] else "unfaithful"))
        ctx.case({"corpus": f.name}, True)
        if not r["ok"]:
            ctx.violation(dict(rec["sig"], property_oracle="observation == ground truth"), f"corpus {f.name}: {rec['what']} ({r['bad']})",
                          dict(rec, corpus=f.name, result=r))
    bad = slot_oracle(ctx, ctx.rng.fork("slots"), ctx.scale(150, 2000))
    ctx.oblige("oracle: slot i reads configured component i, padding is where=None, surplus truncated", "correspondence", bad == 0, f"{bad} slot lists differ")
    rng = ctx.rng.fork("obs-truth")
    runs = []
    scen = rig.SCENARIOS if ctx.thorough else rig.SCENARIOS[:7]
    t0 = time.time()
    for rel in scen:
        base = rig.load_cfg(rel)
        variants = [base] + [rig.mutate_cfg(base, rng) for _ in range(ctx.scale(2, 4))]
        for vi, cfg in enumerate(variants):
            try:
                res = c02.env_trajectory(ctx, rel, cfg, rng, episodes=ctx.scale(2, 3), steps=ctx.scale(30, 100), want_truth=True,
                                         chaos=chaos if vi > 0 else None)
            except Exception as e:  # noqa: BLE001
                import traceback
                tb = traceback.format_exc()
                if "observations/" in tb:
                    ctx.violation({"kind": "env-raises", "site": tb.strip().splitlines()[-3].strip()[:120]},
                                  f"{rel} variant {vi}: step/reset raised inside the observation layer: {type(e).__name__}: {e}",
                                  {"scenario": rel, "variant": vi, "traceback": tb[-1500:]})
                else:
                    ctx.count("env:variant-failed-outside-observations")
                    ctx.notes.append(f"{rel} variant {vi}: {type(e).__name__}: {str(e)[:120]}")
                continue
            runs.append((f"{rel}#{vi}", res))
    lines_all, index = [], {}
    for rname, res in runs:
        for key, tr in res["tracks"].items():
            index[(rname, key)] = (len(lines_all), len(tr["lines"]))
            lines_all += tr["lines"]
    model_all = run_driver(EXE, lines_all) if lines_all else []
    if any(m == "bad-op" for m in model_all):
        i = model_all.index("bad-op")
        raise RuntimeError(f"driver rejected line {lines_all[i][:300]!r}")
    agree = 0
    for rname, res in runs:
        by_track = {key: model_all[index[(rname, key)][0]: index[(rname, key)][0] + index[(rname, key)][1]] for key in res["tracks"]}
        ctx.cov["traces_validated_against_impl"] += len(res["tracks"])
        ctx.case({"env": rname, "n": sum(len(t["impl"]) for t in res["tracks"].values())}, True)
        c02.check_env(ctx, rname, res, by_track, spec_mode=True)
        if check_truth_run(ctx, rname, res, by_track):
            agree += 1
    ctx.oblige("rig:R-env observation == spec(ground truth) on every step", "correspondence", agree == len(runs), f"{len(runs) - agree} of {len(runs)} runs differ")
    ctx.notes.append(f"ground-truth trajectories: {len(runs)} runs, {time.time() - t0:.1f}s")
