"""C08 — packets reach exactly their addressee via best routes, and forwarding ends."""
from __future__ import annotations

import json
from typing import List

from harness.lib.core import VERIF, Ctx, lean_lock, run_driver, shrink_ops
from harness.extract import filter as x_filter
from harness.extract import forward as x_forward
from harness.extract import forward_arp as x_forward_arp
from harness.extract import forward_route as x_forward_route
from harness.rigs import net08 as rnet
from harness.rigs import route as rroute

MANIFEST = {
    "text": "Lean 4 proof, for every route table and destination, that the model of RouteTable.find_best_route (the loop as written, "
            "including ipaddress' netmask/hostmask parsing and its raise) returns the longest-prefix entry, lowest metric on ties, "
            "earliest entry on full ties, the default route exactly when nothing matches, None exactly when nothing matches and no "
            "default exists; look-ups are a function of the table as it is now (histories with any look-ups in between give the same "
            "answers; a new or replaced default route and a new route take effect at the next look-up). For the executable forwarding "
            "model (hosts, switches, routers, firewalls, ARP, ICMP, a UDP service exchange; one shared mutable frame per flood) and "
            "every topology, state and nesting depth: software is handed a unicast frame only on a node owning its destination IP "
            "(unconditional, by invariant induction over the whole interpreter); ARP-cache soundness is preserved by every processing "
            "step under a decidable configuration check (GoodCfg); every receive and every routing hop lowers the TTL by one and drops "
            "at TTL < 1. HANDLING ANY PACKET ALWAYS TERMINATES, as a theorem with an a-priori bound: from any state whose "
            "configuration passes GoodCfg, any sequence of pings / service requests / interface and power toggles / cache clears run "
            "with any nesting budget >= 1323 (a constant depending only on the initial TTL 64) never runs out of budget and computes "
            "exactly what it computes with budget 1323 (ranking: frame classes ARP-reply < ARP-request-for-a-next-hop < ARP-request < "
            "reply < request, 4 levels per TTL unit, look-up flag rank <= 3; 20-field mutual induction), and unconditionally a run "
            "that finishes is identical under any larger budget (fuel monotonicity). Hosts send on-link destinations directly and "
            "everything else to the gateway's MAC; routers forward to the next hop of the route find_best_route returns, never "
            "forward broadcasts, and drop frames their first verdict denies before anything else (firewalls: the arrival port's list, "
            "no ARP exemption, then the list chosen by the destination; a broadcast on the DMZ port is dropped before the look-ups). "
            "Liveness: a ping and a service request/reply between two hosts joined by WARM paths of any number of switches, routers "
            "and firewalls in any order, every verdict permitting, succeed; with COLD caches a ping between two hosts on one switched "
            "LAN (other ports dead or other hosts, switch table arbitrary) and a ping host - router - host over direct cables (all "
            "three caches empty, the router's nested ARP exchange inside process_frame included) succeed, every ARP cascade part of "
            "the statement; the same cold host - router - host family for the service exchange of any (port, protocol) key (port open "
            "on both hosts, server software present, a rule on the router). A host's next hop for a destination outside every enabled local subnet is ALWAYS its default gateway: "
            "a function of interfaces and gateway only, never of the ARP cache (the host-side resolution function is translated "
            "statement by statement). Application exchanges identified by a (port, protocol) key (receiver look-up, open-port test, "
            "answer to the source) are in the model; the addressee, termination and fuel theorems range over them. The ARP side is "
            "TRANSLATED: HostARP / RouterARP _get_arp_cache_mac_address and _get_arp_cache_network_interface, ARP.add_arp_cache_entry, "
            "ARP.send_arp_request and the request / reply handlers are turned statement by statement into Lean functions "
            "(Gen/ForwardArp.lean) and one activation of the model's arpMac / arpIfc / addArp / sendArpReq is proved to BE the "
            "translated method for every state, node, address, flag pair and fuel (C08_gen_arp_*). WHO A NODE SENDS TO is translated too: "
            "SessionManager / RouterSessionManager resolve_outbound_transmission_details (unicast branch) and "
            "resolve_outbound_network_interface become programs over the stateful ARP look-ups (order kept) and the model's "
            "resolveDetails / resolveOut are proved to compute exactly what these programs compute for every route table, ARP cache, "
            "destination and fuel (C08_gen_session_resolve_*); a concrete router shows an ARP-first resolution choosing another next "
            "hop (C08_session_resolve_countermodel). THE ROUTER'S FORWARDING STEP is translated: Router.process_frame and route_frame "
            "become programs (Gen/ForwardRoute.lean: broadcast guard, own-address loop, the two ARP look-ups in source order, "
            "MAC / interface / enabled / on-link tests, TTL decrement, its test, the two header writes, send, find_best_route + the "
            "next-hop look-ups) and the model's routerProcess is proved to compute exactly what they compute for every state, "
            "route table, ARP cache, frame and fuel (C08_gen_route_frame_process); from the programs alone: nothing is sent "
            "without a decrement tested < 1 and both header writes (C08_gen_route_frame_hops). ICMP is translated as well: ICMP.ping "
            "(incl. the loopback branch, now an early case of the model's ping: nothing sent, answer = some interface enabled), "
            "_send_icmp_echo_request and the host / router _process_icmp_echo_request become programs and the model's ping, one loop "
            "step and the echo-request branches of hostRecv / routerRecv are proved to be their interpretation (C08_gen_icmp_*; "
            "C08_gen_icmp_ping for pings > 0 or a loopback target: the source divides by pings in its statistics line). Float metrics: on "
            "A switch re-points a MAC to the port it was last seen on, whatever its table held (learning is unconditional and precedes "
            "the table read); R-net re-cables hosts at run time. On finite metrics the float loop is the integer loop; for every table the selected entry has no strictly cheaper rival of its "
            "prefix, and for every nan-free (= constructible: RouteEntry refuses NaN) table it is the minimum in -inf <= finite <= inf. Tie: constants, comparison "
            "operators, acceptance tests, call order and what the ranking argument rests on (DMZ broadcast guard, routers resolve "
            "without ARP, replies start nothing, ARP pairs genuine, find_best_route pure) regenerated from the source "
            "(Gen/Forward.lean) + rigs R-route and R-net (whole event streams, results and final tables of generated topologies "
            "diffed against the model, plus the property's own oracle on the implementation) + R-app (real DNS / database "
            "/ web / FTP exchanges across generated routers, DIFFERENTIAL against the model's application exchange).",
    "note": "C08-specific: the termination theorem needs GoodCfg (unique MACs, next hops are addresses only routers carry); "
            "whether it is necessary is open (no counterexample known on the repaired code; the rig's misconfigured families "
            "terminate in model and implementation). Python's own recursion limit is outside the model. Liveness is PARTIAL: "
            "warm caches for arbitrary paths, cold caches only for one switched LAN and for host - router - host over direct "
            "cables; cold caches over switched LANs behind routers, several routers, firewalls, and the service exchange with "
            "cold caches are checked by oracle (d) on the implementation, not proved. FTP's client logic (PORT retry, STOR, QUIT) "
            "is composed in the driver from proved steps, not part of the proved model. "
            "Metrics are Int in the model (float inf/nan not modelled). Rule lists are abstracted to one verdict per payload "
            "class (router: default ACL plus one permit flag; firewall: six lists x three classes); an air space frequency is "
            "modelled for two access points only (3-5 access points per frequency are only SEARCHED with the property's oracle on the "
            "implementation, family air_many; the model has one peer per interface); the liveness theorems assume the pinged "
            "address is not a loopback address; link / air space capacity is outside the forwarding model.",
    "technique": "Lean 4 theorems over executable models of route selection and frame forwarding; models tied by regenerated tables and "
                 "two differential rigs",
    "design_ref": "5/C08",
}
MODULES = ["PrimaiteModel.Props.C08", "PrimaiteModel.Props.C08Forward", "PrimaiteModel.Lemmas.ForwardInv",
           "PrimaiteModel.Props.C08Addressee", "PrimaiteModel.Props.C08Liveness", "PrimaiteModel.Props.C08FuelMono",
           "PrimaiteModel.Props.C08Termination", "PrimaiteModel.Props.C08RouteOps", "PrimaiteModel.Props.C08Cold",
           "PrimaiteModel.Props.C08ColdRouter", "PrimaiteModel.Props.C08HostHop", "PrimaiteModel.Props.C08Metric",
           "PrimaiteModel.Props.C08SwitchLearn", "PrimaiteModel.Props.C08ColdApp", "PrimaiteModel.Props.C08ArpGen", "PrimaiteModel.Props.C08SessionGen",
           "PrimaiteModel.Props.C08RouteGen"]
EXE = "drv_c08"

# ---- round 7b: ICMP translated (Gen/ForwardIcmp + Props/C08IcmpGen) and the loopback rig family -- ONE block of additions ----------
from harness.extract import forward_icmp as x_forward_icmp  # noqa: E402

MODULES = MODULES + ["PrimaiteModel.Props.C08IcmpGen"]


def _extract_icmp(ctx: Ctx):
    """ICMP.ping / _send_icmp_echo_request / _process_icmp_echo_request (+ RouterICMP), translated; tied by C08_gen_icmp_*"""
    ctx.extract("ForwardIcmp", x_forward_icmp.emit)


def _with_loopback(case: dict, rng) -> dict:
    return rnet.add_loopback_ops(case, rng)


def _count_loopback(ctx: Ctx, case: dict, model: List[str]):
    """loopback pings of one trace: who pinged, what the model answered, that nothing was sent"""
    for op, a in zip(case["ops"], model):
        if op["op"] == "ping" and str(op["dst"]).startswith("127."):
            kind = case["nodes"][op["src"]]["kind"]
            ctx.count(f"net-ping-loopback:{kind}:{a.split()[0]}")
            ctx.count("net-ping-loopback-target:" + ("127.0.0.1" if op["dst"] == "127.0.0.1" else "other-127/8"))
            if len(a.split()) > 1:
                ctx.count("net-ping-loopback-with-events")
# ---- end of round 7b block -----------------------------------------------------------------------------------------------------------


# ---------------------------------------------------------------------------------------------- R-route
def _route_diff(case: dict):
    impl = rroute.run_impl(case)
    lines = rroute.model_lines(case)
    model = run_driver(EXE, lines)
    i = next((j for j, (a, b) in enumerate(zip(impl, model)) if a != b), -1)
    if i < 0 and len(impl) != len(model):
        i = min(len(impl), len(model))
    return i < 0, impl, model, i, lines


def _run_route(ctx: Ctx):
    cases = []
    for f in sorted((VERIF / "corpus" / "C08").glob("route_*.json")):
        cases.append(("corpus:" + f.name, json.loads(f.read_text())["case"]))
    for k, c in enumerate(rroute.exhaustive_cases(ctx.scale(2, 3))):
        cases.append((f"exh:{k}", c))
    rng = ctx.rng.fork("route")
    for k in range(ctx.scale(1500, 12000)):
        cases.append((f"gen:{k}", rroute.gen_case(rng, max_routes=ctx.scale(8, 12))))
    impl_all, lines_all, bounds = [], [], []
    for name, case in cases:
        impl = rroute.run_impl(case)
        lines = rroute.model_lines(case)
        bounds.append((len(lines_all), len(lines)))
        lines_all += lines
        impl_all.append(impl)
    model_all = run_driver(EXE, lines_all)
    agree = 0
    for (name, case), impl, (st, ln) in zip(cases, impl_all, bounds):
        model = model_all[st:st + ln]
        lines = lines_all[st:st + ln]
        if "bad-op" in model:
            raise RuntimeError(f"driver rejected a line of {name}: {[l for l, m in zip(lines, model) if m == 'bad-op'][:2]}")
        ctx.cov["traces_validated_against_impl"] += 1
        kinds = [m.split()[0] for q, m in zip(lines, model) if q.startswith("rt-find")]
        for kd in kinds:
            ctx.count("route-answer:" + kd)
        ctx.count("route-surface:" + case["surface"])
        ctx.case(["route", case], any(kd in ("route", "raised") for kd in kinds))
        bad = rroute.oracle(case, impl)  # the property's own statement on the implementation's answers
        if bad:
            ctx.violation({"kind": "route-oracle", "site": "RouteTable.find_best_route"}, bad, {"rig": "route", "case": case, "impl": impl})
        if impl == model:
            agree += 1
            if name.startswith("gen:"):
                ctx.sample({"case": name, "lines": lines[2:10], "answers": model[2:10]}, cap=2)
            continue

        def fails(ops, case=case):
            return not _route_diff(dict(case, ops=ops))[0]
        small = dict(case, ops=shrink_ops(case["ops"], fails))
        ok, impl2, model2, i2, lines2 = _route_diff(small)
        if ok:
            ok, impl2, model2, i2, lines2 = _route_diff(case)
            small = case
        ctx.violation({"kind": "model-vs-impl", "rig": "route", "answer": (model2[i2].split() or ["?"])[0] if i2 < len(model2) else "?"},
                      f"find_best_route differs from the proved model at {lines2[i2] if i2 < len(lines2) else '?'}: "
                      f"impl={impl2[i2] if i2 < len(impl2) else None!r} model={model2[i2] if i2 < len(model2) else None!r}",
                      {"rig": "route", "case": small, "lines": lines2, "impl": impl2, "model": model2, "from": name})
    ctx.oblige("rig:R-route agrees on every trace", "correspondence", agree == len(cases), f"{len(cases) - agree} of {len(cases)} traces disagree")
    # float metrics (inf / -inf / nan) against Model/RouteMetric.lean; the tie-break oracle on what is comparable
    frng = ctx.rng.fork("route-float")
    fcases = [json.loads(f.read_text())["case"] for f in sorted((VERIF / "corpus" / "C08").glob("floatroute_*.json"))]
    fcases += [rroute.gen_float_case(frng) for _ in range(ctx.scale(300, 3000))]
    flines, fbounds, fimpl = [], [], []
    for c in fcases:
        ls = rroute.float_model_lines(c)
        fbounds.append((len(flines), len(ls)))
        flines += ls
        fimpl.append(rroute.run_impl_float(c))
    fout = run_driver(EXE, flines)
    fagree = 0
    reported = 0
    for c, impl, (st0, ln) in zip(fcases, fimpl, fbounds):
        model = fout[st0:st0 + ln]
        ctx.cov["traces_validated_against_impl"] += 1
        kinds = {str(o["route"]["metric"]) for o in c["ops"] if o["op"] == "add"}
        for kd in ("inf", "-inf", "nan"):
            if kd in kinds:
                ctx.count("route-float-metric:" + kd)
        ctx.count("route-float-surface:" + c.get("surface", "api-float"))
        ctx.count("route-float-nan-refused", sum(1 for a in impl if a == "refused"))
        ctx.case(["route-float", c], any(a.startswith("route") for a in impl))
        if impl == model:
            fagree += 1
        else:
            i = next(j for j, (a, b) in enumerate(zip(impl, model)) if a != b)
            ctx.violation({"kind": "model-vs-impl", "rig": "route-float"}, f"find_best_route with float metrics differs from the model at "
                          f"{flines[st0 + i]}: impl={impl[i]!r} model={model[i]!r}", {"rig": "route-float", "case": c})
        bad = rroute.float_oracle(c, impl)
        if bad:
            ctx.count("route-float-nan-tiebreak-violations")
            if reported < 1:
                reported += 1
                ctx.violation({"kind": "route-oracle", "site": "RouteTable.find_best_route", "metric": "nan"}, bad,
                              {"rig": "route-float", "case": c})
    ctx.oblige("rig:R-route (float metrics) agrees on every trace", "correspondence", fagree == len(fcases),
               f"{len(fcases) - fagree} of {len(fcases)} traces disagree")


# ---------------------------------------------------------------------------------------------- R-net
def _net_diff(case: dict):
    impl, records = rnet.run_impl(case)
    lines, pos = rnet.model_lines(case)
    out = run_driver(EXE, lines)
    model = [rnet.canon_model_answer(out[p]) for p in pos]
    if impl and impl[0] == "OOF" and len(impl) == 1:
        return False, impl, model, 0, records
    i = next((j for j, (a, b) in enumerate(zip(impl, model)) if a != b), -1)
    return i < 0, impl, model, i, records


def _net_sig(case: dict, i: int, impl: List[str], model: List[str]) -> dict:
    op = case["ops"][i]["op"] if i < len(case["ops"]) else "final-tables"
    what = "result" if (i < len(impl) and i < len(model) and impl[i].split()[:1] != model[i].split()[:1]) else "events"
    return {"kind": "model-vs-impl", "rig": "net", "op": op, "what": what, "routers": case.get("notes", {}).get("routers")}


def _run_air_many(ctx: Ctx):
    """more than two access points on one air space frequency: OUTSIDE the Lean model (one peer per interface); the property's own oracle
    (a)-(d) on the real objects, as a search for a failing input — never counted as a validated model trace."""
    rng = ctx.rng.fork("air-many")
    for k in [3, 4, 3, 5][: ctx.scale(3, 4)] * ctx.scale(1, 6):
        case = rnet.gen_air_many(rng, k)
        impl, records = rnet.run_impl(case)
        ctx.count(f"air-many(impl-only):aps={k}:routing={case['notes']['routing']}")
        for r in records:
            if r["op"]["op"] == "ping":
                ctx.count(f"air-many(impl-only):ping:{r['res']}")
                ctx.count("air-many(impl-only):bystander-receives", sum(1 for e in r["raw"] if e[0] == "rx") - sum(1 for e in r["raw"] if e[0] in ("hop", "sw")))
        bad = rnet.oracle(case, records)
        if bad:
            kk = bad["op"]
            small = dict(case, ops=case["ops"][:kk + 1]) if kk < len(case["ops"]) else case
            ctx.violation({"kind": "net-oracle", "defect": bad["kind"], "family": "air-many"}, bad["what"], {"rig": "air-many", "case": small})


def _run_net(ctx: Ctx):
    cases = []
    for f in sorted((VERIF / "corpus" / "C08").glob("net_*.json")):
        cases.append(("corpus:" + f.name, json.loads(f.read_text())["case"]))
    rng = ctx.rng.fork("net")
    for k in range(ctx.scale(220, 2500)):
        cases.append((f"gen:{k}", rnet.gen_case(rng)))
    lrng = ctx.rng.fork("net-loopback")  # round 7b: own stream, the generated cases themselves stay what they were
    cases = [(nm, _with_loopback(c, lrng) if nm.startswith("gen:") else c) for nm, c in cases]
    impl_all, rec_all, lines_all, pos_all = [], [], [], []
    for name, case in cases:
        impl, records = rnet.run_impl(case)
        lines, pos = rnet.model_lines(case)
        pos_all.append([len(lines_all) + p for p in pos])
        lines_all += lines
        impl_all.append(impl)
        rec_all.append(records)
    out = run_driver(EXE, lines_all, timeout=3000)
    if "bad-op" in out:
        raise RuntimeError(f"driver rejected a line: {[l for l, m in zip(lines_all, out) if m == 'bad-op'][:2]}")
    agree = 0
    shrunk = 0
    for (name, case), impl, records, pos in zip(cases, impl_all, rec_all, pos_all):
        model = [rnet.canon_model_answer(out[p]) for p in pos]
        ctx.cov["traces_validated_against_impl"] += 1
        notes = case.get("notes", {})
        good = out[pos[0] - 2] if lines_all[pos[0] - 1].startswith("needfuel") else out[pos[0] - 1]
        ctx.count("net-hypotheses-of-arp-sound-theorem:" + good)
        # instances of C08_operation_terminates: from a checked configuration every probed ping finishes within fuelBound
        lo = pos[0] - 2
        hi = pos[-1]
        for q in range(lo, hi):
            if lines_all[q].startswith("needfuel"):
                ctx.count(f"net-nesting-budget-needed(goodcfg={good}):<={out[q]}")
                if good == "1" and out[q] == "none":
                    ctx.oblige(f"fuel bound theorem instance on {name}", "correspondence", False,
                               f"{lines_all[q]} needs more than fuelBound although the configuration passes goodCfgB")
        for key in ("via_host", "gw_is_host", "gw_off_subnet", "dmz_cross", "recursive_nh", "two_gateway", "dual_homed_other_nic_down", "dead_port_subnet"):
            if notes.get(key):
                ctx.count("net-misconfig:" + key)
        if notes.get("dual_homed") is not None:
            ctx.count("net-dual-homed-host")
        if notes.get("recable"):
            ctx.count("net-recabled-hosts", notes["recable"])
        if notes.get("kinds"):
            ctx.count("net-kinds:" + notes["kinds"])
        if notes.get("fw") and "firewall" in notes.get("kinds", ""):
            ctx.count("net-fw-lists:" + notes["fw"])
        special = {n for n, nd in enumerate(case["nodes"]) if nd["kind"] in ("firewall", "wrouter")}
        ctx.count(f"net-routers:{notes.get('routers')}")
        ctx.count(f"net-routing:{notes.get('routing')}")
        nontrivial = False
        _count_loopback(ctx, case, model)  # round 7b
        for op, a in zip(case["ops"], model):
            ctx.count("net-op:" + op["op"])
            if op["op"] == "service":
                ctx.count("net-service:" + a.split()[0])
                for sp in special:
                    if any(t.startswith(f"hop:{sp}:") for t in a.split()[1:]):
                        ctx.count(f"net-service-through-{case['nodes'][sp]['kind']}:{a.split()[0]}")
            if op["op"] == "power":
                ctx.count(f"net-power:{case['nodes'][op['node']]['kind']}:{op['on']}")
            if op["op"] == "ping":
                ctx.count("net-ping:" + a.split()[0])
                toks = a.split()[1:]
                if any(t.startswith("hop:") for t in toks):
                    ctx.count("net-ping-routed")
                    nontrivial = True
                    for sp in special:
                        if any(t.startswith(f"hop:{sp}:") for t in toks):
                            ctx.count(f"net-ping-through-{case['nodes'][sp]['kind']}:{a.split()[0]}")
                ctx.count("net-events", len(toks))
            if op["op"] == "inject":  # family inject_low_ttl: did the router's process_frame / route_frame send, drop at the TTL test, or drop before
                toks = a.split()[1:]
                hops = [j for j, t in enumerate(toks) if t.startswith("hop:")]
                fate = "no-hop" if not hops else ("sent" if any(t.startswith("rx:") for t in toks[hops[0] + 1:]) else "hop-then-nothing")
                if case["nodes"][op["node"]]["kind"] == "host":
                    own = [case["nodes"][op["node"]]["ip"]] + [x["ip"] for x in case["nodes"][op["node"]].get("extra", [])]
                    cls = "arrival-nic" if op["dst"] == own[op["ifc"]] else ("other-nic" if op["dst"] in own else "foreign")
                    fate = "software" if any(t.startswith("sw:") for t in toks) else "not-handed-up"
                    ctx.count(f"net-inject-host:{cls}:ttl{op['ttl']}:{fate}:answered={int(len([t for t in toks if t.startswith('rx:')]) > 1)}")
                    continue
                ctx.count(f"net-inject:ttl{op['ttl']}:{fate}")
                nontrivial = nontrivial or bool(hops)
            if "OOF" in a.split():
                ctx.count("net-model-out-of-fuel")
        ctx.case(["net", case], nontrivial)
        bad = rnet.oracle(case, records)
        if not bad and good == "1" and not (impl and impl[0] == "OOF"):
            bad = rnet.arp_sound_oracle(case, impl)
            ctx.count("net-arp-sound-checked-on-impl")
        if bad:
            k = bad["op"]
            small = dict(case, ops=case["ops"][:k + 1]) if k < len(case["ops"]) else case
            ctx.violation({"kind": "net-oracle", "defect": bad["kind"]}, bad["what"], {"rig": "net", "case": small, "from": name})
        if any("OOF" in m.split() for m in model):
            ctx.oblige(f"model ran out of fuel on {name}", "correspondence", False, "the forwarding model did not finish within its fuel")
        if impl == model:
            agree += 1
            if name.startswith("gen:"):
                ctx.sample({"case": name, "notes": notes, "op": case["ops"][0], "answer": model[0][:300]}, cap=2)
            continue
        if bad and bad["kind"] == "non-termination":
            continue  # already reported with its own signature
        i = next((j for j, (a, b) in enumerate(zip(impl, model)) if a != b), min(len(impl), len(model)))

        def fails(ops, case=case):
            return not _net_diff(dict(case, ops=ops))[0]
        # cheap first: everything after the first disagreeing op is irrelevant; then a bounded shrink for the first two
        # disagreeing traces only (each evaluation = one implementation run + one driver process)
        if i < len(case["ops"]):
            case = dict(case, ops=case["ops"][:i + 1])
        budget = (40, 15)[shrunk] if shrunk < 2 else 0
        shrunk += 1
        small = dict(case, ops=shrink_ops(case["ops"], fails, budget=budget)) if (i < len(case["ops"]) and budget) else case
        ok, impl2, model2, i2, _ = _net_diff(small)
        if ok:
            small, impl2, model2, i2 = case, impl, model, i
        ctx.violation(_net_sig(small, i2, impl2, model2),
                      f"network behaviour differs from the model at op {i2} "
                      f"({small['ops'][i2] if i2 < len(small['ops']) else 'final tables'}): impl={impl2[i2][:200] if i2 < len(impl2) else None!r} "
                      f"model={model2[i2][:200] if i2 < len(model2) else None!r}",
                      {"rig": "net", "case": small, "impl": impl2, "model": model2, "first_diff": i2, "from": name})
    ctx.oblige("rig:R-net agrees on every trace", "correspondence", agree == len(cases), f"{len(cases) - agree} of {len(cases)} traces disagree")


# ---------------------------------------------------------------------------------------------- R-app
def _app_diff(case: dict):
    records = rnet.run_apps(case)
    lines, groups = rnet.app_model_lines(case)
    out = run_driver(EXE, lines)
    model = rnet.app_model_answers(out, groups, case)
    impl = [r["answer"] for r in records]
    i = next((j for j, (a, b) in enumerate(zip(impl, model)) if a != b), -1)
    return i < 0 and len(impl) == len(model), impl, model, i, records


def _run_apps(ctx: Ctx):
    """R-app, DIFFERENTIAL: real application exchanges (DNS look-up, database connect + query, web page request, FTP transfer)
    across the generated plain routers vs the model's port-parametrised request / answer exchange (`NetOp.app`): result of every
    operation and its whole event stream; server software present or absent, router rules permitting or not.  Plus the
    property's own oracles on the implementation side."""
    rng = ctx.rng.fork("app")
    want = ctx.scale(40, 300)
    cases = []
    tries = 0
    while len(cases) < want and tries < want * 12:
        tries += 1
        case = rnet.gen_case(rng)
        kinds = {nd["kind"] for nd in case["nodes"]}
        hosts = [nd for nd in case["nodes"] if nd["kind"] == "host"]
        notes = case.get("notes", {})
        if ("firewall" in kinds or "wrouter" in kinds or not case.get("consistent") or len(hosts) < 2
                or notes.get("dual_homed") is not None or notes.get("via_host") or notes.get("routing") == "broken"):
            continue
        cases.append(rnet.add_app_plan(case, rng))
    lines_all, spans, rec_all = [], [], []
    for case in cases:
        rec_all.append(rnet.run_apps(case))
        lines, groups = rnet.app_model_lines(case)
        spans.append((len(lines_all), groups))
        lines_all += lines
    out = run_driver(EXE, lines_all, timeout=3000)
    if "bad-op" in out:
        raise RuntimeError(f"driver rejected a line: {[l for l, m in zip(lines_all, out) if m == 'bad-op'][:2]}")
    agree = 0
    for case, records, (off, groups) in zip(cases, rec_all, spans):
        model = rnet.app_model_answers(out, [[off + p for p in g] for g in groups], case)
        impl = [r["answer"] for r in records]
        notes = case.get("notes", {})
        ctx.cov["traces_validated_against_impl"] += 1
        ctx.count(f"app-routers:{notes.get('routers')}")
        ctx.count(f"app-mode:{case['app']['mode']}")
        routed = False
        for r in records:
            ctx.count(f"app-exchange:{r['op']['op'][4:]}:{r['res']}")
            ctx.count("app-events", len(r["raw"]))
            routed = routed or any(e[0] == "hop" for e in r["raw"])
        ctx.case(["app", case], routed)
        full = case["app"]["mode"] == "all"
        bad = rnet.oracle(dict(case, consistent=full), records)
        if bad:
            ctx.violation({"kind": "net-oracle", "defect": bad["kind"], "family": "app"}, bad["what"], {"rig": "app", "case": case})
        if impl == model:
            agree += 1
            continue
        i = next((j for j, (a, b) in enumerate(zip(impl, model)) if a != b), min(len(impl), len(model)))
        small = dict(case, app=dict(case["app"], ops=case["app"]["ops"][:i + 1]))
        ok, impl2, model2, i2, _ = _app_diff(small)
        if ok:
            small, impl2, model2, i2 = case, impl, model, i
        op = small["app"]["ops"][i2] if 0 <= i2 < len(small["app"]["ops"]) else None
        what = "result" if (0 <= i2 < len(impl2) and i2 < len(model2) and impl2[i2].split()[:1] != model2[i2].split()[:1]) else "events"
        ctx.violation({"kind": "model-vs-impl", "rig": "app", "op": op["kind"] if op else "?", "what": what},
                      f"application exchange differs from the model at op {i2} ({op}): impl={impl2[i2][:200] if 0 <= i2 < len(impl2) else None!r} "
                      f"model={model2[i2][:200] if 0 <= i2 < len(model2) else None!r}",
                      {"rig": "app", "case": small, "impl": impl2, "model": model2, "first_diff": i2})
    ctx.oblige("rig:R-app agrees on every trace", "correspondence", agree == len(cases), f"{len(cases) - agree} of {len(cases)} traces disagree")


def replay(rec: dict) -> bool:
    with lean_lock():
        from harness.lib.core import lake_build
        lake_build([EXE])
    r = rec["replay"]
    case = r["case"]
    if r.get("rig") == "route":
        ok, impl, *_ = _route_diff(case)
        return ok and rroute.oracle(case, impl) is None
    if r.get("rig") == "route-float":
        impl = rroute.run_impl_float(case)
        model = run_driver(EXE, rroute.float_model_lines(case))
        return impl == model and rroute.float_oracle(case, impl) is None
    if r.get("rig") == "air-many":
        _, records = rnet.run_impl(case)
        return rnet.oracle(case, records) is None
    if r.get("rig") == "app":
        ok, impl, model, i, records = _app_diff(case)
        return ok and rnet.oracle(dict(case, consistent=case["app"]["mode"] == "all"), records) is None
    ok, impl, model, i, records = _net_diff(case)
    return ok and rnet.oracle(case, records) is None


def run(ctx: Ctx):
    with lean_lock():
        ctx.extract("Forward", x_forward.emit)
        ctx.extract("ForwardArp", x_forward_arp.emit)  # ARP look-ups / add entry / send request / handlers, translated
        ctx.extract("ForwardRoute", x_forward_route.emit)  # Router.process_frame / route_frame, translated into programs
        _extract_icmp(ctx)  # round 7b
        ctx.extract("Filter", x_filter.emit)  # C06's extractor: firewall entry points (tied by C08_gen_firewall)
        ctx.prove(MODULES, exes=[EXE], clean=False, leanchecker=ctx.thorough)
    ctx.cov["rule"] = ("route cases = (surface in {RouteTable api, Router.from_config}, table, default, interleaved queries), non-trivial "
                       "when some query is answered by a table entry or raises; net cases = (generated topology of hosts (single- or "
                       "dual-homed) / switches / routers / firewalls / wireless routers, op sequence of pings / service requests / "
                       "interface, switch-port and power toggles / cache clears), non-trivial when some ping is routed (a router hop event occurs); distinct by "
                       "canonical JSON of the case")
    _run_route(ctx)
    _run_net(ctx)
    _run_air_many(ctx)
    _run_apps(ctx)
