"""C06 — blocking is effective: a host cut off from another cannot affect it; a denied frame is never forwarded nor
handed to the device's own software."""
from __future__ import annotations

import json
from typing import List

from harness.extract import acl as x_acl
from harness.extract import filter as x_filter
from harness.extract import filter_soft as x_soft
from harness.extract import filter_power as x_power
from harness.extract import filter_senders as x_senders
from harness.lib.core import TRUSTED_BASE, VERIF, Ctx, lean_lock, run_driver, shrink_ops
from harness.rigs import filter as rig
from harness.rigs import net as netrig

MANIFEST = {
    "text": "Lean 4 proof of (1) element lemmas for every software layer: a disabled or absent interface receives and sends "
            "nothing; a router that is not ON ignores frames; a frame a router's list denies, or a firewall's first- or "
            "second-stage list denies (six entry points; zone->list table proved equal to the one regenerated from "
            "firewall.py), changes nothing but that list's hit counter - no ARP learning, no session manager, no "
            "process_frame, nothing emitted; hit counters never weaken a block; rule shapes any-any / source range / empty list "
            "with implicit deny; (1b, Props/C06Deny.lean) the second sentence of the property as ONE expression per device: "
            "C06_firewall_closed_form (first verdict -> learn -> session manager XOR (look-ups ->) selected second entry point -> ITS "
            "verdict -> process_frame), denied at either stage => the rest of the handler is `done`; the decision "
            "check_send_frame_to_session_manager is translated by the extractor from Python's own parse of the source expression "
            "(Gen BExpr) and proved equal to the model's for every valuation (C06_gen_toSession), so a transit frame of any protocol "
            "always meets the second list (C06_firewall_transit_denied_inert); "
            "(2) a cut theorem for re-entrant, synchronously delivering nodes: if every attacker-side "
            "node is interior, or has its boundary interfaces disabled, or is a router that is OFF or denies everything, or a "
            "firewall whose first-stage list denies everything on attacker-facing ports, then ANY sequence of operations on "
            "the attacker side, from ANY state of caches/sessions/software, leaves every protected node's state unchanged; "
            "explicit instances for the never-emitting mechanisms (B off / NIC disabled, device on the path off, disabled port on "
            "either side, missing link). "
            "(3, Props/C06Class.lean) the cut theorem for FRAME CLASSES - a router whose list denies every packet of the "
            "class circulating on the attacker side (source exact/range, destination, protocol, port patterns; decidable scan "
            "denyClassCheck proved sound), a firewall whose first OR second-stage lists deny the class; certificate certifyC sound. "
            "(4, Props/C06Net.lean) THE ATTACKER SIDE IS MODELLED AND ITS CLOSURE PROVED: hosts behind their session manager "
            "(arbitrary services/applications as scripts over the software state; every frame stamped with the outbound interface's "
            "MAC/IP; ARP requests as send_arp_request builds them; the ARP service's reply addressed to the requester) and switches "
            "(forward the received frame unchanged) turn class frames into class frames (C06_host_safe, C06_switch_safe); the class "
            "of a labelled topology carries the ARP well-formedness facts; C06_certifiedN_unchanged: for a network accepted by the "
            "decidable certificate certifyN NOTHING is assumed of the attacker side and NOTHING of a blocking router's software "
            "(its ARP handling - the only frames exempt from its list - is proved to stay on the attacker side from those facts). "
            "SoftKeeps is a decidable condition on the software set (C06_softKeeps_of_confined_set: software confined to the software "
            "state + firmware keep every sw-independent predicate), true of everything shipped except the Terminal "
            "(C06_gen_shipped_software: regenerated SYSTEM_SOFTWARE sets and per-class receive-path reachability). "
            "(5, Props/C06Rtr.lean, Props/C06Reach.lean) REACHABILITY FORM: routers and firewalls above their lists are modelled "
            "(rtrStd: forwarded COPIES of the handled frame, ARP requests for its destination / source / a configured next hop, own "
            "services answering to the source, the DMZ look-ups before the second verdict; WHERE they send stays opaque) and "
            "C06_certifiedB_unchanged proves: if every guard (router list / firewall first list or the second list the code selects for "
            "that address) denies every packet ADDRESSED TO a protected host (decidable scan denyDstCheck, proved sound), the state of "
            "every protected HOST never changes, whatever else circulates, wherever the guards' other traffic goes, for all software on "
            "both sides - this covers destination-specific router rules, firewall second-stage blocks from the external/internal zone "
            "(no FwSecondOK), interior and zone-side forwarding routers, and contains the DMZ look-up observation; a protected host "
            "ignores every frame not addressed to it (C06_host_deaf). certifyN accepts interior routers (closure proved for rtrStd). "
            "A blocking element WITH its Terminal behaves like one without for every frame that carries no live session id of it "
            "(C06_terminal_confined_unless_authorised; by C16: unless A holds valid credentials of an account on it). "
            "(6, Props/C06Power.lean, round 7) BLOCKS IN FORCE DURING A TRANSITIONAL POWER STATE: the node power state machine with its "
            "countdowns is carried as PROGRAMS of a small statement language (Model/FilterPower.lean) that are compared with the "
            "statement-by-statement translation of Node.power_on / power_off / reset / the two countdown blocks of apply_timestep / "
            "_start_up_actions / _shut_down_actions (Gen/FilterPower.lean, C06_gen_power_programs; enable() refuses unless the node is ON: "
            "C06_gen_power_interfaces); C06_power_inv_run: for EVERY history of power requests, timesteps, interface / link / software / "
            "rule-list operations, all durations and countdown values, a node that is not ON has every interface disabled; "
            "C06_not_on_inert / C06_transitional_inert: at every moment of any history at which a device of ANY kind is OFF, SHUTTING_DOWN "
            "or BOOTING a frame on any port changes nothing, is not forwarded and not handed to software; C06_shutdown_window / "
            "C06_boot_window / C06_reset_window: for every positive duration the device IS not-ON in the step of the accepted request and "
            "after each tick of the countdown (d, u, d+u+1 ticks); C06_power_hook_silent: what the hooks / enable() try to send while every "
            "interface is down is dropped; C06_gen_wireless: a wireless router's access point receives as a RouterInterface, the airspace "
            "delivers to the other enabled interfaces of the sender's frequency only; C06_gen_senders: every sending call site of every "
            "application / service is one of five sanctioned kinds ending in the session manager, none reaches outside the node. "
            "Ties: Gen/Filter.lean, Gen/FilterSoft.lean regenerated from router.py, firewall.py, switch.py, host_node.py, base.py, "
            "session_manager.py, arp.py, protocols/arp.py (order of guards and calls, list per entry point, branch shapes, port "
            "dispatch, power guards, own-source stamping, send_frame call sites, cross-node reaches, enable sites, ARPPacket "
            "construction sites, generate_reply, Switch.receive_frame) + rig R-filter (real elements vs model, frame by frame) + "
            "rig R-net (generated switched / routed / firewall+DMZ topologies, every block mechanism, red repertoire from A "
            "before and after the block, B-side describe_state against an idle run, per-frame denied=>inert wrappers, all three "
            "certificates asked on the real post-block network and on the unblocked one, the host/switch/ARP models validated on "
            "every transmitted frame; round 7: an ENUMERATED transitional family - every device kind on the path x shutdown countdown / "
            "boot countdown / reset window x positive durations, A acting in the step of the request and at every tick of the window, the "
            "device's operating state at each of A's operations checked against the window theorems AND (operating state, interface flags) "
            "after every request / tick / re-enable attempt compared with the Lean interpreter of the translated power programs through "
            "drv_c06; a WIRELESS family: two WirelessRouters over the airspace, blocks by rule list, power, disabled access point, other "
            "frequency, removed cable, with the airspace rendered as a wire for all four certificates).",
    "note": "Partial: the reachability theorem concludes about protected HOSTS only (other devices of the zone do change) and asks "
            "of attacker-side nodes that they do not forge a protected source address or an ARP payload (proved for hosts and "
            "switches); a firewall second-stage block reached FROM THE DMZ is covered only when both candidate second lists deny (the "
            "selection and the forwarding port are two opaque ARP-cache look-ups: FwSecondOK remains there); protocol-specific router "
            "rules keep the closure hypothesis EmitsCl; that a device's own services answer to the source and that process_frame "
            "forwards the received frame are model assumptions tied by Gen shape tables and validated on every transmitted frame; a Terminal on the blocking element (command execution reaches the "
            "request dispatcher) and user-installed software are outside the confined set; node-off inertness for hosts/switches/"
            "firewalls rests on the invariant not ON => interfaces disabled (proved in Props/C06Power.lean for the translated power "
            "methods; power operations are modelled as atomic state changes without emissions); shared mutable frames/payload aliasing and "
            "application-level relays are outside the model.",
    "technique": "Lean 4 theorems over executable element models + generic cut theorem; model tied by regenerated tables and "
                 "two differential/oracle rigs",
    "design_ref": "5/C06",
}
MODULES = ["PrimaiteModel.Lemmas.C06Cut", "PrimaiteModel.Props.C06", "PrimaiteModel.Props.C06Class", "PrimaiteModel.Props.C06Deny", "PrimaiteModel.Props.C06Rtr", "PrimaiteModel.Props.C06Net", "PrimaiteModel.Props.C06Reach", "PrimaiteModel.Props.C06Power"]
EXE = "drv_c06"


def _diff_filter(case: dict):
    impl, lines = rig.run_impl(case)
    model = run_driver(EXE, lines)
    for i, (a, b) in enumerate(zip(impl, model)):
        if a != b:
            return False, impl, model, i, lines
    return True, impl, model, -1, lines


def replay(rec: dict) -> bool:
    r = rec["replay"]
    if r.get("rig") == "filter":
        with lean_lock():
            from harness.lib.core import lake_build
            lake_build([EXE])
        ok, impl, *_ = _diff_filter(r["case"])
        return ok and not any(rig.per_frame_oracle(a) for a in impl)
    if r.get("rig") == "net":
        res = netrig.run_scenario(r["scenario"], control=False)
        if res["pw"]["lines"]:
            with lean_lock():
                from harness.lib.core import lake_build
                lake_build([EXE])
            if run_driver(EXE, ["reset"] + res["pw"]["lines"])[1:] != res["pw"]["impl"]:
                return False
        return not res["violations"] and not res["model_bad"]
    return True


def _run_filter(ctx: Ctx):
    cases = []
    for f in sorted((VERIF / "corpus" / "C06").glob("filter-*.json")):
        cases.append(("corpus:" + f.name, json.loads(f.read_text())["case"]))
    rng = ctx.rng.fork("filter")
    for k in range(ctx.scale(250, 4000)):
        cases.append((f"gen:{k}", rig.gen_case(rng, max_frames=ctx.scale(12, 24))))
    impl_all, lines_all, bounds = [], [], []
    kept, build_bad = [], []
    for name, case in cases:
        try:
            impl, lines = rig.run_impl(case)
        except Exception as e:  # the implementation raised while the element was being BUILT / configured: no frame to blame
            build_bad.append(f"{name}: {type(e).__name__}: {str(e)[:100]}")
            continue
        kept.append((name, case))
        bounds.append((len(lines_all), len(lines)))
        lines_all += lines
        impl_all.append(impl)
    cases = kept
    ctx.oblige("rig:R-filter every generated element could be built and configured on the implementation", "correspondence", not build_bad,
               "; ".join(build_bad[:5]))
    model_all = run_driver(EXE, lines_all)
    agree = 0
    for (name, case), impl, (st, ln) in zip(cases, impl_all, bounds):
        model, lines = model_all[st:st + ln], lines_all[st:st + ln]
        ctx.cov["traces_validated_against_impl"] += 1
        nontrivial = False
        for q, a in zip(lines, impl):
            if not q.startswith("frame"):
                continue
            parts = dict(kv.split("=", 1) for kv in a.split(" ") if "=" in kv)
            ctx.count(f"filter:{case['kind']}:gate={parts['gate']}")
            acls = [x for x in parts["acls"].split(",") if x]
            for x in acls:
                ctx.count(f"filter:verdict:{x.split(':')[0]}:{'permit' if x.split(':')[1] == '1' else 'deny'}")
            if parts["gate"] == "up":
                ctx.count("filter:disposition:" + ("+".join(e.split("@")[0] for e in parts["events"].split(",") if e) or
                                                   ("denied" if any(x.split(":")[1] == "0" for x in acls) else "dropped")))
                nontrivial = True
            if parts["sent"]:
                ctx.count("filter:sent")
            if " raised:" in a:
                ctx.violation({"kind": "exception-in-frame-processing", "element": case["kind"], "exc": a.split(" raised:")[1]},
                              f"{case['kind']}: the element's frame processing raised {a.split(' raised:')[1]} on `{q}`",
                              {"rig": "filter", "case": case, "line": q, "impl": a, "from": name})
            bad = rig.per_frame_oracle(a)
            if bad:
                ctx.violation({"kind": "denied-frame-not-inert", "element": case["kind"], "acl": acls[-1].split(":")[0]},
                              f"{case['kind']}: {bad}", {"rig": "filter", "case": case, "line": q, "impl": a, "from": name})
        if "bad-op" in model:
            raise RuntimeError(f"driver rejected a line of {name}")
        ctx.case(case, nontrivial)
        if impl == model:
            agree += 1
            if name.startswith("gen:"):
                ctx.sample({"rig": "filter", "case": name, "kind": case["kind"], "lines": lines[-3:], "answers": model[-3:]}, cap=3)
            continue
        i = next((j for j, (a, b) in enumerate(zip(impl, model)) if a != b), min(len(impl), len(model)))

        def fails(ops, case=case):
            ok, *_ = _diff_filter(dict(case, ops=ops))
            return not ok
        small = dict(case, ops=shrink_ops(case["ops"], fails, budget=60))
        ok, impl2, model2, i2, lines2 = _diff_filter(small)
        if ok:
            small, impl2, model2, i2, lines2 = case, impl, model, i, lines
        ctx.violation({"kind": "model-vs-impl", "rig": "filter", "element": case["kind"], "op": lines2[i2].split()[0]},
                      f"{case['kind']} answers differently from the proved element model at `{lines2[i2]}`: impl={impl2[i2]!r} "
                      f"model={model2[i2]!r}",
                      {"rig": "filter", "case": small, "lines": lines2, "impl": impl2, "model": model2, "first_diff": i2, "from": name})
    ctx.oblige("rig:R-filter agrees on every trace", "correspondence", agree == len(cases),
               f"{len(cases) - agree} of {len(cases)} traces disagree")


def run(ctx: Ctx):
    with lean_lock():
        ctx.extract("Filter", x_filter.emit)
        ctx.extract("FilterSoft", x_soft.emit)
        # Node.power_on / power_off / reset / apply_timestep / the two hooks, translated statement by statement (C06_gen_power_programs)
        ctx.extract("FilterPower", x_power.emit)
        # inventory of every emitter call site of the software layer (C06_gen_senders: all go through the session manager)
        ctx.extract("FilterSenders", x_senders.emit)
        # Props/C06 builds on C07's verdict theorems, whose Gen tables must be current as well
        ctx.extract("Acl", x_acl.emit)
        ctx.extract("AclMatch", x_acl.emit_match)
        # the translation of AccessControlList.is_permitted (C07's extractor, read-only): C06_gen_is_permitted_pure re-states that the
        # verdict reads the object and the frame only; C06_verdict_history_free is about that function
        ctx.extract("AclState", x_acl.emit_state)
        ctx.prove(MODULES, exes=[EXE], clean=False, leanchecker=ctx.thorough)
    ctx.assumptions = list(TRUSTED_BASE) + [
        "C06: software above the filtering layer is an arbitrary parameter of the model. In C06_certifiedN_unchanged the attacker "
        "side is modelled: a host's services/applications are arbitrary scripts over the software state whose emissions pass "
        "SessionManager.receive_payload_from_software_manager (hostStamp) - tied by Gen (one Frame construction, own source, the only "
        "send_frame site under simulator/system, ARPPacket built only by send_arp_request and generate_reply, send_arp_reply called "
        "only by the two _process_arp_request) and validated on every transmitted frame by R-net; a switch forwards the received "
        "frame unchanged (Gen.switchReceive + R-net); the ARP sender MAC of a request is represented by the frame's source MAC "
        "(equal on every frame send_arp_request builds)",
        "C06: 'software does not re-enable a boundary interface while processing frames' (SoftKeeps) is proved for software sets "
        "that are confined to the software state; that a shipped class IS confined rests on the regenerated per-class receive-path "
        "scan (self/super calls resolved in the ancestor chain, other calls by name, stops at the network boundary); the Terminal is "
        "not confined (request dispatcher: a logged-in attacker is the excluded application-level relay)",
        "C06: firewall second-stage blocks: what the firewall does with a frame that a NON-denying second list permits (a zone "
        "with no wire to the protected side), its own session replies and the DMZ look-ups are hypotheses of "
        "C06_certifiedC/N_unchanged (FwSecondOK), validated by R-net's count of frames put on protected-side wires",
        "C06: frame classes: destination-/protocol-specific rules and attacker-side interior routers keep the closure hypothesis "
        "EmitsCl (validated by R-net on every transmitted frame); source classes and the any-class over hosts and switches are proved",
        "C06: node-off inertness of hosts/switches/firewalls rests on the invariant 'not ON => interfaces disabled' (F-13/F-14), since "
        "round 7 proved inside C06 for the translated power programs (C06_power_inv_run); what stays assumed: frames handled by the node's "
        "software do not flip interface flags (SoftKeeps, as before), IPWiredNetworkInterface.enable's default_gateway_hello (a node that "
        "IS on), wireless routers are not in the rig's families (their enable() guard is pinned by C06_gen_power_interfaces)",
        "C06: frames are values in the model (the code shares one mutable Frame object among the recipients of a flood); frames "
        "whose IP protocol is TCP/UDP carry that header (enforced by Frame.__init__)",
    ]
    ctx.cov["rule"] = ("R-filter: case = (element kind, power, interface flags, rule lists, frames/flag flips); non-trivial when "
                       "some frame passes the interface gate. R-net: case = (topology family, placement, block mechanism, rule "
                       "shape, timing, red operation list); non-trivial when the same operations change the B side without the "
                       "block (control run). Distinct by canonical JSON.")
    _run_filter(ctx)
    netrig.run(ctx)
