"""C06 — blocking is effective: a host cut off from another cannot affect it; a denied frame is never forwarded nor
handed to the device's own software."""
from __future__ import annotations

import json
from typing import List

from harness.extract import acl as x_acl
from harness.extract import filter as x_filter
from harness.extract import filter_soft as x_soft
from harness.lib.core import TRUSTED_BASE, VERIF, Ctx, lean_lock, run_driver, shrink_ops
from harness.rigs import filter as rig
from harness.rigs import net as netrig

MANIFEST = {
    "text": "Lean 4 proof of (1) element lemmas for every software layer: a disabled or absent interface receives and sends "
            "nothing; a router that is not ON ignores frames; a frame a router's list denies, or a firewall's first- or "
            "second-stage list denies (six entry points; zone->list table proved equal to the one regenerated from "
            "firewall.py), changes nothing but that list's hit counter - no ARP learning, no session manager, no "
            "process_frame, nothing emitted; hit counters never weaken a block; rule shapes any-any / source range / empty list "
            "with implicit deny; (2) a cut theorem for re-entrant, synchronously delivering nodes: if every attacker-side "
            "node is interior, or has its boundary interfaces disabled, or is a router that is OFF or denies everything, or a "
            "firewall whose first-stage list denies everything on attacker-facing ports, then ANY sequence of operations on "
            "the attacker side, from ANY state of caches/sessions/software, leaves every protected node's state unchanged. "
            "Ties: Gen/Filter.lean regenerated from router.py, firewall.py, switch.py, host_node.py, base.py, "
            "session_manager.py (order of guards and calls, list per entry point, port dispatch, power guards, own-source "
            "stamping, send_frame call sites, cross-node reaches) + rig R-filter (real elements vs model, frame by frame) + "
            "rig R-net (generated switched / routed / firewall+DMZ topologies, every block mechanism, red repertoire from A "
            "before and after the block, B-side describe_state against an idle run, per-frame denied=>inert wrappers). "
            "Deepened (Props/C06Class.lean): the cut theorem for FRAME CLASSES - a router whose list denies every packet of the "
            "class circulating on the attacker side (source exact/range, destination, protocol, port patterns; decidable scan "
            "denyClassCheck proved sound), a firewall whose first OR second-stage lists deny the class (the six entry points, "
            "second entry selected as in the code); the class-aware certificate certifyC is proved sound and must accept the real "
            "post-block network of EVERY R-net scenario and reject the same network without the block; a denying router's handling "
            "of genuine ARP packets (routerArpSoft: RouterARP request/reply, reply through resolve_outbound_network_interface, "
            "process_frame's broadcast and own-address drops) is PROVED to stay on the attacker side; ARP.send_arp_request targets "
            "only a local subnet or the default gateway and stamps the outbound interface as sender; Gen/FilterSoft.lean: every "
            "enable()/enable_port()/.enabled=True site, none reachable from receive_frame except through the request dispatcher.",
    "note": "Partial: software above the filtering layer is an arbitrary parameter except a router's ARP handling (modelled, "
            "proved); remaining hypotheses, validated by R-net: at a firewall port whose first list lets the class pass, the "
            "firewall's own session replies, its DMZ look-ups and its forwarding INTO ZONES WITH NO WIRE TO THE PROTECTED SIDE stay "
            "on the attacker side (forwarding correctness is C08's); attacker-side nodes emit only frames of the class (validated "
            "on every transmitted frame); software does not re-enable a boundary interface (regenerated call-site scan: only through "
            "the request dispatcher); node-off inertness for hosts/switches/firewalls rests on C12's invariant (not ON => interfaces disabled); "
            "shared mutable frames/payload aliasing and application-level relays are outside the model.",
    "technique": "Lean 4 theorems over executable element models + generic cut theorem; model tied by regenerated tables and "
                 "two differential/oracle rigs",
    "design_ref": "5/C06",
}
MODULES = ["PrimaiteModel.Lemmas.C06Cut", "PrimaiteModel.Props.C06", "PrimaiteModel.Props.C06Class", "PrimaiteModel.Props.C06Deny", "PrimaiteModel.Props.C06Net"]
EXE = "drv_c06"


def _diff_filter(case: dict):
    impl, lines = rig.run_impl(case)
    model = run_driver(EXE, lines)
    for i, (a, b) in enumerate(zip(impl, model)):
        if a != b:
            return False, impl, model, i, lines
    return True, impl, model, -1, lines


def replay(rec: dict) -> bool:
    r = rec["replay"]
    if r.get("rig") == "filter":
        with lean_lock():
            from harness.lib.core import lake_build
            lake_build([EXE])
        ok, impl, *_ = _diff_filter(r["case"])
        return ok and not any(rig.per_frame_oracle(a) for a in impl)
    if r.get("rig") == "net":
        res = netrig.run_scenario(r["scenario"])
        return not res["violations"]
    return True


def _run_filter(ctx: Ctx):
    cases = []
    for f in sorted((VERIF / "corpus" / "C06").glob("filter-*.json")):
        cases.append(("corpus:" + f.name, json.loads(f.read_text())["case"]))
    rng = ctx.rng.fork("filter")
    for k in range(ctx.scale(250, 4000)):
        cases.append((f"gen:{k}", rig.gen_case(rng, max_frames=ctx.scale(12, 24))))
    impl_all, lines_all, bounds = [], [], []
    for name, case in cases:
        impl, lines = rig.run_impl(case)
        bounds.append((len(lines_all), len(lines)))
        lines_all += lines
        impl_all.append(impl)
    model_all = run_driver(EXE, lines_all)
    agree = 0
    for (name, case), impl, (st, ln) in zip(cases, impl_all, bounds):
        model, lines = model_all[st:st + ln], lines_all[st:st + ln]
        ctx.cov["traces_validated_against_impl"] += 1
        nontrivial = False
        for q, a in zip(lines, impl):
            if not q.startswith("frame"):
                continue
            parts = dict(kv.split("=", 1) for kv in a.split(" ") if "=" in kv)
            ctx.count(f"filter:{case['kind']}:gate={parts['gate']}")
            acls = [x for x in parts["acls"].split(",") if x]
            for x in acls:
                ctx.count(f"filter:verdict:{x.split(':')[0]}:{'permit' if x.split(':')[1] == '1' else 'deny'}")
            if parts["gate"] == "up":
                ctx.count("filter:disposition:" + ("+".join(e.split("@")[0] for e in parts["events"].split(",") if e) or
                                                   ("denied" if any(x.split(":")[1] == "0" for x in acls) else "dropped")))
                nontrivial = True
            if parts["sent"]:
                ctx.count("filter:sent")
            bad = rig.per_frame_oracle(a)
            if bad:
                ctx.violation({"kind": "denied-frame-not-inert", "element": case["kind"], "acl": acls[-1].split(":")[0]},
                              f"{case['kind']}: {bad}", {"rig": "filter", "case": case, "line": q, "impl": a, "from": name})
        if "bad-op" in model:
            raise RuntimeError(f"driver rejected a line of {name}")
        ctx.case(case, nontrivial)
        if impl == model:
            agree += 1
            if name.startswith("gen:"):
                ctx.sample({"rig": "filter", "case": name, "kind": case["kind"], "lines": lines[-3:], "answers": model[-3:]}, cap=3)
            continue
        i = next((j for j, (a, b) in enumerate(zip(impl, model)) if a != b), min(len(impl), len(model)))

        def fails(ops, case=case):
            ok, *_ = _diff_filter(dict(case, ops=ops))
            return not ok
        small = dict(case, ops=shrink_ops(case["ops"], fails, budget=60))
        ok, impl2, model2, i2, lines2 = _diff_filter(small)
        if ok:
            small, impl2, model2, i2, lines2 = case, impl, model, i, lines
        ctx.violation({"kind": "model-vs-impl", "rig": "filter", "element": case["kind"], "op": lines2[i2].split()[0]},
                      f"{case['kind']} answers differently from the proved element model at `{lines2[i2]}`: impl={impl2[i2]!r} "
                      f"model={model2[i2]!r}",
                      {"rig": "filter", "case": small, "lines": lines2, "impl": impl2, "model": model2, "first_diff": i2, "from": name})
    ctx.oblige("rig:R-filter agrees on every trace", "correspondence", agree == len(cases),
               f"{len(cases) - agree} of {len(cases)} traces disagree")


def run(ctx: Ctx):
    with lean_lock():
        ctx.extract("Filter", x_filter.emit)
        ctx.extract("FilterSoft", x_soft.emit)
        # Props/C06 builds on C07's verdict theorems, whose Gen tables must be current as well
        ctx.extract("Acl", x_acl.emit)
        ctx.extract("AclMatch", x_acl.emit_match)
        ctx.prove(MODULES, exes=[EXE], clean=False, leanchecker=ctx.thorough)
    ctx.assumptions = list(TRUSTED_BASE) + [
        "C06: software above the filtering layer is an arbitrary parameter of the model, except a router's ARP handling "
        "(routerArpSoft, proved safe under: ARP requests are broadcasts whose sender lies in the arrival interface's network, ARP "
        "replies to an interface's MAC are for its IP, boundary and attacker-facing networks are disjoint - the last is checked by "
        "certifyC); 'software does not re-enable a boundary interface while processing frames' rests on the regenerated enable-site "
        "scan (name-based call graph; the request dispatcher IS reachable: a logged-in attacker is the excluded relay)",
        "C06: firewall second-stage blocks: what the firewall does with a frame that a NON-denying second list permits (a zone "
        "with no wire to the protected side), its own session replies and the DMZ look-ups are hypotheses of "
        "C06_certifiedC_unchanged (FwSecondOK), validated by R-net's count of frames put on protected-side wires",
        "C06: frame classes: that attacker-side nodes emit only frames of the scenario's class is a hypothesis (EmitsCl), proved "
        "for the source part of host emissions (C06_localOp_src_class) and validated by R-net on every transmitted frame",
        "C06: node-off inertness of hosts/switches/firewalls rests on C12's invariant 'not ON => interfaces disabled' (F-13/F-14)",
        "C06: frames are values in the model (the code shares one mutable Frame object among the recipients of a flood); frames "
        "whose IP protocol is TCP/UDP carry that header (enforced by Frame.__init__)",
    ]
    ctx.cov["rule"] = ("R-filter: case = (element kind, power, interface flags, rule lists, frames/flag flips); non-trivial when "
                       "some frame passes the interface gate. R-net: case = (topology family, placement, block mechanism, rule "
                       "shape, timing, red operation list); non-trivial when the same operations change the B side without the "
                       "block (control run). Distinct by canonical JSON.")
    _run_filter(ctx)
    netrig.run(ctx)
