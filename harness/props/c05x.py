"""C05x — the static part of C05: `action_never_unreachable` / `only_own_validators` over the regenerated schematic
request tree (E4) and the regenerated action templates (E5).

Not a registered property: `extra(ctx)` is meant to be called from harness/props/c05.py (after its own extract/prove and
before/after its rig).  `run(ctx)` exists only so that `check.py C05x` can exercise it on its own while it is being built.
"""
from __future__ import annotations

import json
from typing import Any, Dict

from harness.extract import action_templates as x_templ
from harness.extract import request_core as x_core
from harness.extract import request_schema as x_schema
from harness.extract import request_sites as x_sites
from harness.extract import request_validators as x_valid
from harness.lib import scen
from harness.lib.core import VERIF, Ctx, lean_lock
from harness.rigs import request_schema as rig

MODULES = ["PrimaiteModel.Props.C05Schema", "PrimaiteModel.Props.C05Guards", "PrimaiteModel.Props.C05Inst",
           "PrimaiteModel.Props.C05Sites"]
EXE = "drv_c05x"
QUICK_SCEN = ["data_manipulation", "basic_firewall", "basic_switched_network", "multi_lan_internet_network_example"]
SKIP = {"bad_primaite_session", "no_nodes_links_agents_network"}


def scenarios(ctx: Ctx) -> Dict[str, Any]:
    allsc = scen.shipped()
    if not ctx.thorough:
        return {k: allsc[k] for k in QUICK_SCEN if k in allsc}
    return {k: v for k, v in allsc.items() if k not in SKIP}


def registry():
    import primaite.game.game  # noqa: F401  (registers every action)
    from primaite.game.agent.actions.abstract import AbstractAction
    return dict(AbstractAction._registry)


DOCUMENTED = {"pending", "success", "failure", "unreachable"}


def corpus(ctx: Ctx):
    """Minimised past failures (corpus/C05x): the action is formed by the real `form_request` and applied with the real
    handlers on a fresh build of its scenario; it must answer a documented status other than 'unreachable'."""
    reg = registry()
    for f in sorted((VERIF / "corpus" / "C05x").glob("*.json")):
        w = json.loads(f.read_text())
        sim = scen.make_game(scen.load_cfg(scen.shipped()[w["scenario"]])).simulation
        for req in w.get("setup", []):
            sim.apply_request(list(req))
        req = reg[w["action"]].form_request(reg[w["action"]].ConfigSchema(type=w["action"], **w["opts"]))
        try:
            resp = sim.apply_request(list(req))
            st = getattr(resp, "status", None)
        except Exception as e:
            st = "raised " + type(e).__name__
        ctx.count("corpus")
        ctx.case({"corpus": f.name}, True)
        if st not in DOCUMENTED or (w.get("expect_not_unreachable") and st == "unreachable"):
            ctx.violation({"kind": "action-on-present-components-unreachable", "action": w["action"], "witness": f.name},
                          f"corpus witness {f.name} ({w['note']}) fails again: status {st!r}",
                          {"scenario": w["scenario"] + "#0", "action": w["action"], "opts": w["opts"], "req": req, "setup": w.get("setup", [])})


def extra(ctx: Ctx):
    """extract both Gen files, prove the new module, run the rig"""
    with lean_lock():
        ctx.extract("RequestCore", x_core.emit)          # Props/C05Schema imports Props/C05, which imports Gen/RequestCore
        ok1 = ctx.extract(x_schema.GEN_NAME, x_schema.emit)
        ok2 = ctx.extract(x_templ.GEN_NAME, x_templ.emit)
        ctx.extract(x_sites.GEN_NAME, x_sites.emit)       # E4b: guards of every dynamic add/remove site (Props/C05Sites)
        ctx.extract(x_valid.GEN_NAME, x_valid.emit)       # E6: every validator __call__ translated (Props/C05Guards)
        proved = ctx.prove(MODULES, exes=[EXE], leanchecker=ctx.thorough)
    ctx.cov["rule_schema"] = ("R-schema: every manager of the live request tree of shipped scenarios (initial and perturbed states) compared "
                              "with the regenerated schema; every component of the object graph compared with the dynamic levels; generated "
                              "options for every registered action compared with the regenerated template and with the Lean model's "
                              "present / instantiate / routeVals; distinct by (scenario, state, action, options)")
    corpus(ctx)
    if not (ok1 and ok2):
        return  # the broken extractor is already recorded as an obligation; the rig needs both tables
    # if the module no longer builds the rig still runs its implementation-side parts (search for a concrete failing input)
    rig.schema_predicts_live(ctx, scenarios(ctx), registry(), model_ok=bool(proved))


def run(ctx: Ctx):
    ctx.cov["rule"] = "see rule_schema"
    extra(ctx)
    ctx.cov["rule"] = ctx.cov["rule_schema"]


def replay(rec: dict) -> bool:
    """Re-run one recorded (scenario, action, options) on a fresh build: the request must reach a handler key-wise."""
    rp = rec["replay"]
    name = rp["scenario"].split("#")[0]
    game = scen.make_game(scen.load_cfg(scen.shipped()[name]))
    for r in rp.get("setup", []):
        game.simulation.apply_request(list(r))
    rig.apply_ops(game.simulation, rp.get("setup_ops", []))
    if rp.get("mode") == "veval":   # R-guards: every live validator of the recorded class against its translated predicate
        from harness.lib.core import Rng, run_driver
        from harness.rigs import request_guards as rguards
        ctx = Ctx("C05x", "quick", 1)
        lines, pending = [], []
        rguards.collect(ctx, game.simulation, Rng(1), "replay", lines, pending, cap_per_class=10 ** 6)
        keep = [(l, p) for l, p in zip(lines, pending) if p.get("cls") == rp["validator"]]
        out = run_driver(EXE, [l for l, _ in keep])
        return not rguards.judge(ctx, [p for _, p in keep], out)
    reg = registry()
    req = reg[rp["action"]].form_request(reg[rp["action"]].ConfigSchema(type=rp["action"], **rp["opts"]))
    reach, _ = rig.live_walk(game.simulation._request_manager, req)
    return reach
