"""C04 — episodes and environment instances are isolated from one another."""
from __future__ import annotations

import atexit
import copy
import importlib
import json
import os
import shutil
import tempfile
from pathlib import Path
from typing import Any, Dict, List, Optional, Tuple

from harness.extract import isolation_reset as x_ir
from harness.extract import sharedstate as x_ss
from harness.lib import scen
from harness.lib.core import VERIF, Ctx, Rng, lean_lock, run_driver, shrink_ops
from harness.rigs import envrig
from harness.rigs import isolation as iso

MANIFEST = {
    "text": "Lean 4 proof, for a generic process model (any number of environment instances, each with environment-level and per-game "
            "state, one store of process globals, operations = straight-line programs), that under the read/write discipline of the "
            "classification (import-only globals never written; re-written-before-read / RNG globals read only after the same operation "
            "wrote them; sink-only globals read only by logging) EVERY schedule of operations leaves an instance's trajectory and state "
            "equal to its solo run (C04_instances_independent, C04_interleaving: induction over the schedule with the frame rule C04_frame), "
            "and that a reset which does not read the old game makes any two histories indistinguishable from the reset on "
            "(C04_reset_is_fresh, C04_history_irrelevant). Tie: the SHARED-STATE INVENTORY (every ClassVar / class-level mutable attribute / "
            "module-level mutable object, every run-time write site, every use of the global RNGs, every `global` statement, pydantic mutable "
            "defaults) is regenerated from source into Gen/SharedState.lean and checked against a committed role table "
            "(C04_gen_functions_known, C04_gen_classification, C04_gen_skeleton_matches, C04_gen_globals_safe_partial, "
            "C04_gen_rng_safe_partial). PARTIAL: the code violates the discipline in `step` (F-10 NMNE class attributes, F-11 global RNG): "
            "the full statements are kept as C04_FullSkeletonIsolated / C04_FullGenGlobalsSafe / C04_FullGenRngSafe with proved "
            "counterexamples; that the real step/reset behave like their skeleton is validated by the differential rig only.",
    "note": "C04-specific: the model abstracts an operation to its global access pattern; within one operation the inventory's write is "
            "assumed to precede the reads (validated by the rig). File/terminal output (SIM_OUTPUT, pcap loggers) is outside the claim.",
    "technique": "Lean 4 non-interference proof over a mini imperative language; regenerated shared-state inventory; differential env rig "
                 "(dirty history, interleaved instances with channel attribution, object-identity disjointness, scheduler copies)",
    "design_ref": "5/C04",
}
MODULES = ["PrimaiteModel.Props.C04"]
EXE = "drv_c04"
CORPUS = VERIF / "corpus" / "C04"

_TMP: List[str] = []


def _cleanup():
    for d in _TMP:
        shutil.rmtree(d, ignore_errors=True)


atexit.register(_cleanup)

QUIET_YAML = "\nio_settings:\n" + "".join(f"  {k}: {'true' if v else 'false'}\n" for k, v in scen.QUIET_IO.items())


def episodic_dir(name: str) -> Optional[str]:
    """copy of a shipped scenario directory (EpisodeListScheduler) with all file output switched off"""
    src = scen.PKG / name
    if not src.is_dir():
        return None
    tmp = tempfile.mkdtemp(prefix="c04_")
    _TMP.append(tmp)
    dst = Path(tmp) / name
    shutil.copytree(src, dst)
    import yaml
    base = dst / yaml.safe_load((dst / "schedule.yaml").read_text())["base_scenario"]
    base.write_text(base.read_text() + QUIET_YAML)   # the last duplicate key wins in PyYAML
    return str(dst)


def make_env_path(path: str):
    from primaite.session.environment import PrimaiteGymEnv
    return PrimaiteGymEnv(env_config=path)


# ---------------------------------------------------------------------------------------------- scenario variants
def set_nmne(cfg: Dict, nmne: Dict) -> Dict:
    cfg = copy.deepcopy(cfg)
    cfg.setdefault("simulation", {}).setdefault("network", {})["nmne_config"] = nmne
    return cfg


def strip_rng(cfg: Dict) -> Dict:
    """remove everything that draws from the process-global generators: scripted agents other than probabilistic ones, red applications"""
    cfg = copy.deepcopy(cfg)
    cfg["agents"] = [a for a in cfg.get("agents", []) if a.get("type") in iso.RNG_AGENT_SAFE]
    for n in cfg.get("simulation", {}).get("network", {}).get("nodes", []):
        if n.get("applications"):
            n["applications"] = [a for a in n["applications"] if a.get("type") not in iso.RNG_APPS]
    return cfg


def set_thresholds(cfg: Dict, th: Dict) -> Dict:
    cfg = copy.deepcopy(cfg)
    cfg.setdefault("game", {})["thresholds"] = th
    return cfg


def set_seed(cfg: Dict, seed: Optional[int]) -> Dict:
    cfg = copy.deepcopy(cfg)
    if seed is None:
        cfg.get("game", {}).pop("seed", None)
    else:
        cfg.setdefault("game", {})["seed"] = seed
    return cfg


def set_air(cfg: Dict, mbps: float) -> Dict:
    cfg = copy.deepcopy(cfg)
    cfg.setdefault("simulation", {}).setdefault("network", {})["airspace"] = {"frequency_max_capacity_mbps": {"WIFI_2_4": mbps, "WIFI_5": mbps}}
    return cfg


NMNE_ON = {"capture_nmne": True, "nmne_capture_keywords": ["DELETE"]}
NMNE_ON2 = {"capture_nmne": True, "nmne_capture_keywords": ["SELECT", "DELETE"], "capture_by_keyword": True}
NMNE_OFF = {"capture_nmne": False}
TH = {"nmne": {"high": 3, "medium": 2, "low": 1}, "file_access": {"high": 4, "medium": 2, "low": 1}}


def _load(name: str) -> Optional[Dict]:
    sh = scen.shipped()
    if name not in sh:
        return None
    try:
        return envrig.with_proxy(scen.load_cfg(sh[name]))
    except Exception:
        return None


def _aug(cfg: Dict, rng: Rng, n: int) -> Dict:
    try:
        return envrig.augmented(cfg, rng, n) or cfg
    except Exception:
        return cfg


# ---------------------------------------------------------------------------------------------- import-only globals at run time
def _resolve(name: str):
    mod, _, path = name.partition(":")
    m = importlib.import_module("primaite" if mod == "primaite" else "primaite." + mod)
    o = m
    for p in path.split("."):
        o = getattr(o, p)
    return o


def _finger(o: Any) -> str:
    if isinstance(o, dict):
        return "dict:" + ";".join(f"{k!r}->{_finger1(v)}" for k, v in o.items())
    if isinstance(o, (list, tuple, set)):
        return type(o).__name__ + ":" + ";".join(_finger1(v) for v in (sorted(o, key=repr) if isinstance(o, set) else o))
    return _finger1(o)


def _finger1(v: Any) -> str:
    if isinstance(v, (str, int, float, bool, type(None), type)):
        return repr(v)
    if hasattr(v, "model_dump"):
        try:
            return json.dumps(v.model_dump(), default=str, sort_keys=True)
        except Exception:
            pass
    d = getattr(v, "__dict__", None)
    if isinstance(d, dict):
        return type(v).__name__ + repr(sorted((k, repr(x)[:80]) for k, x in d.items() if not k.startswith("__")))[:2000]
    return repr(v)[:200]


def snapshot_import_only(inv) -> Dict[str, str]:
    out = {}
    for name, e in inv.entries.items():
        if e["writers"] or e["kind"] == "module-logger":
            continue
        try:
            out[name] = _finger(_resolve(name))
        except Exception as ex:
            out[name] = f"<unresolved {type(ex).__name__}>"
    return out


def classvars_at_runtime() -> List[str]:
    """`module:Class.attr` of every ClassVar pydantic knows about and every class-body mutable attribute of loaded primaite classes"""
    import sys
    out = set()
    for mname, mod in list(sys.modules.items()):
        if not mname.startswith("primaite") or mod is None or ".notebooks" in mname or ".setup" in mname:
            continue

        def visit(cls, qual):
            if getattr(cls, "__module__", None) != mname:
                return
            own_ann = vars(cls).get("__annotations__", {}) or {}
            for cv in getattr(cls, "__class_vars__", set()) or ():
                if cv in own_ann and any(t in str(own_ann[cv]) for t in ("ClassVar", "Final")):  # declared here, not inherited
                    out.add(f"{mname[len('primaite.'):] if mname != 'primaite' else 'primaite'}:{qual}.{cv}")
            for k, v in list(vars(cls).items()):
                if isinstance(v, type) and v.__qualname__.startswith(cls.__qualname__ + "."):
                    visit(v, qual + "." + k)
        for k, v in list(vars(mod).items()):
            if isinstance(v, type):
                visit(v, v.__qualname__) if v.__qualname__ == k else None
    return sorted(out)


# ---------------------------------------------------------------------------------------------- replay
def _run_interleaving(rp: dict) -> dict:
    sched = [tuple(x) for x in rp["schedule"]]
    cfg_a = rp["cfg_a"] if "cfg_a" in rp else _variant(rp["a"])   # corpus files name the scenarios, replay files carry them
    cfg_b = rp["cfg_b"] if "cfg_b" in rp else _variant(rp["b"])
    return iso.interleaving(cfg_a, cfg_b, sched)


def replay(rec: dict) -> bool:
    rp = rec["replay"]
    if rp.get("type") == "interleaving":
        return _run_interleaving(rp)["diff"] is None
    if rp.get("type") == "dirty-history":
        if not isinstance(rp["cfg"], dict):
            return False  # scenario directory copied to a temporary place: re-run the check instead
        used = scen.make_env(rp["cfg"])
        for op in rp["history"]:
            if op[0] == "reset":
                used.reset(seed=op[1])
            else:
                used.step(op[1] % int(used.action_space.n))
        later = [tuple(x) for x in rp["later"]]
        t1 = iso.run_ops(used, later, iso.Canon())
        fresh = scen.make_env(rp["cfg"])
        for _ in range(sum(1 for op in rp["history"] if op[0] == "reset")):
            fresh.reset(seed=0)
        t2 = iso.run_ops(fresh, later, iso.Canon())
        return iso.first_difference(t1, t2) is None
    return False  # identity / scheduler / global-mutated records are not re-executable on their own: re-run the check


def _shrink_schedule(cfg_a, cfg_b, schedule, channels) -> List[Tuple]:
    """drop B-operations (and trailing A-steps) while the same channel still shows a difference"""
    def fails(cand):
        if not any(e[0] == "A" and e[1] == "construct" for e in cand):
            return False
        # B must be constructed before it is used
        seen_b = False
        for e in cand:
            if e[0] == "B":
                if e[1] == "construct":
                    seen_b = True
                elif not seen_b:
                    return False
        try:
            r = iso.interleaving(cfg_a, cfg_b, cand)
        except Exception:
            return False
        return r["diff"] is not None and r["channels"] == channels
    return shrink_ops(list(schedule), fails, budget=14)


# ---------------------------------------------------------------------------------------------- the run
def run(ctx: Ctx):
    with lean_lock():
        ctx.extract("SharedState", x_ss.emit)
        ctx.extract("IsolationReset", x_ir.emit)
        ctx.prove(MODULES, exes=[EXE], leanchecker=ctx.thorough)
    ctx.cov["rule"] = ("(a) one case = scenario x action map x dirty history (1-3 episodes of generated actions) x later action sequence; every compared "
                       "step (observation, reward, flags, every agent's action/request/response, whole describe_state) is one evaluation. "
                       "(b) one case = scenario pair x random schedule of construct/reset/step/close of B around A's operations; every A-step is "
                       "one evaluation; non-trivial = a step whose action is not do-nothing or that follows an operation of B. "
                       "distinct = by digest of A's canonical trajectory and the schedule")
    inv = x_ss.build()
    ctx.cov["inventory"] = {"entries": len(inv.entries), "runtime_written": sorted(n for n, e in inv.entries.items() if e["writers"]),
                            "rng_use_sites": len(set(inv.rng)), "pydantic_mutable_defaults": len(set(inv.pyd_defaults)),
                            "global_statements": len(inv.global_stmts)}
    import primaite.game.game  # noqa: F401  (loads every class)
    import primaite.session.environment  # noqa: F401
    # run-time cross-check of the extractor: every ClassVar that pydantic / the interpreter knows is in the inventory
    rt = classvars_at_runtime()
    missing = [n for n in rt if n not in inv.entries]
    ctx.oblige("extractor cross-check: every ClassVar of the loaded classes is an inventory entry", "extractor", not missing, f"missing: {missing[:8]}")
    ctx.cov["classvars_seen_at_runtime"] = len(rt)
    before = snapshot_import_only(inv)
    iso.pin_opaque_widths()

    rng = ctx.rng.fork("c04")
    model_lines: List[str] = []
    expectations: List[Tuple[str, Any]] = []   # (kind, payload) per model line

    # ---------------- corpus / known-finding witnesses first
    for f in sorted(CORPUS.glob("*.json")):
        rec = json.loads(f.read_text())
        rp = rec["replay"]
        if rp.get("type") == "interleaving":
            cfg_a, cfg_b = _variant(rp["a"]), _variant(rp["b"])
            if cfg_a is None or cfg_b is None:
                ctx.notes.append(f"corpus {f.name}: scenario missing")
                continue
            sched = [tuple(x) for x in rp["schedule"]]
            _interleaving_case(ctx, f"corpus:{f.stem}", rp["a"], rp["b"], cfg_a, cfg_b, sched, model_lines, expectations, shrink=False)
            ctx.count("corpus-witness")

    # ---------------- (a) dirty history, (c) identity, (d) scheduler
    allowed = None
    for label, cfg, maker in _dirty_cases(ctx, rng):
        n_dirty, n_later = ctx.scale(30, 70), ctx.scale(16, 40)
        episodes = rng.range(1, 3)
        seed = rng.below(2 ** 31)
        try:
            r = iso.dirty_history(cfg, rng.fork("dh" + label), n_dirty, n_later, episodes, seed, make=maker)
        except Exception as e:
            ctx.notes.append(f"dirty-history {label}: not runnable: {type(e).__name__}: {str(e)[:120]}")
            ctx.count("dirty:not-runnable")
            continue
        ctx.count("dirty:case")
        ctx.cov["traces_validated_against_impl"] += 1
        for i, op in enumerate(r["later"]):
            ctx.case({"k": "dirty", "sc": label, "d": r["digest"], "i": i}, op[0] == "reset" or op[1] != 0)
        ctx.count("dirty:history-ops", len(r["history"]))
        for key, n in r.get("dirtied", {}).items():
            ctx.count("dirty:" + key, n)
        if r["diff"] is not None:
            d = r["diff"]
            ctx.violation({"kind": "reset-not-fresh", "component": d["component"], "where": "/".join(str(d.get("path", "")).split("/")[:4])},
                          f"{label}: after {episodes} dirty episode(s), reset(seed={seed}) + the same actions differ from a fresh environment at "
                          f"record {d['index']} in {d['component']} {d.get('path', '')}: used={d.get('a')} fresh={d.get('b')}",
                          {"type": "dirty-history", "scenario": label, "cfg": cfg if isinstance(cfg, dict) else str(cfg), "history":
                           [list(x) for x in r["history"]], "later": [list(x) for x in r["later"]], "diff": d})
        # model: used = instance 0, fresh = instance 1, same environment-level attributes
        sched_flag = 0 if isinstance(cfg, dict) else 1
        rngflag = int(iso.uses_global_rng(cfg)) if isinstance(cfg, dict) else 1
        lines = ["reset", f"new 0 7 1 0 {rngflag} {sched_flag}", f"new 1 7 1 0 {rngflag} {sched_flag}", "ev 0 constructns 0"]
        for op in r["history"]:
            lines.append("ev 0 resetns 0" if op[0] == "reset" else f"ev 0 step {op[1] % 1000}")
        later_lines = [f"ev X reset {r['later'][0][1] % 100000}"] + [f"ev X step {op[1] % 1000}" for op in r["later"][1:]]
        lines += [l.replace("X", "0") for l in later_lines]
        lines += ["ev 1 constructns 0"] + ["ev 1 resetns 0"] * (episodes - 1) + [l.replace("X", "1") for l in later_lines]
        lines.append(f"cmptail 0 1 {len(later_lines)}")
        model_lines += lines
        expectations += [("skip", None)] * (len(lines) - 1) + [("dirty", (label, r["diff"] is None))]
        # (c) identity disjointness: old game vs new game of the used environment; used vs fresh environment
        if allowed is None:
            allowed = iso.import_time_objects()
        for what, x, y in (("old-vs-new game of one environment", r["old_game"], r["used"].game),
                           ("games of two environments", r["used"].game, r["fresh"].game),
                           ("environment objects", r["used"], r["fresh"])):
            sh = iso.shared_objects(x, y, allowed)
            ctx.count("identity:pairs-checked")
            ctx.case({"k": "identity", "sc": label, "what": what}, True)
            if sh:
                ctx.violation({"kind": "shared-mutable-object", "what": what, "type": sh[0]},
                              f"{label}: {len(sh)} mutable objects are reachable from both {what}: {sorted(set(sh))[:6]}",
                              {"type": "identity", "scenario": label, "what": what, "types": sorted(set(sh))[:40]})
        # the only import-time objects a game may point at are the AirSpaceFrequency constants
        from primaite.simulator.network.airspace import AirSpaceFrequency
        freq = iso.reachable(AirSpaceFrequency._registry)
        g = iso.reachable(r["used"].game)
        stray = sorted({f"{type(o).__module__}.{type(o).__qualname__}" for i, o in g.items() if i in allowed and i not in freq})
        ctx.oblige(f"identity[{label}]: a game references no import-time mutable object except AirSpaceFrequency constants", "correspondence",
                   not stray, f"{stray[:10]}")
        # (d) scheduler
        probs = iso.scheduler_copies(r["used"], [0, 1, r["used"].episode_counter])
        ctx.count("scheduler:checked")
        for p in probs:
            ctx.violation({"kind": "scheduler-shares-state", "what": p.split(" ")[0]}, f"{label}: {p}", {"type": "scheduler", "scenario": label, "problem": p})
        ctx.sample({"rig": "dirty-history", "scenario": label, "dirty_episodes": episodes, "history_ops": len(r["history"]),
                    "later_ops": len(r["later"]), "equal": r["diff"] is None}, cap=8)
        for e in (r["used"], r["fresh"]):
            try:
                e.close()
            except Exception:
                pass

    # ---------------- (b) interleaved instances
    for label_a, label_b, cfg_a, cfg_b in _pairs(ctx, rng):
        try:
            ea, eb = scen.make_env(cfg_a), scen.make_env(cfg_b)
            sa, sb = int(ea.action_space.n), int(eb.action_space.n)
        except Exception as e:
            ctx.notes.append(f"pair {label_a}/{label_b}: not constructible: {type(e).__name__}: {str(e)[:100]}")
            continue
        for rep in range(ctx.scale(1, 3)):
            sched = iso.gen_schedule(rng.fork(f"{label_a}{label_b}{rep}"), ctx.scale(18, 45), sa, sb, rng.chance(1, 2))
            _interleaving_case(ctx, f"{label_a}|{label_b}", label_a, label_b, cfg_a, cfg_b, sched, model_lines, expectations, shrink=True)

    # ---------------- the model's verdicts
    out = run_driver(EXE, model_lines) if model_lines else []
    bad = 0
    if len(out) != len(model_lines):
        ctx.oblige("rig: driver answered every line", "correspondence", False, f"{len(out)} of {len(model_lines)}")
    for line, ans, (kind, payload) in zip(model_lines, out, expectations):
        if ans == "bad-op":
            bad += 1
            ctx.oblige("rig: driver understood `" + line + "`", "correspondence", False, ans)
        if kind == "dirty":
            label, impl_same = payload
            ctx.count("model:dirty-" + ans)
            if ans == "same" and not impl_same:
                bad += 1
            if ans != "same":   # the proved model says reset(seed) erases every history: the driver must agree with the theorem
                bad += 1
                ctx.oblige(f"model[{label}]: reset(seed) after a history equals reset(seed) on a fresh instance", "correspondence", False, ans)
        elif kind == "astep":
            label, idx, impl_same, replay_info = payload
            verdict = ans.split(" ")[0]
            ctx.count("model:A-op-" + verdict + ("/impl-same" if impl_same else "/impl-differs"))
            if verdict == "same" and not impl_same:
                bad += 1
                ctx.violation({"kind": "interference-not-predicted-by-model", "pair": label},
                              f"{label}: the model predicts that A's operation #{idx} is unaffected, the implementation's differs", replay_info)
    ctx.oblige("rig:R-env whenever the proved model predicts an unaffected operation the implementation agrees", "correspondence", bad == 0,
               f"{bad} disagreements")

    after = snapshot_import_only(inv)
    changed = sorted(n for n in before if before[n] != after.get(n))
    ctx.oblige("import-only globals of the inventory are unchanged after every operation run by the rig", "correspondence", not changed,
               f"changed: {changed[:6]}")
    for n in changed[:3]:
        ctx.violation({"kind": "import-only-global-mutated", "name": n}, f"{n} is classified import-only but changed while environments ran",
                      {"type": "global-mutated", "name": n, "before": before[n][:300], "after": after[n][:300]})


def _variant(spec: Dict) -> Optional[Dict]:
    """scenario spec of a corpus file: {"scenario": name, "nmne": {...}?, "strip_rng": bool?, "seed": int?}"""
    cfg = _load(spec["scenario"])
    if cfg is None:
        return None
    if "nmne" in spec:
        cfg = set_nmne(cfg, spec["nmne"])
    if spec.get("strip_rng"):
        cfg = strip_rng(cfg)
    if "seed" in spec:
        cfg = set_seed(cfg, spec["seed"])
    return cfg


def _dirty_cases(ctx: Ctx, rng: Rng):
    names = ["data_manipulation", "basic_firewall", "wireless_wan_network_config"]
    if ctx.thorough:
        names += ["uc7_config", "dmz_network", "basic_switched_network", "test_primaite_session", "multi_lan_internet_network_example",
                  "firewall_actions_network", "install_and_configure_apps"]
    first = True
    for name in names:
        cfg = _load(name)
        if cfg is None:
            continue
        if first:
            yield name + "/shipped-map", cfg, scen.make_env
            first = False
        for v in range(ctx.scale(1, 2)):
            yield f"{name}/generated-map-{v}", _aug(cfg, rng.fork(f"aug{name}{v}"), ctx.scale(50, 120)), scen.make_env
    for d in (["scenario_with_placeholders"] + (["mini_scenario_with_simulation_variation"] if ctx.thorough else [])):
        p = episodic_dir(d)
        if p:
            yield f"{d}/episodic", p, make_env_path


def _pairs(ctx: Ctx, rng: Rng):
    uc2 = _load("data_manipulation")
    fw = _load("basic_firewall")
    wl = _load("wireless_wan_network_config")
    out = []
    if uc2 and fw:
        # different NMNE settings (F-10 territory)
        out.append(("uc2", "firewall-nmne-off", uc2, fw))
        # A without anything that draws from the global generators, B with the same NMNE settings but different thresholds: must be isolated
        a = _aug(strip_rng(uc2), rng.fork("pA"), ctx.scale(40, 90))
        out.append(("uc2-norng", "uc2-thresholds", a, set_thresholds(uc2, TH)))
        out.append(("uc2-norng", "firewall-nmne-same", a, set_nmne(fw, uc2["simulation"]["network"]["nmne_config"])))
    if uc2:
        out.append(("uc2", "uc2", uc2, set_seed(uc2, 77)))          # same scenario twice: F-11 territory
    if wl and fw:
        out.append(("wireless", "wireless-capacity-override", _aug(wl, rng.fork("pW"), 40), set_air(wl, 0.001)))
        out.append(("firewall-nmne-on2", "wireless", set_nmne(_aug(fw, rng.fork("pF"), 40), NMNE_ON2), wl))
    if ctx.thorough:
        uc7 = _load("uc7_config")
        if uc7 and uc2:
            out.append(("uc7", "uc2", uc7, uc2))
            out.append(("uc2-norng", "uc7", _aug(strip_rng(uc2), rng.fork("pA2"), 90), set_nmne(uc7, uc2["simulation"]["network"]["nmne_config"])))
        if fw and wl:
            out.append(("firewall", "wireless-thresholds", _aug(fw, rng.fork("pF2"), 60), set_thresholds(wl, TH)))
    return out


def _interleaving_case(ctx: Ctx, label: str, la, lb, cfg_a: Dict, cfg_b: Dict, sched: List[Tuple], model_lines: List[str],
                       expectations: List[Tuple[str, Any]], shrink: bool):
    try:
        r = iso.interleaving(cfg_a, cfg_b, sched)
    except Exception as e:
        ctx.notes.append(f"interleaving {label}: harness could not run: {type(e).__name__}: {str(e)[:160]}")
        ctx.count("interleave:not-runnable")
        return
    ctx.count("interleave:case")
    ctx.cov["traces_validated_against_impl"] += 1
    for e in sched:
        ctx.count(f"interleave:op:{e[0]}:{e[1]}")
    same = iso.per_step_same(r["solo"], r["inter"])
    k = 0
    prev_b = False
    for e in sched:
        if e[0] == "B":
            prev_b = True
            continue
        if e[1] == "construct":
            continue
        ctx.case({"k": "il", "pair": label, "d": r["digest"], "i": k, "s": hash(tuple(sched)) & 0xffffff}, prev_b or (e[1] == "step" and e[2] != 0))
        prev_b = False
        k += 1
    replay_info = {"type": "interleaving", "a": la, "b": lb, "cfg_a": cfg_a, "cfg_b": cfg_b, "schedule": [list(x) for x in sched], "diff": r["diff"]}
    if r["diff"] is not None:
        chans = r["channels"]
        ctx.count("interleave:differs:" + "+".join(chans))
        small = sched
        if shrink:
            try:
                small = _shrink_schedule(cfg_a, cfg_b, sched, chans)
            except Exception:
                small = sched
        d = r["diff"]
        for ch in chans:
            ctx.violation({"kind": "instance-interference", "channel": ch},
                          f"{label}: instance A's trajectory with instance B interleaved differs from its solo trajectory at record {d['index']} "
                          f"({d['component']} {d.get('path', '')}: solo={d.get('a')} interleaved={d.get('b')}); channel={ch} "
                          f"(shielding: {r.get('fixes')})",
                          {**replay_info, "schedule": [list(x) for x in small], "channel": ch, "residual": r.get("residual")})
    else:
        ctx.count("interleave:equal")
    ctx.sample({"rig": "interleaving", "pair": label, "ops": len(sched), "b_ops": sum(1 for e in sched if e[0] == 'B'),
                "equal": r["diff"] is None, "channels": r["channels"]}, cap=8)
    lines, idx = iso.model_lines(cfg_a, cfg_b, sched, {})
    model_lines += lines
    for l, i in zip(lines, idx):
        if i >= 0 and i < len(same):
            expectations.append(("astep", (label, i, same[i], replay_info)))
        else:
            expectations.append(("skip", None))
