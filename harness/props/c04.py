"""C04 — episodes and environment instances are isolated from one another."""
from __future__ import annotations

import atexit
import copy
import importlib
import json
import os
import shutil
import tempfile
from pathlib import Path
from typing import Any, Dict, List, Optional, Tuple

from harness.extract import isolation_reset as x_ir
from harness.extract import isolation_sinkflags as x_sf
from harness.extract import own_generator_state as x_own
from harness.extract import sharedstate as x_ss
from harness.lib import scen
from harness.lib.core import VERIF, Ctx, Rng, lean_lock, run_driver, shrink_ops
from harness.rigs import envrig
from harness.rigs import isolation as iso
from harness.rigs import isolation_sched as isd

MANIFEST = {
    "text": "F-11 REPAIRED (fix4-RNG: decorator `own_generator_state` - every environment runs __init__ / reset / step on its OWN saved state of "
            "random / numpy.random): NO open finding is left. The skeleton's operations follow the code (ownIn / ownOut around the bodies; the "
            "`is not None` test of the wrapper is decided by construction: C04_own_in_code_eq / _new, C04_has_own_after) and the statements that "
            "were partial are FULL: C04_skeleton_isolated proves C04_FullSkeletonIsolated (ANY schedule of construct / reset(seed) / the code's "
            "own step of any number of instances, drawing scripted agents included), C04_skeleton_isolated_with_unseeded_resets, "
            "C04_foreign_generator_use_harmless (arbitrary foreign draws in between), C04_gen_rng_safe proves C04_FullGenRngSafe (every drawing "
            "operation has seeded or installed the own state of both generators first), C04_skeleton_history_irrelevant (histories of the code's "
            "own steps and unseeded resets). F-11 itself is kept as lemmas about the PRE-repair programs (C04_shared_rng_counterexample, "
            "C04_shared_rng_skeleton_isolated_partial, stepProgShared_not_ok). Gen: C04_gen_own_generator_state (wrapper shape by statement "
            "roles, the six decorated methods and no other, no nested owned call, no drawing function reachable from any undecorated method of "
            "the environment classes). Rig: unseeded-reset references hand the environment's own state over, schedules contain foreign use of "
            "the generators, a difference the generator shield removes is a VIOLATION (channel F-11-regression). "
            "ROUND 7: F-C04-r7-1 REPAIRED (fix4-C04: a SysLog / PacketCapture writes to its file logger only when it HAS one). The process-wide "
            "output settings SIM_OUTPUT are classified sink-only (read by log calls only, modelled as `Cmd.log` without effect); that is sound only "
            "if a log call cannot raise on account of a flag another environment wrote: C04_sink_flag_counterexample refutes isolation for log "
            "calls that dereference a logger under the process-wide flag alone, C04_gen_sink_flag_uses_guarded (Gen/IsolationSinkFlags: every "
            "attribute created under a test on SIM_OUTPUT is initialised unconditionally and dereferenced, anywhere in the package, only under "
            "its own `is not None` guard; two reviewed error branches discharged) excludes them, and rig family (h) runs two instances whose "
            "io_settings differ in every single option and in all of them, both directions and creation orders, with real file output in a "
            "temporary session directory; a difference that disappears when SIM_OUTPUT is shielded is a VIOLATION (channel sim-output-settings). "
            "ROUND 3 (see design_notes/C04.md): F-10 REPAIRED (fix3-C04: NMNE settings are state of each game's own network) — the inventory "
            "obligation is now FULL (C04_gen_globals_safe: no inventory entry is `shared`; C04_gen_no_readable_global; C04_gen_nmne_per_game keeps "
            "the two class attributes unwritten). THE SEED ARGUMENT is modelled as Optional[int]: `set_random_seed` and the "
            "guard of `reset` are regenerated from source and proved equal to the model FOR EVERY ARGUMENT (C04_gen_seed_handling; a truthiness test "
            "fails at 0, C04_truthy_seed_counterexample), and the episode-freshness theorem is stated for the CALL reset(seed=s) for every natural s "
            "(C04_reset_any_seed_episode_fresh); reset() without a seed is fresh modulo the ENVIRONMENT'S OWN generator state (C04_unseeded_reset_fresh_modulo_rng). "
            "Every differential (dirty history, schedule freshness, interleaving) resets with 0, 1, the configured seed, 2^32-1, a random seed and "
            "no argument, and compares the state of the generators after every operation. "
            "Earlier rounds: every episode of an episode-scheduled environment is compared with an environment built "
            "directly from that episode's scenario (C04_skeleton_scheduled_episode_fresh; shipped and generated scenario folders, now also varying "
            "io_settings, `defaults` durations and airspace capacities); every run-time write of a readable global must be unconditional and reached "
            "unconditionally from from_config (C04_gen_writes_unconditional, C04_conditional_write_counterexample) and precede the reads of the same "
            "operation (C04_gen_write_order; C04_gen_no_reader_before_write: static call graph from everything reset / __init__ / from_config call "
            "before the write resp. before the seeding, cross-checked against monitored runs). "
            "Lean 4 proof, for a generic process model (any number of environment instances, each with environment-level and per-game "
            "state, one store of process globals, operations = straight-line programs), that under the read/write discipline of the "
            "classification (import-only globals never written; re-written-before-read / RNG globals read only after the same operation "
            "wrote them; sink-only globals read only by logging) EVERY schedule of operations leaves an instance's trajectory and state "
            "equal to its solo run (C04_instances_independent, C04_interleaving: induction over the schedule with the frame rule C04_frame), "
            "and that a reset which does not read the old game makes any two histories indistinguishable from the reset on "
            "(C04_reset_is_fresh, C04_history_irrelevant). Tie: the SHARED-STATE INVENTORY (every ClassVar / class-level mutable attribute / "
            "module-level mutable object, every run-time write site incl. setattr, every use of the global RNGs, every `global` statement, pydantic "
            "mutable defaults) is regenerated from source into Gen/SharedState.lean and checked against a committed role table "
            "(C04_gen_functions_known, C04_gen_classification, C04_gen_skeleton_matches, C04_gen_rng_safe). That the real step/reset behave like "
            "their skeleton (an operation abstracted to its global access pattern) is validated by the differential rig only.",
    "note": "C04-specific: the model abstracts an operation to its global access pattern; the static call graph is by name (self type followed "
            "through constructors, registered lambdas deferred, unknown receivers resolved within the caller's import closure) — callbacks run "
            "by third-party code (pydantic validators, logging formatters), getattr and dunder protocol methods are seen only by the monitor. "
            "The CONTENT of file/terminal output (which instance's messages end up in which file: all instances of a process share one session "
            "directory and logger names) is outside the claim; that producing it cannot change or abort an operation is inside (round 7). "
            "NOT covered by the F-11 repair (stated): PrimaiteGame.step driven without an environment, torch's process-wide generator (seeded by "
            "every seeding operation, drawn by nothing in the package), a user's random.seed() after construction no longer reaches the environment. "
            "known_findings.json still lists F-10 / F-11 as open until the integrator merges (not editable "
            "from this check); findings/C04.json carries the `fixed` entries and the rig reports a reappearance under another channel name.",
    "technique": "Lean 4 non-interference proof over a mini imperative language; regenerated shared-state inventory, seed handling and static "
                 "call graph; differential env rig (dirty history over a seed family, interleaved instances incl. a third instance and close, with "
                 "channel attribution, object-identity disjointness, scheduler copies, episode-schedule freshness against directly constructed "
                 "environments, operation-order / seeding monitor); rig sharded over processes",
    "design_ref": "5/C04",
}
MODULES = ["PrimaiteModel.Props.C04"]
EXE = "drv_c04"
CORPUS = VERIF / "corpus" / "C04"

_TMP: List[str] = []


def _cleanup():
    for d in _TMP:
        shutil.rmtree(d, ignore_errors=True)


atexit.register(_cleanup)

QUIET_YAML = "\nio_settings:\n" + "".join(f"  {k}: {'true' if v else 'false'}\n" for k, v in scen.QUIET_IO.items())


def episodic_dir(name: str) -> Optional[str]:
    """copy of a shipped scenario directory (EpisodeListScheduler) with all file output switched off"""
    src = scen.PKG / name
    if not src.is_dir():
        return None
    tmp = tempfile.mkdtemp(prefix="c04_", dir=_W.get("tmp"))
    if not _W.get("tmp"):
        _TMP.append(tmp)
    dst = Path(tmp) / name
    shutil.copytree(src, dst)
    import yaml
    base = dst / yaml.safe_load((dst / "schedule.yaml").read_text())["base_scenario"]
    base.write_text(base.read_text() + QUIET_YAML)   # the last duplicate key wins in PyYAML
    return str(dst)


def make_env_path(path: str):
    from primaite.session.environment import PrimaiteGymEnv
    return PrimaiteGymEnv(env_config=path)


def make_marl_env(cfg: Dict):
    """`PrimaiteRayMARLEnv(cfg)` behind the adapter. Action masking is switched off: with the installed gymnasium the class cannot be
    constructed otherwise (`spaces.MultiBinary(space.n)` refuses a numpy integer - a matter of the library version, not of C04)."""
    cfg = copy.deepcopy(cfg)
    for a in cfg.get("agents", []):
        if isinstance(a.get("agent_settings"), dict) and a["agent_settings"].get("action_masking"):
            a["agent_settings"]["action_masking"] = False
    return iso.MarlAdapter(cfg)


# ---------------------------------------------------------------------------------------------- scenario variants
def set_nmne(cfg: Dict, nmne: Dict) -> Dict:
    cfg = copy.deepcopy(cfg)
    cfg.setdefault("simulation", {}).setdefault("network", {})["nmne_config"] = nmne
    return cfg


def strip_rng(cfg: Dict) -> Dict:
    """remove everything that draws from the process-global generators: scripted agents other than probabilistic ones, red applications"""
    cfg = copy.deepcopy(cfg)
    cfg["agents"] = [a for a in cfg.get("agents", []) if a.get("type") in iso.RNG_AGENT_SAFE]
    for n in cfg.get("simulation", {}).get("network", {}).get("nodes", []):
        if n.get("applications"):
            n["applications"] = [a for a in n["applications"] if a.get("type") not in iso.RNG_APPS]
    return cfg


def with_random_agent(cfg: Dict, n: int = 30, ref: str = "verif_random") -> Dict:
    """the scenario plus a `random-agent` that samples, every step, one of the first n entries of the RL agent's (generated) action map"""
    cfg = copy.deepcopy(cfg)
    pa = envrig.proxy_agent_cfg(cfg)
    amap = (pa or {}).get("action_space", {}).get("action_map") or {0: {"action": "do-nothing", "options": {}}}
    keys = sorted(amap)[:n]
    cfg["agents"].append({"ref": ref, "team": "GREEN", "type": "random-agent",
                          "action_space": {"action_map": {i: copy.deepcopy(amap[k]) for i, k in enumerate(keys)}}})
    return cfg


def set_thresholds(cfg: Dict, th: Dict) -> Dict:
    cfg = copy.deepcopy(cfg)
    cfg.setdefault("game", {})["thresholds"] = th
    return cfg


def set_seed(cfg: Dict, seed: Optional[int]) -> Dict:
    cfg = copy.deepcopy(cfg)
    if seed is None:
        cfg.get("game", {}).pop("seed", None)
    else:
        cfg.setdefault("game", {})["seed"] = seed
    return cfg


def set_air(cfg: Dict, mbps: float) -> Dict:
    cfg = copy.deepcopy(cfg)
    cfg.setdefault("simulation", {}).setdefault("network", {})["airspace"] = {"frequency_max_capacity_mbps": {"WIFI_2_4": mbps, "WIFI_5": mbps}}
    return cfg


NMNE_ON = {"capture_nmne": True, "nmne_capture_keywords": ["DELETE"]}
NMNE_ON2 = {"capture_nmne": True, "nmne_capture_keywords": ["SELECT", "DELETE"], "capture_by_keyword": True}
NMNE_OFF = {"capture_nmne": False}
TH = {"nmne": {"high": 3, "medium": 2, "low": 1}, "file_access": {"high": 4, "medium": 2, "low": 1}}


def _load(name: str) -> Optional[Dict]:
    sh = scen.shipped()
    if name not in sh:
        return None
    try:
        return envrig.with_proxy(scen.load_cfg(sh[name]))
    except Exception:
        return None


def with_command_actions(cfg: Dict, rng: Rng, per_host: int = 3) -> Dict:
    """The RL agent's (generated) action map plus TERMINAL COMMAND actions with real credentials, per host: `node-send-local-command` whose
    command is a request handled on that node — the user-session-manager's own `remote_login` / `remote_logout` handlers (reached by no
    standard action), file creation, a service verb, an OS scan —, `node-session-remote-login` to another host followed by
    `node-send-remote-command` (file creation / user-session-manager request over the session), and a wrong-password variant. These are the
    handlers that build their answer from `RequestResponse.from_bool` and then fill in `data`."""
    cfg = copy.deepcopy(cfg)
    pa = envrig.proxy_agent_cfg(cfg)
    if pa is None:
        return cfg
    amap = pa.setdefault("action_space", {}).setdefault("action_map", {0: {"action": "do-nothing", "options": {}}})
    hosts = [n for n in cfg.get("simulation", {}).get("network", {}).get("nodes", []) if n.get("type") in ("computer", "server") and n.get("ip_address")]
    if not hosts:
        return cfg
    new: List[Dict] = []
    for h in rng.shuffle(list(hosts))[:4]:
        users = [(u["username"], u["password"]) for u in (h.get("users") or []) if "username" in u and "password" in u] + [("admin", "admin")]
        other = rng.choice([o for o in hosts if o is not h] or [h])
        ou = ([(u["username"], u["password"]) for u in (other.get("users") or []) if "username" in u and "password" in u] + [("admin", "admin")])[0]
        user, pw = rng.choice(users)
        local = [["service", "user-session-manager", "remote_login", ou[0], ou[1], str(h["ip_address"])],
                 ["service", "user-session-manager", "remote_login", user, "wrong-" + pw, str(other["ip_address"])],
                 ["service", "user-session-manager", "remote_logout", "no-such-session"],
                 ["file_system", "create", "file", "downloads", f"c04_{rng.below(1000)}.txt", "False"],
                 ["file_system", "create", "folder", f"c04dir{rng.below(100)}"],
                 ["os", "scan"]]
        for cmd in rng.shuffle(local)[:per_host] + [local[0]]:
            new.append({"action": "node-send-local-command", "options": {"node_name": h["hostname"], "username": user, "password": pw, "command": cmd}})
        new.append({"action": "node-send-local-command", "options": {"node_name": h["hostname"], "username": user, "password": "wrong-" + pw, "command": local[-1]}})
        new.append({"action": "node-session-remote-login", "options": {"node_name": h["hostname"], "username": ou[0], "password": ou[1], "remote_ip": str(other["ip_address"])}})
        for cmd in (["file_system", "create", "file", "downloads", f"c04r_{rng.below(1000)}.txt", "False"],
                    ["service", "user-session-manager", "remote_logout", "no-such-session"]):
            new.append({"action": "node-send-remote-command", "options": {"node_name": h["hostname"], "remote_ip": str(other["ip_address"]), "command": cmd}})
    # nmap: a scan of SEVERAL networks, then a scan of the first one alone (target lists starting with a network and continuing with another
    # network / a single address): what a scan of a network finds must not depend on which lists were scanned before
    import ipaddress
    nets = []
    for h in hosts:
        n = str(ipaddress.ip_network(f"{h['ip_address']}/29", strict=False))
        if n not in nets:
            nets.append(n)
    for h in rng.shuffle(list(hosts))[:3]:
        own = str(ipaddress.ip_network(f"{h['ip_address']}/29", strict=False))
        others = [n for n in nets if n != own]
        second = rng.choice(others) if others else str(rng.choice(hosts)["ip_address"])
        for tgt in ([own, second], own, [second, own], second):
            new.append({"action": "node-nmap-ping-scan", "options": {"source_node": h["hostname"], "target_ip_address": tgt, "show": False}})
    k = max(amap) + 1 if amap else 0
    for i, a in enumerate(new):
        amap[k + i] = a
    return cfg


def _aug(cfg: Dict, rng: Rng, n: int) -> Dict:
    try:
        out = envrig.augmented(cfg, rng, n) or cfg
    except Exception:
        out = cfg
    try:
        return with_command_actions(out, rng.fork("commands"))
    except Exception:
        return out


AIR_ACTIONS = {"node-network-service-recon", "node-nmap-ping-scan", "node-nmap-port-scan", "node-session-remote-login", "node-send-remote-command"}


def _aug_air(cfg: Dict, rng: Rng, n: int) -> Dict:
    """generated action map for a WIRELESS scenario in which most entries make a node talk to another node (scans, remote sessions), so that
    frames cross the air in most steps and the per-network frequency capacities matter"""
    big = _aug(cfg, rng, 8 * n)
    pa = envrig.proxy_agent_cfg(big)
    amap = (pa or {}).get("action_space", {}).get("action_map")
    if not amap:
        return big
    ents = [v for _, v in sorted(amap.items())]
    talk = [v for v in ents if v["action"] in AIR_ACTIONS][:n]
    rest = [v for v in ents if v["action"] not in AIR_ACTIONS and v["action"] != "do-nothing"][: max(4, n // 4)]
    pa["action_space"]["action_map"] = {i: v for i, v in enumerate([{"action": "do-nothing", "options": {}}] + talk + rest)}
    return big


# ---------------------------------------------------------------------------------------------- import-only globals at run time
MEMO_SUFFIX = ".<memo cache>"


def memo_wrappers() -> Dict[str, Any]:
    """every functools.lru_cache / cache wrapper bound at module or class level of the loaded package: `module.name` -> wrapper"""
    import sys
    out = {}
    for mname, mod in list(sys.modules.items()):
        if not mname.startswith("primaite") or mod is None:
            continue
        for k, v in list(vars(mod).items()):
            if callable(v) and hasattr(v, "cache_clear") and hasattr(v, "cache_info"):
                out[f"{mname}.{k}"] = v
            if isinstance(v, type) and getattr(v, "__module__", "") == mname:
                for ck, cv in list(vars(v).items()):
                    f = getattr(cv, "__func__", cv)
                    if callable(f) and hasattr(f, "cache_clear") and hasattr(f, "cache_info"):
                        out[f"{mname}.{k}.{ck}"] = f
    return out


def memo_contents(w: Any) -> List[Tuple[str, str]]:
    """(key, value) texts of what an lru_cache wrapper holds (its links `[prev, next, key, result]` are visible to the collector)"""
    import gc
    out = []
    for x in gc.get_referents(w):
        if isinstance(x, list) and len(x) == 4 and isinstance(x[0], list) and isinstance(x[1], list) and x[2] is not None:
            out.append((repr(x[2])[:200], repr(x[3])[:2000]))
    return sorted(out)


def clear_memo_caches() -> None:
    """Hook of `normalise_process_state`: a new interpreter has empty memoisation caches"""
    for w in memo_wrappers().values():
        try:
            w.cache_clear()
        except Exception:
            pass


def _resolve(name: str):
    if name.endswith(MEMO_SUFFIX):
        return _resolve(name[: -len(MEMO_SUFFIX)])
    mod, _, path = name.partition(":")
    m = importlib.import_module("primaite" if mod == "primaite" else "primaite." + mod)
    o = m
    for p in path.split("."):
        o = getattr(o, p)
    return o


def _finger(o: Any) -> str:
    if callable(o) and hasattr(o, "cache_info") and hasattr(o, "cache_clear"):
        return "memo:" + repr(memo_contents(o))
    if isinstance(o, dict):
        return "dict:" + ";".join(f"{k!r}->{_finger1(v)}" for k, v in o.items())
    if isinstance(o, (list, tuple, set)):
        return type(o).__name__ + ":" + ";".join(_finger1(v) for v in (sorted(o, key=repr) if isinstance(o, set) else o))
    return _finger1(o)


def _finger1(v: Any) -> str:
    if isinstance(v, (str, int, float, bool, type(None), type)):
        return repr(v)
    if hasattr(v, "model_dump"):
        try:
            return json.dumps(v.model_dump(), default=str, sort_keys=True)
        except Exception:
            pass
    d = getattr(v, "__dict__", None)
    if isinstance(d, dict):
        return type(v).__name__ + repr(sorted((k, repr(x)[:80]) for k, x in d.items() if not k.startswith("__")))[:2000]
    return repr(v)[:200]


def snapshot_import_only(inv) -> Dict[str, str]:
    out = {}
    for name, e in inv.entries.items():
        if e["writers"] or e["kind"] == "module-logger":
            continue
        try:
            out[name] = _finger(_resolve(name))
        except Exception as ex:
            out[name] = f"<unresolved {type(ex).__name__}>"
    return out


_SNAP: Dict[str, Tuple[str, Any]] = {}          # import-only inventory object -> (fingerprint at import, deep copy at import)
_RESTORED: Dict[str, Tuple[str, str]] = {}      # what `restore_import_only` found mutated (reported as import-only-global-mutated)


_SNAP_RT: Dict[str, Any] = {}                 # run-time written module-level / class-level CONTAINERS -> deep copy at import


def snapshot_import_only_objects(inv) -> None:
    """taken once, before any environment exists in this process (and inherited by the forked workers)"""
    for name, e in inv.entries.items():
        if e["kind"] == "module-logger" or name.endswith(MEMO_SUFFIX):
            continue
        if e["writers"]:
            # a container that operations write (a registry of loggers, a hand-written cache behind a helper): a new interpreter has it
            # as the import left it, so the normalisation puts it back (not a violation by itself: it is classified as written)
            try:
                obj = _resolve(name)
                if isinstance(obj, (dict, list, set)):
                    _SNAP_RT[name] = copy.deepcopy(obj)
            except Exception:
                pass
            continue
        try:
            obj = _resolve(name)
            fp = _finger(obj)
        except Exception:
            continue
        try:
            cp = copy.deepcopy(obj)
        except Exception:
            cp = None
        _SNAP[name] = (fp, cp)


def restore_import_only() -> None:
    """Hook of `normalise_process_state`: an import-only object that an earlier run of this process MUTATED (that is a violation by itself and
    is recorded as such) is put back IN PLACE to its import-time content, so that both runs of the next differential start from what a new
    interpreter has and the mutation also shows as a behavioural difference instead of hiding in both runs."""
    for name, cp in _SNAP_RT.items():
        try:
            obj = _resolve(name)
            if obj != cp:
                if isinstance(obj, list):
                    obj[:] = copy.deepcopy(cp)
                else:
                    obj.clear()
                    obj.update(copy.deepcopy(cp))
        except Exception:
            pass
    for name, (fp, cp) in _SNAP.items():
        try:
            obj = _resolve(name)
            cur = _finger(obj)
        except Exception:
            continue
        if cur == fp:
            continue
        _RESTORED.setdefault(name, (fp[:300], cur[:300]))
        if cp is None:
            continue
        try:
            if isinstance(obj, dict):
                obj.clear()
                obj.update(copy.deepcopy(cp))
            elif isinstance(obj, list):
                obj[:] = copy.deepcopy(cp)
            elif isinstance(obj, set):
                obj.clear()
                obj.update(copy.deepcopy(cp))
            elif isinstance(getattr(obj, "__dict__", None), dict):
                fresh = copy.deepcopy(cp)
                obj.__dict__.clear()
                obj.__dict__.update(fresh.__dict__)
        except Exception:
            pass


def classvars_at_runtime() -> List[str]:
    """`module:Class.attr` of every ClassVar pydantic knows about and every class-body mutable attribute of loaded primaite classes"""
    import sys
    out = set()
    for mname, mod in list(sys.modules.items()):
        if not mname.startswith("primaite") or mod is None or ".notebooks" in mname or ".setup" in mname:
            continue

        def visit(cls, qual):
            if getattr(cls, "__module__", None) != mname:
                return
            own_ann = vars(cls).get("__annotations__", {}) or {}
            for cv in getattr(cls, "__class_vars__", set()) or ():
                if cv in own_ann and any(t in str(own_ann[cv]) for t in ("ClassVar", "Final")):  # declared here, not inherited
                    out.add(f"{mname[len('primaite.'):] if mname != 'primaite' else 'primaite'}:{qual}.{cv}")
            for k, v in list(vars(cls).items()):
                if isinstance(v, type) and v.__qualname__.startswith(cls.__qualname__ + "."):
                    visit(v, qual + "." + k)
        for k, v in list(vars(mod).items()):
            if isinstance(v, type):
                visit(v, v.__qualname__) if v.__qualname__ == k else None
    return sorted(out)


# ---------------------------------------------------------------------------------------------- replay
def _prepare_replay():
    global _READ_GLOBALS
    import primaite.game.game  # noqa: F401
    iso.nmne_class_attrs_at_import()
    if not _SNAP:
        snapshot_import_only_objects(x_ss.build())
        iso.NORMALISE_HOOKS.append(restore_import_only)
        iso.NORMALISE_HOOKS.append(clear_memo_caches)
    if not _READ_GLOBALS:
        _READ_GLOBALS = read_globals(x_ss.build())
    iso.pin_opaque_widths()


def _run_interleaving(rp: dict) -> dict:
    sched = [tuple(x) for x in rp["schedule"]]
    cfg_a = rp["cfg_a"] if "cfg_a" in rp else _variant(rp["a"])   # corpus files name the scenarios, replay files carry them
    cfg_b = rp["cfg_b"] if "cfg_b" in rp else _variant(rp["b"])
    if rp.get("io_sandbox"):
        with _IoSandbox():
            return iso.interleaving(cfg_a, cfg_b, sched, globals_fp=globals_fp)
    return iso.interleaving(cfg_a, cfg_b, sched, globals_fp=globals_fp)


def _write_folder(files: Dict[str, str]) -> str:
    tmp = tempfile.mkdtemp(prefix="c04f_", dir=_W.get("tmp"))
    if not _W.get("tmp"):
        _TMP.append(tmp)
    for fn, text in files.items():
        (Path(tmp) / fn).write_text(text)
    return tmp


def _run_sched_replay(rp: dict) -> dict:
    folder = _write_folder(rp["files"])
    return isd.schedule_freshness(folder, Rng(0), len(rp["plan"]) - 1, 0, globals_fp=globals_fp, only=rp.get("only"), plan=rp["plan"])


def _intkeys(o: Any) -> Any:
    """JSON turned the integer keys of a scenario (action maps, ACL positions, port numbers) into strings: undo"""
    if isinstance(o, dict):
        return {(int(k) if isinstance(k, str) and k.lstrip("-").isdigit() else k): _intkeys(v) for k, v in o.items()}
    if isinstance(o, list):
        return [_intkeys(v) for v in o]
    return o


def replay(rec: dict) -> bool:
    rp = dict(rec["replay"])
    for key in ("cfg", "cfg_a", "cfg_b"):
        if isinstance(rp.get(key), dict):
            rp[key] = _intkeys(rp[key])
    if rp.get("type") == "interleaving":
        _prepare_replay()
        r = _run_interleaving(rp)
        if rp.get("channel") == "own-build-does-not-rewrite-globals":
            return r.get("own_globals") is None
        return r["diff"] is None
    if rp.get("type") == "schedule-freshness":
        _prepare_replay()
        return not _run_sched_replay(rp)["diffs"]
    if rp.get("type") == "operation-order":
        _prepare_replay()
        from harness.rigs import isolation_order as iord
        return not iord.monitor_build(rp["cfg"], _READ_GLOBALS, x_ss.build(), lean_roles())["problems"]
    if rp.get("type") == "import-time-object-in-game":
        if not isinstance(rp["cfg"], dict) and not rp.get("files"):
            return False
        _prepare_replay()
        return not _import_time_hit(rp, rp["history"])
    if rp.get("type") == "dirty-history":
        if not isinstance(rp["cfg"], dict) and not rp.get("files"):
            return False  # scenario directory copied to a temporary place and not carried by the record: re-run the check instead
        _prepare_replay()
        history = [tuple(x) for x in rp["history"]]
        later = [tuple(x) for x in rp["later"]]
        fresh_resets = rp.get("fresh_resets", sum(1 for op in history if op[0] == "reset"))
        if rp.get("files"):    # an episode-scheduled scenario: the record carries the folder
            return iso.compare_after_history(_write_folder(rp["files"]), history, fresh_resets, later, make=make_env_path)["diff"] is None
        return iso.compare_after_history(rp["cfg"], history, fresh_resets, later, make=make_marl_env if rp.get("marl") else None)["diff"] is None
    if rp.get("type") == "history-raises":
        if not isinstance(rp["cfg"], dict) and not rp.get("files"):
            return False
        _prepare_replay()
        cfgp = _write_folder(rp["files"]) if rp.get("files") else rp["cfg"]
        mk = make_marl_env if rp.get("marl") else (make_env_path if rp.get("files") else None)
        return not iso.raises_only_after_reset(cfgp, [tuple(x) for x in rp["history"]], make=mk)["fails"]
    return False  # identity / scheduler / global-mutated records are not re-executable on their own: re-run the check


def _import_time_hit(rp: dict, history: List[Any]) -> bool:
    """construct the environment of the record, apply the operations, look for module-level objects / shared answers in the game"""
    iso.normalise_process_state()
    env = make_env_path(_write_folder(rp["files"])) if rp.get("files") else scen.make_env(rp["cfg"])
    try:
        iso._apply_history(env, [tuple(x) for x in history])
        return bool(iso.stray_import_time_objects(env.game, iso.import_time_objects())) or bool(iso.shared_between_history_items(env))
    finally:
        try:
            env.close()
        except Exception:
            pass


def _shrink_prefix(rp: dict) -> List[Any]:
    """shortest of a few prefixes of the history that still shows the hit (no operation, one step, the first episode, everything)"""
    hist = [tuple(x) for x in rp["history"]]
    first_reset = next((i for i, op in enumerate(hist) if op[0] == "reset"), len(hist))
    for cand in ([], hist[:1] if hist and hist[0][0] == "step" else [("step", 0)], hist[:first_reset], hist[:first_reset + 2]):
        try:
            if _import_time_hit(rp, cand):
                return cand
        except Exception:
            pass
    return hist


def _shrink_schedule(cfg_a, cfg_b, schedule, channels) -> List[Tuple]:
    """drop B-operations (and trailing A-steps) while the same channel still shows a difference"""
    def fails(cand):
        if not iso.schedule_well_formed(cand):
            return False
        try:
            r = iso.interleaving(cfg_a, cfg_b, cand)
        except Exception:
            return False
        return r["diff"] is not None and r["channels"] == channels
    return shrink_ops(list(schedule), fails, budget=14)


# ---------------------------------------------------------------------------------------------- committed role table (single source: Props/C04.lean)
_ROLE_RE = None


def lean_roles() -> Dict[str, Tuple[List[str], bool]]:
    """function -> (phases, sink) as committed in Props/C04.lean (`committedFns`); the rig derives from it which run-time written globals
    an operation may READ (the ones whose value must not depend on earlier episodes / other instances)"""
    import re
    text = (VERIF / "lean" / "PrimaiteModel" / "Props" / "C04.lean").read_text()
    out = {}
    for m in re.finditer(r'⟨"([^"]+)",\s*(allPhases|\[[^\]]*\]),\s*(true|false)⟩', text):
        ph = ["construct", "reset", "step"] if m.group(2) == "allPhases" else re.findall(r"\.(\w+)", m.group(2))
        out[m.group(1)] = (ph, m.group(3) == "true")
    return out


_READ_GLOBALS: List[str] = []


def read_globals(inv) -> List[str]:
    """inventory entries that are written at run time and read by a non-sink function in some operation (derive = shared / rewrittenBeforeRead)"""
    roles = lean_roles()
    unknown = (["construct", "reset", "step"], False)   # a function the committed table does not know: assume the worst (any operation, no sink)
    out = []
    for name, e in sorted(inv.entries.items()):
        if not e["writers"] or e["kind"] == "module-logger":
            continue
        if not any(roles.get(w, unknown)[0] for w in e["writers"]):
            continue   # written by no environment operation (CLI, import time)
        if any(roles.get(r, unknown)[0] and not roles.get(r, unknown)[1] for r in e["readers"]):
            out.append(name)
    return out


def globals_fp() -> Dict[str, str]:
    return {n: _finger(_resolve(n)) for n in _READ_GLOBALS}


# ---------------------------------------------------------------------------------------------- recorder used by the (possibly forked) workers
class Rec:
    """the part of Ctx's surface that the case functions use; filled in a worker process, merged into the Ctx in unit order"""

    def __init__(self, tier: str):
        self.tier = tier
        self.hist: Dict[str, int] = {}
        self.cases: List[Tuple[Any, bool]] = []
        self.violations: List[Tuple[dict, str, dict]] = []
        self.obligations: List[Tuple[str, str, bool, str]] = []
        self.samples: List[Any] = []
        self.notes: List[str] = []
        self.traces = 0
        self.model_lines: List[str] = []
        self.expectations: List[Tuple[str, Any]] = []
        self.changed_globals: Dict[str, Tuple[str, str]] = {}
        self.wall = 0.0

    @property
    def thorough(self) -> bool:
        return self.tier == "thorough"

    def scale(self, q: int, t: int) -> int:
        return t if self.thorough else q

    def count(self, key: str, n: int = 1):
        self.hist[key] = self.hist.get(key, 0) + n

    def case(self, canonical: Any, nontrivial: bool):
        self.cases.append((canonical, nontrivial))

    def violation(self, sig: dict, what: str, replay: dict):
        self.violations.append((sig, what, replay))

    def oblige(self, name: str, kind: str, ok: bool, detail: str = ""):
        self.obligations.append((name, kind, bool(ok), detail))

    def sample(self, s: Any, cap: int = 6):
        self.samples.append((s, cap))

    def merge_into(self, ctx: Ctx, model_lines: List[str], expectations: List[Tuple[str, Any]]):
        for k, n in self.hist.items():
            ctx.count(k, n)
        for c, nt in self.cases:
            ctx.case(c, nt)
        for v in self.violations:
            ctx.violation(*v)
        for o in self.obligations:
            ctx.oblige(*o)
        for s, cap in self.samples:
            ctx.sample(s, cap=24)
        ctx.notes += self.notes
        ctx.cov["traces_validated_against_impl"] += self.traces
        model_lines += self.model_lines
        expectations += self.expectations


_W: Dict[str, Any] = {}   # set in the parent before the pool is forked: tier, inventory snapshot of the import-only globals, run temp dir


def _exec_unit(unit: dict) -> Rec:
    import time
    t0 = time.time()
    rec = Rec(_W["tier"])
    try:
        {"corpus": _do_corpus, "dirty": _do_dirty, "pair": _do_pair, "sched": _do_sched, "order": _do_order, "io": _do_io}[unit["kind"]](rec, unit)
    except Exception as e:   # a unit the harness itself cannot run is a broken correspondence obligation, not a silent skip
        import traceback
        rec.oblige(f"rig: unit {unit['kind']}:{unit.get('label', '')} ran", "correspondence", False, traceback.format_exc()[-1500:])
    after = snapshot_import_only(_W["inv"])
    for n, v in _W["before"].items():
        if after.get(n) != v:
            rec.changed_globals[n] = (v[:300], str(after.get(n))[:300])
    rec.changed_globals.update(_RESTORED)     # mutated during the unit and put back by a later normalisation of the same unit
    _RESTORED.clear()
    rec.wall = time.time() - t0
    return rec


def run(ctx: Ctx):
    global _READ_GLOBALS
    with lean_lock():
        ctx.extract("SharedState", x_ss.emit)
        ctx.extract("IsolationReset", x_ir.emit)
        ctx.extract("IsolationSinkFlags", x_sf.emit)
        ctx.extract("OwnGeneratorState", x_own.emit)
        ctx.prove(MODULES, exes=[EXE], leanchecker=ctx.thorough)
    try:
        own_key = x_own.wrapper_shape()["stateKey"]
    except Exception as e:
        own_key = f"<{type(e).__name__}>"
    ctx.oblige("rig:own-state-key the rig hands generator states over under the key the decorator uses", "correspondence",
               own_key == iso.OWN_STATE_KEY, f"decorator: {own_key!r}, rig: {iso.OWN_STATE_KEY!r}")
    ctx.cov["rule"] = ("(a) one case = scenario x action map x dirty history (1-3 episodes of generated actions) x later action sequence; every compared "
                       "step (observation, reward, flags, every agent's action/request/response, whole describe_state) is one evaluation. "
                       "(b) one case = scenario pair x random schedule of construct/reset/step/close of B around A's operations; every A-step is "
                       "one evaluation; non-trivial = a step whose action is not do-nothing or that follows an operation of B. "
                       "(e) one case = scenario folder x plan (seed and actions per episode); every compared record of every episode k>=1 "
                       "(long-lived environment vs environment constructed directly from episode k's scenario) is one evaluation. "
                       "distinct = by digest of the canonical trajectory and the schedule")
    inv = x_ss.build()
    ctx.cov["inventory"] = {"entries": len(inv.entries), "runtime_written": sorted(n for n, e in inv.entries.items() if e["writers"]),
                            "rng_use_sites": len(set(inv.rng)), "pydantic_mutable_defaults": len(set(inv.pyd_defaults)),
                            "global_statements": len(inv.global_stmts)}
    import primaite.game.game  # noqa: F401  (loads every class)
    import primaite.session.environment  # noqa: F401
    iso.nmne_class_attrs_at_import()      # captured here, before any environment exists in this process or in a forked worker
    # run-time cross-check of the extractor: every ClassVar that pydantic / the interpreter knows is in the inventory
    rt = classvars_at_runtime()
    missing = [n for n in rt if n not in inv.entries]
    ctx.oblige("extractor cross-check: every ClassVar of the loaded classes is an inventory entry", "extractor", not missing, f"missing: {missing[:8]}")
    ctx.cov["classvars_seen_at_runtime"] = len(rt)
    _READ_GLOBALS = read_globals(inv)
    ctx.cov["readable_runtime_written_globals"] = list(_READ_GLOBALS)
    ctx.oblige("rig: the role table of Props/C04.lean could be read (readable run-time written globals found)", "correspondence",
               bool(lean_roles()), f"{len(lean_roles())} roles")
    before = snapshot_import_only(inv)
    snapshot_import_only_objects(inv)
    if restore_import_only not in iso.NORMALISE_HOOKS:
        iso.NORMALISE_HOOKS.append(restore_import_only)
        iso.NORMALISE_HOOKS.append(clear_memo_caches)
    ctx.cov["memo_wrappers_loaded"] = sorted(memo_wrappers())
    iso.pin_opaque_widths()
    run_tmp = tempfile.mkdtemp(prefix="c04run_")
    _TMP.append(run_tmp)
    _W.update({"tier": ctx.tier, "inv": inv, "before": before, "tmp": run_tmp})

    rng = ctx.rng.fork("c04")
    units = _build_units(ctx, rng)
    n_workers = int(os.environ.get("C04_WORKERS", "0") or 0) or (12 if ctx.thorough else 6)
    n_workers = max(1, min(n_workers, len(units), (os.cpu_count() or 2)))
    ctx.cov["units"] = len(units)
    ctx.cov["worker_processes"] = n_workers
    if n_workers == 1:
        recs = [_exec_unit(u) for u in units]
    else:
        import multiprocessing as mp
        order = sorted(range(len(units)), key=lambda i: -units[i].get("weight", 1))   # longest first; results are merged in unit order
        with mp.get_context("fork").Pool(n_workers, maxtasksperchild=4) as pool:
            got = pool.map(_exec_unit, [units[i] for i in order], chunksize=1)
        recs = [None] * len(units)
        for i, r in zip(order, got):
            recs[i] = r
    model_lines: List[str] = []
    expectations: List[Tuple[str, Any]] = []   # (kind, payload) per model line
    changed: Dict[str, Tuple[str, str]] = {}
    for u, r in zip(units, recs):
        r.merge_into(ctx, model_lines, expectations)
        changed.update(r.changed_globals)
    ctx.cov["unit_wall_s"] = {f"{u['kind']}:{u.get('label', '')}": round(r.wall, 1) for u, r in zip(units, recs)}

    # ---------------- the model's verdicts
    out = run_driver(EXE, model_lines) if model_lines else []
    bad = 0
    if len(out) != len(model_lines):
        ctx.oblige("rig: driver answered every line", "correspondence", False, f"{len(out)} of {len(model_lines)}")
    for line, ans, (kind, payload) in zip(model_lines, out, expectations):
        if ans == "bad-op":
            bad += 1
            ctx.oblige("rig: driver understood `" + line + "`", "correspondence", False, ans)
        if kind == "dirty":
            label, impl_same = payload
            ctx.count("model:dirty-" + ans)
            if ans == "same" and not impl_same:
                bad += 1
            if ans != "same":   # the proved model says reset(seed) erases every history: the driver must agree with the theorem
                bad += 1
                ctx.oblige(f"model[{label}]: reset(seed) after a history equals reset(seed) on a fresh instance", "correspondence", False, ans)
        elif kind == "sched":
            label, impl_same = payload
            ctx.count("model:sched-" + ans)
            if ans == "same" and not impl_same:
                bad += 1
            if ans != "same":   # C04_skeleton_scheduled_episode_fresh: the driver must agree with the theorem
                bad += 1
                ctx.oblige(f"model[{label}]: episode k of a scheduled instance equals the episode of an instance built from scenario k", "correspondence", False, ans)
        elif kind == "astep":
            label, idx, impl_same, replay_info = payload
            verdict = ans.split(" ")[0]
            ctx.count("model:A-op-" + verdict + ("/impl-same" if impl_same else "/impl-differs"))
            if verdict == "same" and not impl_same:
                bad += 1
                ctx.violation({"kind": "interference-not-predicted-by-model", "pair": label},
                              f"{label}: the model predicts that A's operation #{idx} is unaffected, the implementation's differs", replay_info)
    ctx.oblige("rig:R-env whenever the proved model predicts an unaffected operation the implementation agrees", "correspondence", bad == 0,
               f"{bad} disagreements")

    ctx.oblige("import-only globals of the inventory are unchanged after every operation run by the rig", "correspondence", not changed,
               f"changed: {sorted(changed)[:6]}")
    for n in sorted(changed)[:3]:
        ctx.violation({"kind": "import-only-global-mutated", "name": n}, f"{n} is classified import-only but changed while environments ran",
                      {"type": "global-mutated", "name": n, "before": changed[n][0], "after": changed[n][1]})


# ---------------------------------------------------------------------------------------------- units
def _build_units(ctx: Ctx, rng: Rng) -> List[dict]:
    units: List[dict] = []
    for f in sorted(CORPUS.glob("*.json")):
        units.append({"kind": "corpus", "label": f.stem, "file": str(f), "weight": 2})
    for label, spec in _dirty_specs(ctx, rng):
        # which members of the seed family (0, 1, configured, largest, random, None) this case resets with, in which order: seed 0 and "no
        # seed argument" in every case, the others in rotation (quick) / all of them (thorough)
        n_dirty_units = sum(1 for u in units if u["kind"] == "dirty")
        pick = rng.shuffle([0, 5, 1 + n_dirty_units % 4] if not ctx.thorough else [0, 1, 2, 3, 4, 5])
        units.append({"kind": "dirty", "label": label, **spec, "episodes": rng.range(1, 3), "pick": pick, "rng": rng.fork("dh" + label),
                      "weight": 30 if ("uc7" in label or "multi_lan" in label) else 10})
    for label_a, label_b, cfg_a, cfg_b in _pairs(ctx, rng):
        for rep in range(ctx.scale(1, 3)):
            units.append({"kind": "pair", "label": f"{label_a}|{label_b}#{rep}", "la": label_a, "lb": label_b, "cfg_a": cfg_a, "cfg_b": cfg_b,
                          "rng": rng.fork(f"{label_a}{label_b}{rep}"), "b_first": rng.chance(1, 2), "weight": 25 if "uc7" in label_a + label_b else 10})
    units += _sched_units(ctx, rng.fork("sched"))
    units += _io_units(ctx, rng.fork("io"))
    units += [{"kind": "order", "label": f"order-{i}", "which": i % 3, "rng": rng.fork(f"order{i}"), "weight": 6} for i in range(ctx.scale(3, 9))]
    only = os.environ.get("C04_ONLY")     # development aid: run the units of some kinds only (the verdict of such a run is not the check's)
    if only:
        units = [u for u in units if u["kind"] in only.split(",")]
    return units


def _do_corpus(rec: Rec, unit: dict):
    f = Path(unit["file"])
    rp = json.loads(f.read_text())["replay"]
    if rp.get("type") == "interleaving":
        cfg_a, cfg_b = _variant(rp["a"]), _variant(rp["b"])
        if cfg_a is None or cfg_b is None:
            rec.notes.append(f"corpus {f.name}: scenario missing")
            return
        sched = [tuple(x) for x in rp["schedule"]]
        if rp.get("io_sandbox"):
            with _IoSandbox():
                _interleaving_case(rec, f"corpus:{f.stem}", rp["a"], rp["b"], cfg_a, cfg_b, sched, rec.model_lines, rec.expectations, shrink=False,
                                   extra={"io_sandbox": True})
        else:
            _interleaving_case(rec, f"corpus:{f.stem}", rp["a"], rp["b"], cfg_a, cfg_b, sched, rec.model_lines, rec.expectations, shrink=False)
        rec.count("corpus-witness")
    elif rp.get("type") == "schedule-freshness":
        _sched_case(rec, f"corpus:{f.stem}", rp, shrink=False)
        rec.count("corpus-witness")


_ALLOWED = None


def _seed_class(seed: Optional[int], configured: Optional[int]) -> str:
    return ("none" if seed is None else "zero" if seed == 0 else "one" if seed == 1 else "largest" if seed == iso.SEED_MAX
            else "configured" if seed == configured or (configured is None and seed == 3) else "random")


def _do_dirty(ctx: Rec, unit: dict):
    """(a) dirty history, (c) identity, (d) scheduler"""
    global _ALLOWED
    label, rng = unit["label"], unit["rng"]
    if unit.get("dir"):
        cfg, maker = episodic_dir(unit["dir"]), make_env_path
    else:
        cfg, maker = _load(unit["scenario"]), scen.make_env
        if cfg is not None and unit.get("aug") is not None:
            cfg = _aug(cfg, unit["aug"][0], unit["aug"][1])
            if unit.get("random_agent"):
                cfg = with_random_agent(cfg)
                ctx.count("dirty:case-with-a-random-agent")
    if cfg is None:
        ctx.notes.append(f"dirty-history {label}: scenario missing")
        return
    n_dirty, n_later = ctx.scale(30, 70), ctx.scale(16, 40)
    episodes = unit["episodes"]
    cfg0 = cfg
    if not isinstance(cfg, dict):
        try:
            cfg0 = isd.join_cfg(isd.read_folder(cfg), 0)
        except Exception:
            cfg0 = {}
    fam = iso.seed_family(iso.configured_seed(cfg0), rng.fork("family"))
    seeds = [fam[i] for i in unit["pick"]]
    if unit.get("marl"):
        # `PrimaiteRayMARLEnv` never seeds (Gen: C04_gen_marl_shape - neither `__init__` from `game.seed` nor `reset` from its argument):
        # every reset of it IS the unseeded reset, compared with a fresh environment that starts from the same generator state
        maker, seeds = make_marl_env, [None, None]
        episodes = max(2, episodes)      # at least one reset inside the dirty history
        ctx.count("dirty:multi-agent-environment-case")
    # probe pairs of the generated map: scans of a LIST of targets (end of every dirty episode) / of a single target (end of every compared one)
    extra_h, extra_l = [], []
    if isinstance(cfg, dict):
        amap = (envrig.proxy_agent_cfg(cfg) or {}).get("action_space", {}).get("action_map", {})
        scans = [(k, v) for k, v in sorted(amap.items()) if v.get("action") == "node-nmap-ping-scan"]
        extra_h = [k for k, v in scans if isinstance(v["options"].get("target_ip_address"), list)][:3]
        extra_l = [k for k, v in scans if isinstance(v["options"].get("target_ip_address"), str)][:4]
        ctx.count("dirty:probe-pairs(scan of several networks in the history, of one alone later)", min(len(extra_h), len(extra_l)))
    try:
        r = iso.dirty_history(cfg, rng, n_dirty, n_later, episodes, seeds, make=maker, extra_history=extra_h, extra_later=extra_l)
    except iso.HistoryRaised as hr:
        # an operation of the dirty history raised. If the same steps do NOT raise on a newly constructed environment, the reset left
        # something behind that a new environment does not have: a concrete violation (otherwise: totality, C01's business - noted)
        ctx.count("dirty:history-operation-raised")
        rp = {"type": "history-raises", "scenario": label, "marl": bool(unit.get("marl")), "cfg": cfg if isinstance(cfg, dict) else str(cfg),
              **({} if isinstance(cfg, dict) else {"files": _folder_files(cfg)}), "history": [list(x) for x in hr.history]}
        try:
            v = iso.raises_only_after_reset(cfg, hr.history, make=maker)
        except Exception as e2:
            v = {"fails": False, "used": str(hr), "fresh": f"oracle not runnable: {type(e2).__name__}"}
        if v["fails"]:
            ctx.violation({"kind": "operation-raises-after-reset", "exception": type(hr.exc).__name__},
                          f"{label}: operation #{len(hr.history)} of the history ({hr.history[-1]}) raises {v['used']} in an episode after a reset; the same "
                          f"{v['episode_steps']} steps of that episode on a newly constructed environment do not raise", rp)
        else:
            ctx.notes.append(f"dirty-history {label}: an operation of the history raised ({v['used']}); a newly constructed environment: {v['fresh']}")
        return
    except Exception as e:
        import traceback
        where = " <- ".join(f"{fr.filename.split('/')[-1]}:{fr.lineno}:{fr.name}" for fr in traceback.extract_tb(e.__traceback__)[-4:])
        ctx.notes.append(f"dirty-history {label}: not runnable: {type(e).__name__}: {str(e)[:120]} ({where})")
        ctx.count("dirty:not-runnable")
        if unit.get("marl"):    # not a silent skip: the multi-agent environment is part of the claim
            ctx.oblige(f"rig: the multi-agent environment case {label} ran", "correspondence", False, f"{type(e).__name__}: {str(e)[:120]} ({where})")
        return
    ctx.count("dirty:case")
    ctx.traces += 1
    ctx.count("dirty:history-ops", len(r["history"]))
    for key, n in r.get("dirtied", {}).items():
        ctx.count("dirty:" + key, n)
    sched_flag = 0 if isinstance(cfg, dict) else 1
    rngflag = int(iso.uses_global_rng(cfg)) if isinstance(cfg, dict) else 1
    buildflag = int(iso.draws_at_build(cfg)) if isinstance(cfg, dict) else 1
    gs = cfg0.get("game", {}).get("seed")
    # the multi-agent environment: the seed arguments go to the model as they are, `marlResetCall` / `marlConstructCall` say what they mean
    rop = "marlresetopt" if unit.get("marl") else "resetopt"
    ctor = f"{'marlconstructopt' if unit.get('marl') else 'constructopt'} {iso.seed_text(gs if isinstance(gs, int) else None)}"
    reported = False
    for res in r["results"]:
        seed = res["seed"]
        cls = _seed_class(seed, iso.configured_seed(cfg0))
        ctx.count(f"dirty:seed-argument:{cls}")
        if seed is None:
            ctx.count("dirty:unseeded-reset:" + ("equals" if res.get("unseeded_equals_plain_fresh") else "differs-from") +
                      "-a-fresh-environment-that-is-not-given-the-generator-state(measured,by-design)")
        for i, op in enumerate(res["later"]):
            ctx.case({"k": "dirty", "sc": label, "d": res["digest"], "i": i, "seed": iso.seed_text(seed)}, op[0] == "reset" or op[1] != 0)
        if res["diff"] is not None and not reported:
            reported = True
            d = res["diff"]
            ctx.violation({"kind": "reset-not-fresh", "component": d["component"], "where": "/".join(str(d.get("path", "")).split("/")[:4]), "seed": cls},
                          f"{label}: after a history of {len(res['history'])} operations ({res['fresh_resets']} resets), reset({'seed=' + str(seed) if seed is not None else ''}) "
                          f"+ the same actions differ from a fresh environment"
                          + (" that starts its reset from the same generator state" if seed is None else "") +
                          f" at record {d['index']} in {d['component']} {d.get('path', '')}: used={d.get('a')} fresh={d.get('b')}",
                          {"type": "dirty-history", "scenario": label, "marl": bool(unit.get("marl")), "cfg": cfg if isinstance(cfg, dict) else str(cfg),
                           **({} if isinstance(cfg, dict) else {"files": _folder_files(cfg)}), "history": [list(x) for x in res["history"]], "fresh_resets": res["fresh_resets"], "later": [list(x) for x in res["later"]], "diff": d})
        # model: used = instance 0, fresh = instance 1, same environment-level attributes; the seed argument goes to the model AS IT IS
        lines = ["reset", f"new 0 7 1 0 {rngflag} {sched_flag} 0 {buildflag}", f"new 1 7 1 0 {rngflag} {sched_flag} 0 {buildflag}", f"ev 0 {ctor}"]
        for op in res["history"]:
            lines.append(f"ev 0 {rop} {iso.seed_text(op[1])}" if op[0] == "reset" else f"ev 0 step {op[1] % 1000}")
        later_lines = [f"ev X {rop} {iso.seed_text(seed)}"] + [f"ev X step {op[1] % 1000}" for op in res["later"][1:]]
        lines += (["saverng"] if seed is None else []) + [l.replace("X", "0") for l in later_lines]
        lines += [f"ev 1 {ctor}"] + [f"ev 1 {rop} {1000003 + k}" for k in range(res["fresh_resets"])]
        lines += (["restorerng"] if seed is None else []) + [l.replace("X", "1") for l in later_lines]
        lines.append(f"cmptail 0 1 {len(later_lines)}")
        ctx.model_lines += lines
        ctx.expectations += [("skip", None)] * (len(lines) - 1) + [("dirty", (f"{label}/seed={iso.seed_text(seed)}", res["diff"] is None))]
    # (c) identity disjointness: old game vs new game of the used environment; used vs fresh environment
    if _ALLOWED is None:
        _ALLOWED = iso.import_time_objects()
    allowed = _ALLOWED
    for what, x, y in (("old-vs-new game of one environment", r["old_game"], r["used"].game),
                       ("games of two environments", r["used"].game, r["fresh"].game),
                       ("environment objects", r["used"], r["fresh"])):
        sh = iso.shared_objects(x, y, allowed)
        ctx.count("identity:pairs-checked")
        ctx.case({"k": "identity", "sc": label, "what": what}, True)
        if sh:
            ctx.violation({"kind": "shared-mutable-object", "what": what, "type": sh[0]},
                          f"{label}: {len(sh)} mutable objects are reachable from both {what}: {sorted(set(sh))[:6]}",
                          {"type": "identity", "scenario": label, "what": what, "types": sorted(set(sh))[:40]})
    # (c') general oracle for objects HANDED OUT from module / class level: the only import-time objects a game may point at are the
    # AirSpaceFrequency constants; and no two history items share an answer object. Both are evaluated on the dirtied game and on the game of
    # the last compared episode; a hit is a concrete, re-executable input (construct + the operations so far), shrunk to a short prefix.
    ops_so_far = list(r["results"][-1]["history"]) + list(r["results"][-1]["later"]) if r["results"] else list(r["history"])
    stray_all: List[Tuple[str, str]] = []
    for which, game in (("dirtied game", r["old_game"]), ("game of the last compared episode", r["used"].game)):
        stray = iso.stray_import_time_objects(game, allowed)
        stray_all += stray
        ctx.count("identity:games-checked-for-import-time-objects")
        if stray:
            rp = {"type": "import-time-object-in-game", "scenario": label, "cfg": cfg if isinstance(cfg, dict) else str(cfg),
                  **({} if isinstance(cfg, dict) else {"files": _folder_files(cfg)}), "history": [list(x) for x in ops_so_far], "objects": stray[:10]}
            try:
                rp["history"] = [list(x) for x in _shrink_prefix(rp)]
            except Exception:
                pass
            ctx.violation({"kind": "import-time-object-in-game", "type": stray[0][0].split(".")[-1]},
                          f"{label}: after {len(rp['history'])} operation(s) the {which}'s object graph references mutable object(s) that live at module / "
                          f"class level and are therefore shared by every episode and every environment of the process: "
                          + ", ".join(f"{t} = {n}" for t, n in stray[:4]), rp)
            break
    ctx.oblige(f"identity[{label}]: a game references no import-time mutable object except AirSpaceFrequency constants", "correspondence",
               not stray_all, f"{stray_all[:10]}")
    sh = iso.shared_between_history_items(r["used"])
    ctx.count("identity:history-items-checked", sum(len(a.history) for a in r["used"].game.agents.values()))
    if sh:
        ctx.violation({"kind": "history-items-share-an-answer", "type": sh[0].split(" ")[0].split(".")[-1]},
                      f"{label}: {len(sh)} answer objects are shared between history items of different steps: {sh[:3]}",
                      {"type": "import-time-object-in-game", "scenario": label, "cfg": cfg if isinstance(cfg, dict) else str(cfg),
                       **({} if isinstance(cfg, dict) else {"files": _folder_files(cfg)}), "history": [list(x) for x in ops_so_far], "shared": sh[:10]})
    # (d) scheduler
    probs = iso.scheduler_copies(r["used"], [0, 1, r["used"].episode_counter])
    ctx.count("scheduler:checked")
    for p in probs:
        ctx.violation({"kind": "scheduler-shares-state", "what": p.split(" ")[0]}, f"{label}: {p}", {"type": "scheduler", "scenario": label, "problem": p})
    ctx.sample({"rig": "dirty-history", "scenario": label, "dirty_episodes": episodes, "history_ops": len(r["history"]),
                "reset_arguments_compared": [iso.seed_text(x["seed"]) for x in r["results"]], "later_ops": [len(x["later"]) for x in r["results"]],
                "equal": r["diff"] is None}, cap=8)
    for e in (r["used"], r["fresh"]):
        try:
            e.close()
        except Exception:
            pass


def _do_pair(ctx: Rec, unit: dict):
    """(b) interleaved instances"""
    cfg_a, cfg_b = unit["cfg_a"], unit["cfg_b"]
    # the sizes of the action spaces are read off the scenarios: constructing environments here, before the differential's own normalised
    # runs, would leave their traces in the process (that is exactly what the differential is looking for)
    try:
        sa = len(envrig.proxy_agent_cfg(cfg_a)["action_space"]["action_map"])
        sb = len(envrig.proxy_agent_cfg(cfg_b)["action_space"]["action_map"])
    except Exception as e:
        ctx.notes.append(f"pair {unit['label']}: no action map: {type(e).__name__}: {str(e)[:100]}")
        return
    fam_a = iso.seed_family(iso.configured_seed(cfg_a), unit["rng"].fork("famA"))
    fam_b = iso.seed_family(iso.configured_seed(cfg_b), unit["rng"].fork("famB"))
    sched = iso.gen_schedule(unit["rng"], ctx.scale(18, 45), sa, sb, unit["b_first"], fam_a=fam_a, fam_b=fam_b)
    _interleaving_case(ctx, f"{unit['la']}|{unit['lb']}", unit["la"], unit["lb"], cfg_a, cfg_b, sched, ctx.model_lines, ctx.expectations, shrink=True)


def _variant(spec: Dict) -> Optional[Dict]:
    """scenario spec of a corpus file: {"scenario": name, "nmne": {...}?, "strip_rng": bool?, "seed": int?, "io": {io_settings}?}"""
    cfg = _load(spec["scenario"])
    if cfg is None:
        return None
    if "nmne" in spec:
        cfg = set_nmne(cfg, spec["nmne"])
    if spec.get("strip_rng"):
        cfg = strip_rng(cfg)
    if "seed" in spec:
        cfg = set_seed(cfg, spec["seed"])
    if "io" in spec:
        cfg = with_io(cfg, spec["io"])
    return cfg


def _dirty_specs(ctx: Ctx, rng: Rng):
    """(label, spec) of the dirty-history cases; the scenario (and its generated action map) is built by the worker that runs the case"""
    names = ["data_manipulation", "basic_firewall", "wireless_wan_network_config"]
    if ctx.thorough:
        names += ["uc7_config", "dmz_network", "basic_switched_network", "test_primaite_session", "multi_lan_internet_network_example",
                  "firewall_actions_network", "install_and_configure_apps"]
    sh = scen.shipped()
    first = True
    for name in names:
        if name not in sh:
            continue
        if first:
            yield name + "/shipped-map", {"scenario": name, "aug": None}
            first = False
        for v in range(ctx.scale(1, 2)):
            yield f"{name}/generated-map-{v}", {"scenario": name, "aug": (rng.fork(f"aug{name}{v}"), ctx.scale(50, 120)),
                                                "random_agent": name == "basic_firewall" or (ctx.thorough and v == 1)}
    for d in (["scenario_with_placeholders"] + (["mini_scenario_with_simulation_variation"] if ctx.thorough else [])):
        if (scen.PKG / d).is_dir():
            yield f"{d}/episodic", {"dir": d}
    # the multi-agent environment (PrimaiteRayMARLEnv) on the shipped two-defender scenarios
    for name in (["data_manipulation_marl"] + (["multi_agent_session"] if ctx.thorough else [])):
        if name in sh:
            yield f"{name}/marl-env", {"scenario": name, "aug": None, "marl": True}


def _pairs(ctx: Ctx, rng: Rng):
    uc2 = _load("data_manipulation")
    fw = _load("basic_firewall")
    wl = _load("wireless_wan_network_config")
    out = []
    if uc2 and fw:
        # different NMNE settings (F-10 territory)
        out.append(("uc2", "firewall-nmne-off", uc2, fw))
        # A without anything that draws from the global generators, B with the same NMNE settings but different thresholds: must be isolated
        a = _aug(strip_rng(uc2), rng.fork("pA"), ctx.scale(40, 90))
        out.append(("uc2-norng", "uc2-thresholds", a, set_thresholds(uc2, TH)))
        out.append(("uc2-norng", "firewall-nmne-same", a, set_nmne(fw, uc2["simulation"]["network"]["nmne_config"])))
        # A carries a RANDOM AGENT (private generator seeded at build, /repo 903a159) and nothing that draws from a global generator in step:
        # the model predicts A unaffected by B's steps after every seeded operation of A; B (full UC2) draws from the global generators
        out.append(("uc2-norng+random-agent", "uc2", with_random_agent(a), uc2))
        # A's scenario has NO nmne_config section, B's captures: what A sees right after its OWN construction / reset must not depend on B
        # (own-build oracle; not F-10, which is about B overwriting what A reads later)
        nosec = copy.deepcopy(fw)
        nosec.get("simulation", {}).get("network", {}).pop("nmne_config", None)
        out.append(("firewall-no-nmne-section", "uc2-captures", _aug(nosec, rng.fork("pN"), 30), uc2))
    if uc2:
        out.append(("uc2", "uc2", uc2, set_seed(uc2, 77)))          # same scenario twice: F-11 territory
    if wl and fw:
        out.append(("wireless", "wireless-capacity-override", _aug_air(wl, rng.fork("pW"), 40), set_air(wl, 0.001)))
        out.append(("firewall-nmne-on2", "wireless", set_nmne(_aug(fw, rng.fork("pF"), 40), NMNE_ON2), wl))
    if ctx.thorough:
        uc7 = _load("uc7_config")
        if uc7 and uc2:
            out.append(("uc7", "uc2", uc7, uc2))
            out.append(("uc2-norng", "uc7", _aug(strip_rng(uc2), rng.fork("pA2"), 90), set_nmne(uc7, uc2["simulation"]["network"]["nmne_config"])))
        if fw and wl:
            out.append(("firewall", "wireless-thresholds", _aug(fw, rng.fork("pF2"), 60), set_thresholds(wl, TH)))
    return out


_OPEN: Optional[List[dict]] = None


def _is_known(sig: dict) -> bool:
    global _OPEN
    from harness.lib.core import load_findings, sig_matches
    if _OPEN is None:
        _OPEN = [f for f in load_findings() if f["property"] == "C04" and f.get("status") == "open"]
    return any(sig_matches(f["signature"], sig) for f in _OPEN)


def _interleaving_case(ctx: "Rec", label: str, la, lb, cfg_a: Dict, cfg_b: Dict, sched: List[Tuple], model_lines: List[str],
                       expectations: List[Tuple[str, Any]], shrink: bool, extra: Optional[dict] = None):
    try:
        r = iso.interleaving(cfg_a, cfg_b, sched, globals_fp=globals_fp)
    except Exception as e:
        ctx.notes.append(f"interleaving {label}: harness could not run: {type(e).__name__}: {str(e)[:160]}")
        ctx.count("interleave:not-runnable")
        return
    ctx.count("interleave:case")
    ctx.traces += 1
    for e in sched:
        ctx.count(f"interleave:op:{e[0]}:{e[1]}")
    same = iso.per_step_same(r["solo"], r["inter"])
    k = 0
    prev_b = False
    for e in sched:
        if e[0] != "A":
            prev_b = True
            continue
        if e[1] == "construct":
            continue
        if e[1] == "reset":
            ctx.count("interleave:A-reset-argument:" + _seed_class(e[2], iso.configured_seed(cfg_a)))
        ctx.case({"k": "il", "pair": label, "d": r["digest"], "i": k, "s": hash(tuple(sched)) & 0xffffff}, prev_b or (e[1] == "step" and e[2] != 0))
        prev_b = False
        k += 1
    replay_info = {"type": "interleaving", "a": la, "b": lb, "cfg_a": cfg_a, "cfg_b": cfg_b, "schedule": [list(x) for x in sched], "diff": r["diff"],
                   **(extra or {})}
    ctx.count("interleave:own-globals-checked")
    if r.get("own_globals") is not None:
        # not F-10 (B overwrites what A reads): A's OWN construction / reset left process globals that depend on who ran before it
        og = r["own_globals"]
        ctx.violation({"kind": "instance-interference", "channel": "own-build-does-not-rewrite-globals"},
                      f"{label}: right after instance A's own construct/reset #{og['index']} the run-time written globals an operation may read "
                      f"({', '.join(_READ_GLOBALS)}; after a seeding operation also the state of the process-global generators) are "
                      f"{og['interleaved']} with other instances interleaved but {og['solo']} alone: A's own operation does not (re)write them "
                      f"from A's scenario / seed argument", {**replay_info, "channel": "own-build-does-not-rewrite-globals", "own_globals": og})
    if r["diff"] is not None:
        chans = r["channels"]
        ctx.count("interleave:differs:" + "+".join(chans))
        small = sched
        # a difference that is entirely a recorded open finding is reported as KNOWN-FINDING whatever its size: shrink only what is new
        if shrink and not all(_is_known({"kind": "instance-interference", "channel": ch}) for ch in chans):
            try:
                small = _shrink_schedule(cfg_a, cfg_b, sched, chans)
            except Exception:
                small = sched
        d = r["diff"]
        for ch in chans:
            ctx.violation({"kind": "instance-interference", "channel": ch},
                          f"{label}: instance A's trajectory with instance B interleaved differs from its solo trajectory at record {d['index']} "
                          f"({d['component']} {d.get('path', '')}: solo={d.get('a')} interleaved={d.get('b')}); channel={ch} "
                          f"(shielding: {r.get('fixes')})",
                          {**replay_info, "schedule": [list(x) for x in small], "channel": ch, "residual": r.get("residual")})
    else:
        ctx.count("interleave:equal")
    ctx.sample({"rig": "interleaving", "pair": label, "ops": len(sched), "b_ops": sum(1 for e in sched if e[0] != 'A'),
                "equal": r["diff"] is None, "channels": r["channels"]}, cap=8)
    lines, idx = iso.model_lines(cfg_a, cfg_b, sched, {})
    model_lines += lines
    for l, i in zip(lines, idx):
        if i >= 0 and i < len(same):
            expectations.append(("astep", (label, i, same[i], replay_info)))
        else:
            expectations.append(("skip", None))


# ---------------------------------------------------------------------------------------------- (h) instances whose io_settings DIFFER
# `PrimaiteIO(...)` (one per environment) writes its settings into the process-wide `SIM_OUTPUT`; every SysLog / AgentLog / PacketCapture
# of EVERY game consults those flags at log time. The inventory classifies SIM_OUTPUT sink-only (file / terminal output is outside the
# trajectory) - which is only true as long as a log call cannot raise or take another path through the simulation. This family checks
# exactly that: two instances that differ in ONE output option (and in all of them), both directions, both creation orders.
IO_BOOLS = ["save_logs", "save_agent_actions", "save_step_metadata", "save_pcap_logs", "save_sys_logs", "save_agent_logs",
            "write_sys_log_to_terminal", "write_agent_log_to_terminal"]
IO_BASE = {**scen.QUIET_IO, "sys_log_level": "DEBUG", "agent_log_level": "DEBUG"}     # every log call passes the level gate


def io_variants() -> List[Tuple[str, Dict, Dict]]:
    """(name, io_settings with the option(s) OFF, io_settings with the option(s) ON)"""
    out = [(o, dict(IO_BASE), {**IO_BASE, o: True}) for o in IO_BOOLS]
    out.append(("log-levels", {**IO_BASE, "sys_log_level": "CRITICAL", "agent_log_level": "CRITICAL"},
                {**IO_BASE, "save_sys_logs": True, "save_agent_logs": True}))
    out.append(("all-options", dict(scen.QUIET_IO), {**{o: True for o in IO_BOOLS}, "sys_log_level": "DEBUG", "agent_log_level": "DEBUG"}))
    return out


def with_io(cfg: Dict, io: Dict) -> Dict:
    cfg = copy.deepcopy(cfg)
    cfg["io_settings"] = dict(io)
    return cfg


def io_schedule(b_first: bool, acts: List[int], sa: int, sb: int) -> List[Tuple]:
    """both creation orders inside ONE schedule as well: B is built before / after A, closed, and a successor is built while A lives"""
    s: List[Tuple] = [("B", "construct"), ("A", "construct")] if b_first else [("A", "construct"), ("B", "construct")]
    s += [("A", "reset", 5), ("B", "reset", 6)]
    for i, a in enumerate(acts):
        if i == len(acts) // 2:
            s += [("B", "close"), ("A", "reset", 0), ("B", "construct")]
        s += [("B", "step", (a * 7 + 1) % max(1, sb)), ("A", "step", a % max(1, sa))]
    return s


class _IoSandbox:
    """file output of the instances under test goes below a temporary session directory, terminal output nowhere; afterwards the
    process-wide output settings and the `logging` handlers the instances installed are put back"""

    def __enter__(self):
        import contextlib
        import io as _io
        import logging

        from primaite.session.io import PrimaiteIO
        from primaite.simulator import SIM_OUTPUT
        self.tmp = tempfile.mkdtemp(prefix="c04io_", dir=_W.get("tmp"))
        if not _W.get("tmp"):
            _TMP.append(self.tmp)
        # as in the real code every environment of the process gets the SAME session directory - here a temporary one. (The method is
        # replaced, not `PRIMAITE_PATHS`: that object is an import-only inventory entry which the normalisation would put back.)
        session = Path(self.tmp) / "sessions"

        def generate_session_path(io_self, timestamp=None):
            session.mkdir(exist_ok=True, parents=True)
            return session
        self.io_cls, self.orig = PrimaiteIO, PrimaiteIO.generate_session_path
        PrimaiteIO.generate_session_path = generate_session_path
        self.simout = dict(vars(SIM_OUTPUT))
        self.loggers = set(logging.root.manager.loggerDict)
        self.redirect = contextlib.redirect_stdout(_io.StringIO())
        self.redirect.__enter__()
        return self

    def __exit__(self, *exc):
        import logging

        from primaite.simulator import SIM_OUTPUT
        self.redirect.__exit__(*exc)
        self.io_cls.generate_session_path = self.orig
        vars(SIM_OUTPUT).clear()
        vars(SIM_OUTPUT).update(self.simout)
        for name, lg in list(logging.root.manager.loggerDict.items()):
            if isinstance(lg, logging.Logger) and (name not in self.loggers or name.endswith(("_sys_log", "_pcap", "_log"))):
                for h in lg.handlers[:]:
                    if isinstance(h, logging.FileHandler) and str(getattr(h, "baseFilename", "")).startswith(self.tmp):
                        lg.removeHandler(h)
                        h.close()
        shutil.rmtree(self.tmp, ignore_errors=True)
        return False


def _io_units(ctx: Ctx, rng: Rng) -> List[dict]:
    uc2 = _load("data_manipulation")
    if not uc2:
        return []
    base = strip_rng(uc2)        # nothing that draws from a global generator in `step`: the model predicts A unaffected, F-11 stays out
    units = []
    special = ("log-levels", "all-options", "save_sys_logs", "save_pcap_logs")
    for k, (name, off, on) in enumerate(io_variants()):
        for a_on in (False, True):
            for b_first in (False, True):
                # thorough: every option x both directions x both creation orders (40). quick (18): every single option in the direction
                # "A off, B on" with the creation order alternating from option to option (the schedule itself closes and re-builds B
                # while A lives); both orders and the reverse direction for the options that create loggers and for the combined variants
                if not ctx.thorough:
                    if name not in special and (a_on or b_first != bool(k % 2)):
                        continue
                    if name in special and a_on and b_first:
                        continue
                la = f"io:{name}={'on' if a_on else 'off'}"
                lb = f"io:{name}={'off' if a_on else 'on'}"
                units.append({"kind": "io", "label": f"{la}|{lb}|{'B' if b_first else 'A'}-first", "la": la, "lb": lb,
                              "cfg_a": with_io(base, on if a_on else off), "cfg_b": with_io(base, off if a_on else on), "b_first": b_first,
                              "rng": rng.fork(f"io{name}{a_on}{b_first}"), "weight": 5})
    return units


def _do_io(ctx: Rec, unit: dict):
    cfg_a, cfg_b = unit["cfg_a"], unit["cfg_b"]
    sa = len(envrig.proxy_agent_cfg(cfg_a)["action_space"]["action_map"])
    sb = len(envrig.proxy_agent_cfg(cfg_b)["action_space"]["action_map"])
    acts = iso.gen_actions(unit["rng"], ctx.scale(6, 14), sa, do_nothing_share=3)
    sched = io_schedule(unit["b_first"], acts, sa, sb)
    ctx.count("io-differs:case")
    ctx.count(f"io-differs:{unit['la']}|{unit['lb']}")
    with _IoSandbox():
        _interleaving_case(ctx, unit["label"], unit["la"], unit["lb"], cfg_a, cfg_b, sched, ctx.model_lines, ctx.expectations, shrink=True,
                           extra={"io_sandbox": True})


# ---------------------------------------------------------------------------------------------- (e) episode schedules
def _sched_units(ctx: Ctx, rng: Rng) -> List[dict]:
    units: List[dict] = []
    steps = ctx.scale(8, 14)
    for name, d in envrig.scheduled_dirs().items():
        n = len(isd.read_folder(d)["entries"])
        big = n > 8
        if big and not ctx.thorough:
            # uc7_multiple_attack_variants (20 entries): quick goes up to the first entry that repeats a file combination
            units.append({"kind": "sched", "label": f"shipped:{name}[first-repeat]", "dir": name, "episodes": 3, "only": [3], "steps": steps,
                          "rng": rng.fork(name), "weight": 20})
        else:
            units.append({"kind": "sched", "label": f"shipped:{name}", "dir": name, "episodes": n + 2, "only": None, "steps": steps,
                          "rng": rng.fork(name), "weight": 120 if big else 8})
    for i in range(ctx.scale(2, 10)):
        g = {"size": 1 + (i % 3 == 2 and ctx.thorough), "n_topologies": 1 + i % 2, "n_net": 3 + (i // 2) % 2, "n_agents": 2, "extra_entries": 1 + i % 3}
        units.append({"kind": "sched", "label": f"generated-{i}", "gen": g, "episodes": None, "only": None, "steps": steps, "rng": rng.fork(f"gen{i}"), "weight": 8})
    # folders over the shipped WIRELESS scenario: the episodes differ in airspace capacities (an override, then none), `defaults`, io_settings
    for i in range(ctx.scale(1, 3)):
        g = {"n_topologies": 1, "n_net": 3 + i % 2, "n_agents": 2, "extra_entries": 1 + i % 2}
        units.append({"kind": "sched", "label": f"generated-wireless-{i}", "gen": g, "base": "wireless_wan_network_config", "episodes": None, "only": None,
                      "steps": steps, "rng": rng.fork(f"genw{i}"), "weight": 8})
    return units


def _folder_files(folder: str) -> Dict[str, str]:
    return {p.name: p.read_text() for p in sorted(Path(folder).iterdir()) if p.is_file()}


def _do_sched(rec: Rec, unit: dict):
    rng = unit["rng"]
    if unit.get("dir"):
        folder = episodic_dir(unit["dir"])
    else:
        folder = str(Path(tempfile.mkdtemp(prefix="c04g_", dir=_W.get("tmp"))) / "scenario")
        base_cfgs = None
        if unit.get("base"):
            b = _load(unit["base"])
            if b is None:
                rec.notes.append(f"schedule {unit['label']}: scenario {unit['base']} missing")
                return
            base_cfgs = [_aug_air(b, rng.fork("aug"), 40)]
        desc = isd.gen_folder(rng.fork("folder"), Path(folder), base_cfgs=base_cfgs, **unit["gen"])
        rec.count("sched:generated-folder")
        for v in desc["air"].values():
            rec.count("sched:variant-airspace:" + ("absent" if v == "<absent>" else "override"))
        for v in desc["defaults"].values():
            rec.count("sched:variant-defaults:" + ("empty" if not v else "durations-set"))
            if any(x == 0 for x in v.values()):
                rec.count("sched:variant-defaults:with-a-zero-duration")
        rec.count("sched:variant-io-log-levels-distinct", len({json.dumps(v, sort_keys=True) for v in desc["io"].values()}))
        for v in desc["nmne"].values():
            rec.count("sched:variant-nmne:" + ("absent" if v == "<absent>" else "empty" if v == {} else "capture-on" if v.get("capture_nmne") else "capture-off"))
        rec.count("sched:generated-topologies", len(desc["topologies"]))
    files = _folder_files(folder)
    n = len(isd.read_folder(folder)["entries"])
    k_max = unit["episodes"] or (n + 2)
    # the plan (seed and actions of every episode) is drawn here so that the replay record carries it
    plan = []
    fd0 = isd.read_folder(folder)
    off = rng.below(6)
    for k in range(k_max + 1):
        r = rng.fork(f"ep{k}")
        # the seed argument of episode k's reset: the family (0, 1, that episode's configured game.seed, largest, random, None) in rotation
        fam = iso.seed_family(iso.configured_seed(isd.join_cfg(fd0, k)), r.fork("family"))
        plan.append({"seed": fam[(k + off) % len(fam)], "acts": [0 if r.chance(1, 6) else r.below(2 ** 16) for _ in range(unit["steps"] if k else max(2, unit["steps"] // 2))]})
    _sched_case(rec, unit["label"], {"files": files, "plan": plan, "only": unit.get("only")}, shrink=True)


def _sched_case(rec: Rec, label: str, rp: dict, shrink: bool):
    try:
        r = _run_sched_replay(rp)
    except Exception as e:
        import traceback
        rec.oblige(f"rig: schedule-freshness case {label} ran", "correspondence", False, traceback.format_exc()[-1200:])
        return
    rec.count("sched:case")
    rec.traces += 1
    entries = r["entries"]
    n = len(entries)
    rec.count("sched:episodes-compared", len(r["compared"]))
    rec.count("sched:resets-beyond-schedule", sum(1 for k in r["compared"] if k >= n))
    rec.count("sched:episodes-repeating-a-file-combination", sum(1 for k in r["compared"] if entries[k % n] in [entries[j % n] for j in range(k)]))
    rec.count("sched:operations-that-raised", r["raised"])
    for key, c in r["dirt"].items():
        rec.count("sched:" + key, c)
    for k in r["compared"]:
        for i in range(len(rp["plan"][k]["acts"]) + 1):
            rec.case({"k": "sched", "sc": label, "d": r["digests"][k], "ep": k, "i": i}, True)
    # a difference caused by the past is reproducible: run the differing episode's comparison once more. A difference that does not come
    # back at the same place is wall-clock / entropy nondeterminism of a single run (C03's F-9 family), counted and noted, not a C04 verdict
    confirmed = []
    for k, d in r["diffs"]:
        try:
            again = dict(_run_sched_replay({**rp, "plan": rp["plan"][: k + 1], "only": [k]})["diffs"]).get(k)
        except Exception:
            again = d
        if again is not None and (again["index"], again["component"]) == (d["index"], d["component"]):
            confirmed.append((k, d))
        else:
            rec.count("sched:difference-not-reproducible")
            rec.notes.append(f"schedule-freshness {label}: episode {k} differed once at record {d['index']} {d['component']} {d.get('path', '')} "
                             f"({d.get('a')} vs {d.get('b')}) and not when the same comparison was repeated: nondeterminism of one run, not history")
        if confirmed:
            break
    r["diffs"] = confirmed
    bad = {k for k, _ in r["diffs"]}
    for k, d in r["diffs"][:1]:
        small = rp
        if shrink:
            try:
                small = _shrink_sched(rp, k)
            except Exception:
                small = {**rp, "only": [k]}
        rec.violation({"kind": "scheduled-episode-not-fresh", "component": d["component"], "first_use_of_files": d["first_use_of_files"]},
                      f"{label}: episode {k} (schedule entry {d['entry']}: {d['files']}) reached by {k} reset(s) of one environment differs from a new "
                      f"environment constructed from that episode's scenario (both reset(seed={rp['plan'][k]['seed']})"
                      + (" = no seed argument, the reference starting from the same generator state" if rp['plan'][k]['seed'] is None else "") + ", same actions) at record "
                      f"{d['index']} in {d['component']} {d.get('path', '')}: long-lived={d.get('a')} fresh={d.get('b')}"
                      + (f"; {len(r['diffs'])} of {len(r['compared'])} compared episodes differ" if len(r["diffs"]) > 1 else ""),
                      {"type": "schedule-freshness", **small, "diff": d, "episode": k})
    rec.sample({"rig": "schedule-freshness", "folder": label, "entries": n, "episodes": len(rp["plan"]) - 1, "compared": len(r["compared"]),
                "differ": sorted(bad)}, cap=10)
    # the model: instance 0 = the long-lived scheduled environment, instance 1 = an environment whose constant scenario is episode k's
    fd = {"entries": entries, "texts": {fn: rp["files"][fn] for e in entries for fn in e}, "base": rp["files"][_base_name(rp["files"])]}
    nm = {json.dumps(isd.join_cfg(fd, j).get("simulation", {}).get("network", {}).get("nmne_config", "<absent>"), sort_keys=True) for j in range(n)}
    var = int(len(nm) > 1)
    for k in r["compared"]:
        rec.count("sched:seed-argument:" + _seed_class(rp["plan"][k]["seed"], iso.configured_seed(isd.join_cfg(fd, k))))
    for k in r["compared"][-2:]:
        sk = rp["plan"][k]["seed"]
        lines = ["reset", f"new 0 7 1 0 1 1 {var}", f"new 1 {7 + k} {1 + var * k} 0 1 0 0", "ev 0 constructopt none"]
        lines += [f"ev 0 step {a % 1000}" for a in rp["plan"][0]["acts"]]
        for j in range(1, k + 1):
            if j == k and sk is None:
                lines.append("saverng")
            lines.append(f"ev 0 resetopt {iso.seed_text(rp['plan'][j]['seed'])}")
            lines += [f"ev 0 step {a % 1000}" for a in rp["plan"][j]["acts"]]
        tail = [f"ev 1 resetopt {iso.seed_text(sk)}"] + [f"ev 1 step {a % 1000}" for a in rp["plan"][k]["acts"]]
        lines += ["ev 1 constructopt none"] + (["restorerng"] if sk is None else []) + tail + [f"cmptail 0 1 {len(tail)}"]
        rec.model_lines += lines
        rec.expectations += [("skip", None)] * (len(lines) - 1) + [("sched", (f"{label}#ep{k}", k not in bad))]


def _base_name(files: Dict[str, str]) -> str:
    import yaml
    return yaml.safe_load(files["schedule.yaml"])["base_scenario"]


def _shrink_sched(rp: dict, k: int) -> dict:
    """smaller schedule that still shows a difference: the two entries (k-1, k) alone, else entries 0..k; then shorter action lists"""
    import yaml
    sch = yaml.safe_load(rp["files"]["schedule.yaml"])
    ents = [sch["schedule"][i] for i in sorted(sch["schedule"])]
    n = len(ents)

    def fails(c: dict) -> bool:
        try:
            return bool(_run_sched_replay(c)["diffs"])
        except Exception:
            return False

    def with_schedule(seq: List[List[str]], plan: List[dict]) -> dict:
        files = dict(rp["files"])
        files["schedule.yaml"] = yaml.safe_dump({"base_scenario": sch["base_scenario"], "schedule": {i: e for i, e in enumerate(seq)}}, sort_keys=False)
        used = {fn for e in seq for fn in e} | {"schedule.yaml", sch["base_scenario"]}
        return {"files": {fn: t for fn, t in files.items() if fn in used}, "plan": plan, "only": [len(plan) - 1]}
    best = {**rp, "plan": rp["plan"][: k + 1], "only": [k]}
    for start in ([k - 1] if k >= 1 else []) + ([0] if k > 1 else []):
        cand = with_schedule([ents[j % n] for j in range(start, k + 1)], rp["plan"][start: k + 1])
        if fails(cand):
            best = cand
            break
    # shorter action lists: no history actions, then later actions cut
    for cut in (0, 2):
        cand = {**best, "plan": [{**p, "acts": p["acts"][:cut]} for p in best["plan"][:-1]] + [best["plan"][-1]]}
        if fails(cand):
            best = cand
            break
    for cut in (0, 2, 4):
        cand = {**best, "plan": best["plan"][:-1] + [{**best["plan"][-1], "acts": best["plan"][-1]["acts"][:cut]}]}
        if fails(cand):
            best = cand
            break
    return best


# ---------------------------------------------------------------------------------------------- (g) order inside one operation
def _do_order(rec: Rec, unit: dict):
    from harness.rigs import isolation_order as iord
    rng = unit["rng"]
    from harness.gen import scenario as gsc
    choice = unit["which"]
    if choice == 0:
        label, cfg = "data_manipulation", _load("data_manipulation")
    elif choice == 1:
        label, cfg = "generated", gsc.gen_scenario(rng.fork("g"), size=1)
    else:
        label, cfg = "generated-no-nmne-section", gsc.gen_scenario(rng.fork("g"), size=1)
    if cfg is None:
        return
    if choice == 2:
        cfg["simulation"]["network"].pop("nmne_config", None)
        for a in cfg["agents"]:
            for c in a.get("observation_space", {}).get("options", {}).get("components", []):
                if "include_nmne" in c.get("options", {}):
                    c["options"]["include_nmne"] = False
    r = iord.monitor_build(cfg, _READ_GLOBALS, _W["inv"], lean_roles(), seeds=(rng.range(1, 2 ** 31), 0))
    rec.count("order:operations-monitored", r["operations"])
    rec.count("order:call-events", r["events"])
    rec.count("order:reader-calls-after-the-operation's-write", r["reads_after_write"])
    rec.count("order:generator-draws-after-the-operation's-seeding", r["draws_after_seed"])
    rec.case({"k": "order", "sc": label, "n": r["events"]}, True)
    rec.oblige("rig: every non-sink reader function of the readable run-time written globals could be resolved for monitoring", "correspondence",
               not r["unresolved"], f"{r['unresolved']}")
    # cross-check of the STATIC call graph (Gen.reachBeforeWrite): the package functions ENTERED before the operation's seeding on this run
    inv = _W["inv"]
    static: Dict[str, set] = {}
    for row in inv.reach:
        if row["entry"] == x_ss.GENERATORS:
            static.setdefault(row["op"], set()).update(row["reached"])
    for op in ("__init__", "reset"):
        allowed = static.get(op, set()) | {"session.environment:PrimaiteGymEnv." + op, "session.environment:set_random_seed"}
        dyn = {f for f in r["before_write"][op] if f in inv.callgraph.byqual}      # class bodies executed by a first import are no functions
        missed = sorted(dyn - allowed)
        rec.count("order:functions-entered-before-the-seeding", len(dyn))
        rec.count("order:…of-which-in-the-static-call-graph", len(dyn & allowed))
        rd, trunc = x_ss.drawers_reachable_from(inv, missed)
        for f in missed:
            rec.count("order:entered-but-not-in-static-graph(callback from third-party code):" + f)
        rec.oblige(f"extractor cross-check[{label}/{op}]: every package function entered before the operation's seeding is in the static call "
                   "graph, or (callbacks invoked by pydantic / logging) reaches no function that draws from a global generator", "extractor",
                   not rd and not trunc, f"missed={missed} reach drawers: {rd} truncated={trunc}")
    for p in r["problems"][:2]:
        what = {"read-before-own-write": "read by " + str(p.get("reader", "?")) + " before the operation has written it",
                "not-rewritten": "not written at all: the operation leaves what an earlier episode / another instance installed",
                "draw-before-seed": "drawn by " + str(p.get("reader", "?")) + " before the operation has seeded them",
                "not-seeded": "not seeded although the operation was given a seed: the episode continues the stream earlier episodes left"}[p["kind"]]
        rec.violation({"kind": "operation-order", "what": p["kind"], "global": p["global"].split(".")[-1]},
                      f"{label}: in `{p['operation']}` the global {p['global']} is " + what,
                      {"type": "operation-order", "cfg": cfg, "problem": p})
    rec.sample({"rig": "operation-order", "scenario": label, "call_events": r["events"], "seed_call_at_event": r["seed_event"],
                "draws_after_seed": r["draws_after_seed"], "drawers": r["drawers_monitored"]}, cap=10)
