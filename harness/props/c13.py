"""C13 — services and applications follow their lifecycle; only running software works; registries agree."""
from __future__ import annotations

import json
import time
from typing import Dict, List, Optional

from harness.lib.core import VERIF, Ctx, lean_lock, run_driver, shrink_ops
from harness.extract import software as x_sw
from harness.extract import software_recv as x_recv
from harness.extract import software_loader as x_load
from harness.extract import software_regs as x_regs
from harness.extract import software_relay as x_relay
from harness.rigs import software as rig
from harness.rigs import software_relay as rrig
from harness.rigs import software_recv as wrig
from harness.rigs import software_load as lrig

MANIFEST = {
    "text": "Lean 4 proof about an executable model of Service / Application / Software (lifecycle methods, request validators, "
            "countdowns) and of a node's software layer (SoftwareManager.install with its 'already installed' guard and the eviction "
            "of an installed instance of the same name, uninstall, the registries incl. the class map, request routes, ticks and "
            "power events fanned out to every instance, get_open_ports, payload delivery, send): every operation moves a service or "
            "application only along the documented transitions; a lifecycle request succeeds exactly in its documented source "
            "states with the node ON and a refused request — service OR application — leaves the whole node unchanged (on every "
            "reachable node); restart completes at the (d+1)-th and install at the max(1,d)-th tick delivered to the instance — "
            "stated per instance and, for services, as ONE theorem over Node.run; apply_timestep never raises on reachable states; "
            "the registries agree after EVERY install/uninstall sequence and installs/uninstalls never raise. "
            "RECEIVE PATH (round 3): get_open_ports, check_port_is_open, receive_payload_from_session_manager and the destination "
            "port chosen by SessionManager.receive_frame are TRANSLATED from the source into Lean definitions on every run and "
            "proved equal, for all arguments, to the model's functions; proved for every registry state and every payload: "
            "get_open_ports lists a port only for RUNNING software, check_port_is_open is true exactly when RUNNING software with "
            "that port and protocol is installed, a delivery changes the data of, and lets a payload be sent by, only software that "
            "is RUNNING on an ON node (every other receive() answers False, changes nothing, sends nothing, leaves the shared "
            "payload object alone) — also through HostNode.receive_frame, through Router.check_send_frame_to_session_manager "
            "(routers, firewalls) and along any exchange between two nodes over an ideal transport. "
            "PAYLOAD PROCESSING of DNSServer / DNSClient / NTPServer / NTPClient is modelled and proved: a DNS request is answered "
            "with exactly the registered address or none, a reply is never answered and every exchange terminates within a proved "
            "number of steps (no endless exchange between two servers), the client caches "
            "exactly what was answered; a lookup and an NTP time request end to end between two nodes succeed exactly when the "
            "server and the client are RUNNING on ON nodes with the frames accepted, and otherwise change nothing. "
            "ROUND 4: web browser / web server payload processing is modelled and proved (GET -> DNS lookup -> HTTP request -> database "
            "verdict -> status code; response_codes, latest_response, history, the server's health write; a fetch end to end), a "
            "payload may write the receiver's own health_state_actual and nothing else of the lifecycle layer (LifeEq invariants); "
            "the attack loops of DoSBot / DataManipulationBot / RansomwareScript are modelled as stage machines and proved to act "
            "(connect, query, draw a trial) only on a RUNNING instance of an ON node; every apply_timestep override below Software "
            "calls super().apply_timestep on EVERY path (path analysis, obligation C13_gen_tick_overrides) so the countdown "
            "theorems speak about every shipped class; the translated receive path equals Node.receivers on every reachable node "
            "(no hypothesis); the transport terminates for every pair of nodes built from shipped classes (the bound on programs "
            "per node follows from the regenerated class registry). "
            "ROUND 6: the connection state machine of the C2 suite is modelled and proved (a beacon sends its keep-alive exactly on the "
            "tick the inactivity counter reaches keep_alive_frequency; answered -> established for ever; unanswered -> the connection "
            "is reset and the beacon close()s itself on that tick; the server resets after more than keep_alive_frequency silent "
            "ticks; commands need a remote; only a RUNNING, healthy instance with an active connection does anything at a tick). "
            "ROUND 7 (configuration -> lifecycle): the statements of PrimaiteGame.from_config that apply the scenario's `defaults:` section "
            "to a service installed from a node's `services:` list are TRANSLATED on every run (semantically: membership, d[k], d.get, int(), "
            "truthiness, walrus, constant loops unrolled) and proved equal, for all mappings and values, to the specification 'a configured "
            "duration is the effective one whatever its value - 0, negative, quoted - and an absent key leaves the class default'; composed "
            "with the lifecycle theorems: a service restarted after the loader configured duration v is RESTARTING through max(v,0) ticks and "
            "RUNNING at the next, for every integer v; every writer of restart_duration / install_duration in the package is pinned. "
            "install timing is ONE theorem over Node.run for applications too (C13_node_install_timing: for every operation sequence, raising "
            "operations included, INSTALLING while fewer than max(c,1) ticks were delivered, RUNNING + GOOD at that tick; refinement "
            "C13_run_application); SoftwareManager.install and SoftwareManager.uninstall are TRANSLATED statement by statement (guard, constructor, eviction, "
            "list / route / table writes, start / install / forced CLOSED, in source order) and proved equal AS WHOLE METHODS to the model's "
            "installSvc / installApp / uninstall on EVERY node reachable by model operations from registries without software, without "
            "hypothesis (second shift: the invariant RegWF - uids handed out once, no object both a service and an application, every "
            "entry of `software` stored under its object's own name, so `software.name == software_name` for the popped object - is "
            "proved for empty registries and preserved by all 18 operations: C13_regwf_step, C13_gen_methods_reachable), "
            "with programs sharing a (port, protocol) key: the last installer owns the slot, "
            "uninstalling a non-owner keeps it, uninstalling the owner empties it although another program with the key is installed. "
            "RELAY (second shift): receive() and send() of EVERY shipped class - FTP client / server and the C2 suite included - are "
            "TRANSLATED through their class chains into programs (Gen/SoftwareRelay); a checker proved sound (quietChain_sound) shows on "
            "the translated programs, for every payload, every payload test and every callee result, that with _can_perform_action() "
            "False the method returns False and does nothing but set the FTP classes' `_active` flag (C13_receive_not_running, "
            "C13_send_not_running; one listed exception: DatabaseService.send has no guard of its own and is called only from its guarded "
            "receive); the C2 relay's dispatch and the callers of the C2 / FTP payload handlers are pinned (handlers are reached only "
            "through receive); a RUNNING FTP client adds a connection exactly for a successful PORT and terminates exactly for a "
            "successful QUIT, an FTP server processes requests only (on the translated code). What RUNNING FTP / C2 software does "
            "inside its handlers (file transfer, command execution) is NOT modelled. "
            "CONNECTION BOOKKEEPING (add_connection / terminate_connection): health becomes OVERWHELMED exactly when a connection is "
            "requested at max_sessions; the table never exceeds max_sessions. "
            "Tie: guard tables, validators, countdown idioms, enum values, defaults, the shipped-class table (every receive() "
            "guarded), install guard / eviction / class-map writes / uninstall clean-ups, the docs masking table, the translated "
            "functions and the normalised bodies of the class methods the payload model follows (Gen/Software.lean, "
            "Gen/SoftwareRecv.lean, obligations C13_gen_*); differential rigs: R-svc on real Computer, Server, Router, Switch and "
            "Firewall nodes over every shipped class; R-recv on two real hosts joined by a real link (real receive of the six "
            "modelled classes, real NIC/ARP/HostNode/SessionManager/SoftwareManager transport); R-conn and R-bot on real instances; R-load builds generated scenarios THROUGH "
            "PrimaiteGame.from_config (defaults section with boundary values, per-service options, applications) and diffs the loaded "
            "attributes against the specification and requests / whole-game steps / run-time installs against the model instantiated with "
            "the CONFIGURED durations (enumerated over the value pool + random; second shift: also scenarios with 2-3 hosts on a switch "
            "with links, database-service listed on a server and a database client on another host, compared once per host); R-relay: "
            "two real hosts with the real FTP transfer and C2 exchange, every real receive() / send() call of a fully translated class "
            "compared with its translated chain run on the observed environment, plus implementation-side oracles (not running => "
            "nothing handled, nothing sent, state unchanged; open ports = ports of RUNNING slot owners; FTP client bookkeeping). "
            "When many traces disagree at once the shrinker works on the first trace per signature only and is time-boxed (every trace "
            "is still run and compared).",
    "note": "C13-specific: payload processing is modelled for DNS, NTP and web client/server and the three attack loops — FTP client / "
            "server (STOR / RETR, files), database service / client, terminal (C16) are followed only as far as routing and the running-guard (the guard on the TRANSLATED receive / send of every class, the FTP client's connection bookkeeping; not the handlers); of the C2 suite the "
            "connection state machine is modelled (one tick, keep-alive handlers, command gate; the peer and the network enter as the "
            "input `reply`), of the command relay the guard, the dispatch and the handler callers (what the handlers execute is not modelled; the rig runs the real exchange between two hosts under oracles), the two-node keep-alive exchange as a model is not; the web server's database access enters as a verdict (is a database client "
            "installed, what connection it hands out, do its queries succeed: C17's subject), the bots' random trials as inputs (C19's); "
            "URLs are taken as parsed (urlparse is trusted); two-node exchanges are "
            "modelled over an IDEAL transport (both nodes ON, peer's frame filter accepts; ARP, links, NIC state, ACLs are C08/C12/C18's "
            "subject) and the rig uses instant power transitions there; the exchange started by an NTP client inside "
            "Node.apply_timestep is modelled at its place in the per-service loop only while no power countdown is pending; "
            "termination of the model's transport is proved for nodes with at most 61 installed programs (fuel 4096); "
            "class-specific `execute`/`configure` requests, C2Beacon closing itself, are not covered; DatabaseService's nested FTPClient install is "
            "described to the model as two consecutive installs in node.services order (the one order the model cannot reproduce, that of "
            "`software`, is not compared there); of the loader only the defaults block of the "
            "services loop is translated (install_duration has no configuration source: class default only; per-service `fixing_duration` "
            "options are C14/C20's; float / underscore numerals of the defaults section are outside the value model); router/firewall frame paths only as far "
            "as the hand-over test to the session manager.",
    "technique": "Lean 4 theorems over executable lifecycle, registry, receive-path and payload models; models tied by regenerated "
                 "tables, by source-to-Lean translation of the software manager's functions and methods, of the loader's defaults block and of every class's receive / send, and by differential rigs (R-svc, R-load, R-recv, R-relay, R-conn, R-bot, R-c2)",
    "design_ref": "5/C13",
}
MODULES = ["PrimaiteModel.Props.C13", "PrimaiteModel.Lemmas.RegistriesRep", "PrimaiteModel.Props.C13Recv", "PrimaiteModel.Props.C13Bots", "PrimaiteModel.Props.C13C2",
           "PrimaiteModel.Props.C13Loader", "PrimaiteModel.Props.C13AppRun", "PrimaiteModel.Props.C13Regs", "PrimaiteModel.Props.C13Relay"]
EXE = "drv_c13"
EXE_W = "drv_c13recv"   # two nodes with class data and a transport (receive path, DNS / NTP payload processing)


# ------------------------------------------------------------------------------------------------------------ helpers
def _guards() -> Dict[str, bool]:
    tbl = x_sw.class_table()
    rig.CTOR_RUNS.clear()
    rig.CTOR_RUNS.update(r["cls"] for r in tbl if r["kind"] == "application" and r["ctor_runs"])
    rig.OWN_EXECUTE.clear()
    rig.OWN_EXECUTE.update(r["cls"] for r in tbl if not r["generic_execute"])
    rig.NO_BASE_ROUTES.clear()
    rig.NO_BASE_ROUTES.update(r["cls"] for r in tbl if not r["base_routes"])
    return {r["cls"]: r["guard"] != "none" for r in tbl}


def _diff(res: dict, model: List[str]) -> int:
    """index of the first model line whose answer differs (-1 = agree)"""
    for j, (a, b) in enumerate(zip(res["impl"], model)):
        if a is None:
            continue
        if a != b:
            return j
    if len(res["impl"]) != len(model):
        return min(len(res["impl"]), len(model))
    return -1


def _run_one(case: dict, guards: Dict[str, bool]):
    res = rig.run_case(case, guards)
    model = run_driver(EXE, res["lines"])
    return res, model, _diff(res, model)


def _sig_of_diff(res: dict, model: List[str], j: int) -> dict:
    line = res["lines"][j] if j < len(res["lines"]) else "?"
    if line == "dump" and j > 0:
        opw = res["lines"][j - 1].split()[0]
        return {"kind": "model-vs-impl", "where": "state", "op": opw}
    return {"kind": "model-vs-impl", "where": "answer", "op": line.split()[0]}


class _ShrinkGov:
    """Bounds the shrinker's work when MANY traces disagree at once (a change that breaks install / uninstall makes nearly every
    trace of a family disagree): per family and preliminary signature (read off the UNSHRUNK first difference) only the first
    disagreeing trace is shrunk, the second is reported as it is (the whole trace is a concrete replay), further ones are counted
    (`<family>:disagree-not-reported:…` in the histogram; the obligation of the family still states how many traces disagree).
    The shrinker itself is time-boxed per trace and in total: after the deadline every candidate is rejected, so `shrink_ops`
    returns the smallest failing trace found so far.  Nothing is compared less: every trace is still run and diffed."""

    def __init__(self):
        self.reset(False)

    def reset(self, thorough: bool):
        self.seen: Dict[str, int] = {}
        self.spent = 0.0
        self.total = 240.0 if thorough else 40.0      # seconds of shrinking per run
        self.per_trace = 30.0 if thorough else 8.0    # seconds of shrinking per trace

    def admit(self, family: str, sig: dict) -> str:
        key = family + ":" + json.dumps(sig, sort_keys=True)
        self.seen[key] = self.seen.get(key, 0) + 1
        if self.seen[key] == 1:
            return "shrink" if self.spent < self.total else "report"
        return "report" if self.seen[key] == 2 else "count"

    def shrink(self, ops, fails, budget: int):
        t0 = time.monotonic()
        deadline = t0 + min(self.per_trace, max(self.total - self.spent, 0.0))

        def boxed(cand):
            return time.monotonic() < deadline and fails(cand)
        try:
            return shrink_ops(ops, boxed, budget=budget)
        finally:
            self.spent += time.monotonic() - t0


GOV = _ShrinkGov()


def _check_case(ctx: Ctx, name: str, case: dict, res: dict, model: List[str], guards: Dict[str, bool]):
    ctx.cov["traces_validated_against_impl"] += 1
    j = _diff(res, model)
    answers = [m for q, m in zip(res["lines"], model) if q != "dump"]
    nontrivial = any(a in ("failure", "unreachable", "raised", "ignored", "ret 0") or a.startswith("recv") for a in answers)
    ctx.case({"node": case["node"], "lines": [l for l in res["lines"] if l != "dump"]}, nontrivial)
    for q, m in zip(res["lines"], model):
        if q == "dump":
            continue
        w = q.split()[0]
        ctx.count("op:" + w)
        if w in ("isvc", "iapp") and len(q.split()) == 10:
            ctx.count("install:" + ("configured" if q.split()[6] == "1" else "bare"))
        if w in ("sapi", "aapi") and q.split()[2] in ("tick", "send"):
            ctx.count(f"direct:{q.split()[2]}:{m}")
        if w == "rframe":
            ctx.count(f"rframe:to-router={q.split()[-1]}:{m}")
        if w in ("sreq", "areq"):
            ctx.count(f"req:{q.split()[2]}:{m}")
        elif m.startswith("recv"):
            ctx.count("recv:" + ("some-unhandled" if ":0" in m else ("all-handled" if ":" in m else "nobody")))
        elif m in ("raised", "ignored", "failure", "unreachable"):
            ctx.count(f"out:{w}:{m}")
        if m == "bad-op":
            raise RuntimeError(f"driver rejected line {q!r}")
    ctx.count("len:" + str(min(len(case["ops"]) // 10 * 10, 60)))
    ctx.count("focus:" + case.get("focus", "?"))
    ctx.count("node:" + case["node"].get("kind", "computer"))
    ctx.count("installs-refused", res.get("refused", 0))
    ctx.count("installs-replacing", res.get("replaced", 0))
    # the property's oracles on the implementation
    seen_kinds = set()
    for (i, kind, detail, extra) in res["oracle"]:
        # (signature kinds differ on purpose from those of the repaired findings F-22 / F-23, whose open entries may still
        # be in known_findings.json: a regression must be reported as a VIOLATION, not as a known finding)
        if kind == "payload-handled-while-not-running":
            sig = {"kind": "not-running-software-acted", "cls": extra}
        else:
            sig = {"kind": kind, "after_reinstall": bool(extra)}
        key = json.dumps(sig, sort_keys=True)
        if key in seen_kinds:
            continue
        seen_kinds.add(key)
        ctx.count("oracle:" + kind)
        ctx.violation(sig, f"{kind} after op {i} of {name}: {detail}", {"case": case, "from": name, "op_index": i, "oracle": kind})
    if j < 0:
        return True
    # model (proved) and implementation disagree: shrink, then report
    def fails(ops, case=case):
        c = dict(case, ops=ops)
        try:
            _, _, jj = _run_one(c, guards)
        except Exception:  # noqa
            return False
        return jj >= 0
    mode = GOV.admit("svc", _sig_of_diff(res, model, j))
    if mode == "count":
        ctx.count("svc:disagree-not-reported:" + _sig_of_diff(res, model, j)["op"])
        return False
    small, res2, model2, j2 = case, res, model, j
    if mode == "shrink":
        small = dict(case, ops=GOV.shrink(case["ops"], fails, budget=120))
        res2, model2, j2 = _run_one(small, guards)
        if j2 < 0:
            small, res2, model2, j2 = case, res, model, j
    line = res2["lines"][j2] if j2 < len(res2["lines"]) else "?"
    prev = res2["lines"][j2 - 1] if j2 > 0 else "?"
    ctx.violation(_sig_of_diff(res2, model2, j2),
                  f"software layer differs from the proved model at line {j2} ({prev!r} / {line!r}): "
                  f"impl={res2['impl'][j2] if j2 < len(res2['impl']) else None!r} model={model2[j2] if j2 < len(model2) else None!r}",
                  {"case": small, "lines": res2["lines"], "impl": res2["impl"], "model": model2, "first_diff": j2, "from": name})
    return False


def _check_world_case(ctx: Ctx, name: str, case: dict, res: dict, model: List[str], guards: Dict[str, bool]) -> bool:
    ctx.cov["traces_validated_against_impl"] += 1
    j = _diff(res, model)
    answers = [(q, m) for q, m in zip(res["lines"], model) if not q.endswith("dump")]
    traffic = [m for _, m in answers if "|" in m]
    ctx.case({"world": [q for q, _ in answers]}, bool(traffic))
    ctx.count("wfocus:" + case.get("focus", "?"))
    for q, m in answers:
        w = q.split()
        key = w[1] if w[0] in ("A", "B") else w[0]
        ctx.count("wop:" + key)
        if m == "bad-op":
            raise RuntimeError(f"driver rejected line {q!r}")
        if "!overflow" in m or "!tick-mismatch" in m:
            ctx.count("wmodel:" + ("overflow" if "!overflow" in m else "tick-mismatch"))
        if key in ("lookup", "cache"):
            ctx.count(f"w:{key}:{m.split('|')[0].strip()}")
        if key == "inject":
            ctx.count("w:inject:" + m.split()[0])
        if key == "dnslookup":
            ctx.count("w:dnslookup:" + ("none" if m == "-" else "address"))
        if "|" in m:
            for r in m.split("|")[1].split():
                if r.startswith("!"):
                    continue
                _, h, ret = r.split(":")
                ctx.count("wrecv:" + ("handled" if h == "1" else "not-running") + ":" + {"t": "True", "f": "False", "n": "None", "-": "unmodelled-class"}.get(ret, ret))
            ctx.count("wcascade:" + str(min(len([r for r in m.split("|")[1].split() if not r.startswith("!")]), 5)))
    seen = set()
    for (i, kind, detail, extra) in res["oracle"]:
        sig = {"kind": "not-running-software-acted", "cls": extra, "via": "world"} if kind == "payload-handled-while-not-running" \
            else {"kind": kind, "via": "world"}
        key = json.dumps(sig, sort_keys=True)
        if key in seen:
            continue
        seen.add(key)
        ctx.count("oracle:" + kind)
        ctx.violation(sig, f"{kind} after op {i} of {name}: {detail}", {"world_case": case, "from": name, "op_index": i, "oracle": kind})
    if j < 0:
        return True

    def fails(ops, case=case):
        c = dict(case, ops=ops)
        try:
            r2 = wrig.run_world_case(c, guards)
            return _diff(r2, run_driver(EXE_W, r2["lines"])) >= 0
        except Exception:  # noqa
            return False
    pre = res["lines"][j].split() if j < len(res["lines"]) else ["?"]
    presig = {"line": pre[1] if pre[0] in ("A", "B") and len(pre) > 1 else pre[0], "dump": pre[-1] == "dump"}
    mode = GOV.admit("world", presig)
    if mode == "count":
        ctx.count("world:disagree-not-reported:" + presig["line"])
        return False
    small, res2, model2, j2 = case, res, model, j
    if mode == "shrink":
        small = dict(case, ops=GOV.shrink(case["ops"], fails, budget=80))
        res2 = wrig.run_world_case(small, guards)
        model2 = run_driver(EXE_W, res2["lines"])
        j2 = _diff(res2, model2)
        if j2 < 0:
            small, res2, model2, j2 = case, res, model, j
    line = res2["lines"][j2] if j2 < len(res2["lines"]) else "?"
    w = line.split()
    dumpline = line.endswith("dump")
    opw = (w[1] if w and w[0] in ("A", "B") and len(w) > 1 else (w[0] if w else "?"))
    if dumpline:
        prev = next((l for l in reversed(res2["lines"][:j2]) if not l.endswith("dump")), "?").split()
        opw = prev[1] if prev and prev[0] in ("A", "B") and len(prev) > 1 else (prev[0] if prev else "?")
    impl_ans = res2["impl"][j2] if j2 < len(res2["impl"]) else None
    sig = {"kind": "model-vs-impl", "where": ("world-state:" + w[1]) if dumpline else "world-answer", "op": opw}
    if isinstance(impl_ans, str) and impl_ans.startswith("raised"):
        sig["raised"] = impl_ans.split(":", 1)[-1]
    ctx.violation(sig, f"two-node world differs from the proved model at line {j2} ({line!r}): impl={impl_ans!r} "
                       f"model={model2[j2] if j2 < len(model2) else None!r}",
                  {"world_case": small, "lines": [l for l in res2["lines"] if not l.endswith("dump")], "first_diff_line": line,
                   "impl": impl_ans, "model": model2[j2] if j2 < len(model2) else None, "from": name})
    return False


_LOAD_REPORTED: Dict[str, int] = {}


def _load_report(ctx: Ctx, sig: dict, what: str, replay_rec: dict):
    """at most two reports per signature (an enumerated family makes every member fail at once)"""
    key = json.dumps(sig, sort_keys=True)
    _LOAD_REPORTED[key] = _LOAD_REPORTED.get(key, 0) + 1
    ctx.count("load:violations:" + sig.get("where", sig.get("kind", "?")))
    if _LOAD_REPORTED[key] <= 2:
        ctx.violation(sig, what, replay_rec)


def _check_load_case(ctx: Ctx, name: str, case: dict, res: dict, model: List[str], guards: Dict[str, bool]) -> bool:
    """R-load: a scenario built through PrimaiteGame.from_config vs the loader specification and the lifecycle / registry model"""
    ctx.cov["traces_validated_against_impl"] += 1
    j = _diff(res, model)
    d = case["defaults"] if case.get("section", "present") == "present" else {}
    ctx.case({"load": {"defaults": lrig.show_dict(d), "node": case["node"], "peers": case.get("peers"), "view": case.get("view")}, "lines": [l for l in res["lines"][1:] if l != "dump"]},
             any(k in d for k in lrig.KEYS))
    ctx.count("load:focus:" + case.get("focus", "?"))
    if case.get("peers"):
        ctx.count("load:multi:view:" + ("host0" if case.get("view", lrig.HOST) == lrig.HOST else "peer"))
        ctx.count("load:multi:hosts=" + str(1 + len(case["peers"])))
        vd = next((p_ for p_ in case["peers"] if p_["hostname"] == case.get("view")), None)
        if vd is not None and any(e["type"] == "database-service" for e in vd["services"]):
            ctx.count("load:multi:view-lists-database-service")
        ctx.count("load:multi:ops-on-other-hosts", sum(1 for o in case["ops"] if o["op"] != "tick" and o.get("host", lrig.HOST) != case.get("view", lrig.HOST)))
    ctx.count("load:section:" + case.get("section", "present"))
    for k in lrig.KEYS:
        ctx.count(f"load:{k}=" + (lrig.show_val(d[k]) if k in d else "absent"))
    ctx.count("load:outcome:" + ("loaded" if res["loaded"] else "raised"))
    vnode = next((p_ for p_ in case.get("peers", []) if p_["hostname"] == case.get("view")), case["node"])
    for e in vnode["services"]:
        ctx.count("load:svc:" + e["type"] + (":own-fixing" if "fixing_duration" in e.get("options", {}) else ""))
    for e in vnode["applications"]:
        ctx.count("load:app:" + e["type"])
    # completed timed transitions seen on loaded services: RESTARTING at one dump, RUNNING at a later one
    for q, m in zip(res["lines"], model):
        if q == "dump":
            continue
        w = q.split()
        if w[0] in ("sreq", "areq"):
            ctx.count(f"load:req:{w[2]}:{m}")
        elif w[0] in ("tick", "rinst", "runinst", "rshut", "rstart"):
            ctx.count(f"load:op:{w[0]}:{m}")
        if m == "bad-op":
            raise RuntimeError(f"driver rejected line {q!r}")
    seen = set()
    for (i, kind, detail, extra) in res["oracle"]:
        sig = {"kind": kind, "via": "loader"}
        if kind == "configured-duration-not-effective":
            sig.update({"key": "service_restart_duration", "value": extra})
        key = json.dumps(sig, sort_keys=True)
        if key in seen:
            continue
        seen.add(key)
        ctx.count("oracle:" + kind)
        _load_report(ctx, sig, f"{kind} (scenario loaded through PrimaiteGame.from_config) after op {i} of {name}: {detail}",
                     {"load_case": dict(case, ops=[]) if i < 0 else case, "from": name, "op_index": i, "oracle": kind})
    if j < 0:
        return True
    n_init = next((k for k, l in enumerate(res["lines"]) if l == "dump"), 0)
    pl = res["lines"][j] if j < len(res["lines"]) else "?"
    presig = {"line": pl.split()[0], "prev": (res["lines"][j - 1].split()[0] if j > 0 else "?")}
    mode = GOV.admit("load", presig)
    if mode == "count":
        ctx.count("load:disagree-not-reported:" + presig["prev"] + "/" + presig["line"])
        return False
    if j <= n_init:
        small = dict(case, ops=[])
    elif mode != "shrink":
        small = case
    else:
        def fails(ops, case=case):
            c = dict(case, ops=ops)
            try:
                r2 = lrig.run_load_case(c, guards)
                return _diff(r2, run_driver(EXE, r2["lines"])) >= 0
            except Exception:  # noqa
                return False
        small = dict(case, ops=GOV.shrink(case["ops"], fails, budget=60))
    res2 = lrig.run_load_case(small, guards)
    model2 = run_driver(EXE, res2["lines"])
    j2 = _diff(res2, model2)
    if j2 < 0:
        small, res2, model2, j2 = case, res, model, j
    line = res2["lines"][j2] if j2 < len(res2["lines"]) else "?"
    prev = res2["lines"][j2 - 1] if j2 > 0 else "?"
    if line.startswith("loadall"):
        sig = {"kind": "model-vs-impl", "where": "loader-defaults-block"}
        what = (f"attributes of the listed services after PrimaiteGame.from_config differ from the proved specification "
                f"(defaults={lrig.show_dict(d)}): impl={res2['impl'][j2]!r} spec={model2[j2]!r}")
    else:
        sig = {"kind": "model-vs-impl", "where": "loaded-state" if line == "dump" else "loaded-answer",
               "op": (prev if line == "dump" else line).split()[0]}
        what = (f"software of a node loaded through PrimaiteGame.from_config (defaults={lrig.show_dict(d)}) differs from the proved model "
                f"instantiated with the CONFIGURED durations at line {j2} ({prev!r} / {line!r}): impl={res2['impl'][j2] if j2 < len(res2['impl']) else None!r} "
                f"model={model2[j2] if j2 < len(model2) else None!r}")
    _load_report(ctx, sig, what, {"load_case": small, "lines": res2["lines"], "impl": res2["impl"], "model": model2, "first_diff": j2, "from": name})
    return False


def replay(rec: dict) -> bool:
    r = rec["replay"]
    with lean_lock():
        from harness.lib.core import lake_build
        lake_build([EXE, EXE_W])
    guards = _guards()
    if "load_case" in r:
        res = lrig.run_load_case(r["load_case"], guards)
        if r.get("oracle"):
            return not any(k == r["oracle"] for (_, k, _, _) in res["oracle"])
        return _diff(res, run_driver(EXE, res["lines"])) < 0
    if "relay_case" in r:
        rrig.load_names(run_driver, EXE_W)
        res = rrig.run_relay_case(r["relay_case"])
        if r.get("oracle"):
            return not any(k == r["oracle"] for (k, _, _) in res["oracle"])
        return (run_driver(EXE_W, res["lines"]) if res["lines"] else []) == res["impl"]
    if "c2_case" in r:
        res = wrig.run_c2_case(r["c2_case"])
        if r.get("oracle"):
            return not res["oracle"]
        return run_driver(EXE_W, res["lines"]) == res["impl"]
    if "bot_case" in r:
        res = wrig.run_bot_case(r["bot_case"])
        if r.get("oracle"):
            return not res["oracle"]
        return (run_driver(EXE_W, res["lines"]) if res["lines"] else []) == res["impl"]
    if "conn_case" in r:
        res = wrig.run_conn_case(r["conn_case"])
        if r.get("oracle"):
            return not res["oracle"]
        return run_driver(EXE_W, res["lines"]) == res["impl"]
    if "world_case" in r:
        res = wrig.run_world_case(r["world_case"], guards)
        model = run_driver(EXE_W, res["lines"])
        if r.get("oracle"):
            return not any(k == r["oracle"] for (_, k, _, _) in res["oracle"])
        return _diff(res, model) < 0
    if "probe" in r:
        p = rig.guard_probe(r["probe"])
        return not _probe_handles_when_not_running(p)
    res, model, j = _run_one(r["case"], guards)
    if r.get("oracle"):
        return not any(k == r["oracle"] for (_, k, _, _) in res["oracle"])
    return j < 0


def _probe_handles_when_not_running(p: dict) -> List[str]:
    if p.get("status") != "probed":
        return []
    return [st for st, o in p["states"].items() if st != "RUNNING" and (o["ret"] or o["sent"] or o["changed"])]


# ------------------------------------------------------------------------------------------------------------ run
def run(ctx: Ctx):
    with lean_lock():
        ctx.extract("Software", x_sw.emit)
        ctx.extract("SoftwareRecv", x_recv.emit)
        ctx.extract("SoftwareLoader", x_load.emit)
        ctx.extract("SoftwareRegs", x_regs.emit)
        ctx.extract("SoftwareRelay", x_relay.emit)
        ctx.prove(MODULES, exes=[EXE, EXE_W], clean=False, leanchecker=ctx.thorough)
    guards = _guards()
    GOV.reset(ctx.thorough)
    ctx.cov["rule"] = ("cases = (node power and durations, operation sequence over install/uninstall (API and request) of every shipped "
                       "class, the 10 service / 4 application requests, direct method calls, duration writes, ticks, power API and "
                       "requests, payload deliveries and frames); after every operation the answer and the whole registry/lifecycle "
                       "state are diffed against the Lean driver; a case is non-trivial when some answer is a refusal, a raise, an "
                       "ignored frame or a delivery; distinct by canonical JSON of the model lines.  R-recv cases = (two real hosts on a link; "
                       "installs of DNS/NTP servers and of listeners, lifecycle requests and power events on either node, dns_register / "
                       "add_domain_to_cache / dns_lookup / check_domain_exists / request_time / Node.apply_timestep, client configuration, "
                       "clock changes, injected frames with DNS/NTP requests and replies, junk and port-scan payloads, open-port queries); "
                       "after every operation the answer, every receive() call it caused on both nodes (object, may-act, return value) in "
                       "call order, both state lines and both class-data lines are diffed; non-trivial = some receive() call was caused.  "
                       "R-conn cases = (class, max_sessions 0..3, starting health, add/terminate sequence); non-trivial = OVERWHELMED reached")

    # -- Gen class table vs live classes
    tbl = {r["cls"]: r for r in x_sw.class_table()}
    rt = rig.runtime_class_table()
    bad = []
    for r in rt:
        g = tbl.get(r["cls"])
        if g is None:
            bad.append(f"{r['cls']} not in Gen table")
            continue
        for k_rt, k_g, conv in (("name", "name", str), ("port", "port", int), ("proto", "proto", int), ("disc", "disc", str)):
            if k_g == "disc" and not g["disc"]:
                continue  # HostARP is used where the registry names the abstract ARP
            if conv(r[k_rt]) != conv(g[k_g] if g[k_g] is not None else ""):
                bad.append(f"{r['cls']}.{k_rt}: runtime {r[k_rt]!r} vs extracted {g[k_g]!r}")
        if (g["kind"] == "application") != r["is_app"]:
            bad.append(f"{r['cls']}: kind differs")
    ctx.oblige("gen-cross-check:class table equals live classes", "extractor", not bad, "; ".join(bad))
    ctx.cov["classes"] = sorted(r["cls"] for r in rt)

    # -- receive() guard probe on every registered class (implementation-side oracle for "not running => no payload handled")
    probes = {}
    for r in rt:
        p = rig.guard_probe(r["cls"])
        probes[r["cls"]] = p
        leaks = _probe_handles_when_not_running(p)
        ctx.count("probe:" + p.get("status", "?"))
        if p.get("status") == "probed":
            ctx.cov["evaluations"] += len(p["states"])
            ran = p["states"].get("RUNNING", {})
            ctx.count("probe-running-baseline:" + ("handled" if (ran.get("ret") or ran.get("sent") or ran.get("changed")) else "not-handled"))
        if leaks:
            ctx.violation({"kind": "not-running-software-acted", "cls": r["cls"], "via": "receive-probe"},
                          f"{r['cls']}.receive processes a payload while {','.join(leaks)}", {"probe": r["cls"], "result": p})
        if leaks and guards.get(r["cls"], False):
            ctx.oblige(f"gen-cross-check:{r['cls']} receive-guard", "extractor", False,
                       f"extracted guard present but the live class handled a payload while {leaks}")
    ctx.cov["guard_probe"] = {k: {st: ("H" if (o["ret"] or o["sent"] or o["changed"]) else "-") + ("!" if o["err"] else "")
                                  for st, o in v.get("states", {}).items()} or v.get("status") for k, v in probes.items()}

    # -- traces: corpus first, then bounded-exhaustive lifecycle words, then seeded random
    cases = []
    world_cases = []
    for f in sorted((VERIF / "corpus" / "C13").glob("*.json")):
        rec = json.loads(f.read_text())
        if rec.get("world"):
            world_cases.append(("corpus:" + f.name, rec["case"]))
        else:
            cases.append(("corpus:" + f.name, rec["case"]))
    # bounded-exhaustive: every word of the given length over {7 lifecycle requests, tick, shutdown, startup}
    if not ctx.thorough:
        plan = [("dns-client", 3, [(0, 0), (1, 2)], "computer"), ("terminal", 2, [(1, 1)], "router"), ("icmp", 2, [(0, 2)], "firewall")]
    else:
        plan = [("dns-client", 4, [(0, 0), (1, 2)], "computer"), ("terminal", 3, [(0, 0), (2, 1)], "computer"),
                ("ntp-client", 3, [(1, 1)], "server"), ("terminal", 3, [(1, 1)], "router"), ("icmp", 3, [(0, 2)], "firewall"),
                ("user-session-manager", 3, [(1, 0)], "router")]
    for t, depth, dur_list, kind in plan:
        for durs in dur_list:
            for k, c in enumerate(rig.exhaustive_cases(depth, t, durs, kind)):
                cases.append((f"exh:{kind}:{t}:{depth}:{durs}:{k}", c))
    for k, c in enumerate(rig.timing_cases()):   # every shipped class: its timed transition and an interrupted fix
        cases.append((f"timing:{k}", c))
    n = ctx.scale(250, 5000)
    rng = ctx.rng.fork("svc")
    for k in range(n):
        cases.append((f"gen:{k}", rig.gen_case(rng, max_ops=ctx.scale(30, 60))))

    agree = 0
    CHUNK = 3000  # one driver run per chunk (bounds the memory held by the state lines)
    for c0 in range(0, len(cases), CHUNK):
        chunk = cases[c0:c0 + CHUNK]
        results, lines_all, bounds = [], [], []
        for name, case in chunk:
            res = rig.run_case(case, guards)
            bounds.append((len(lines_all), len(res["lines"])))
            lines_all += res["lines"] + ["reset"]
            results.append(res)
        model_all = run_driver(EXE, lines_all, timeout=3000)
        for (name, case), res, (st, ln) in zip(chunk, results, bounds):
            model = model_all[st:st + ln]
            if _check_case(ctx, name, case, res, model, guards):
                agree += 1
                if name.startswith("gen:"):
                    ctx.sample({"case": name, "node": case["node"], "lines": [l for l in res["lines"] if l != "dump"][10:18],
                                "answers": [m for q, m in zip(res["lines"], model) if q != "dump"][10:18]}, cap=3)
    ctx.oblige("rig:R-svc agrees on every trace", "correspondence", agree == len(cases), f"{len(cases) - agree} of {len(cases)} traces disagree")

    # -- R-load: scenarios built THROUGH PrimaiteGame.from_config (defaults section, per-service options, run-time installs) vs the
    #    loader specification (`loadall`) and the lifecycle / registry model instantiated with the CONFIGURED durations
    load_cases = []
    _LOAD_REPORTED.clear()
    for f in sorted((VERIF / "corpus" / "C13" / "load").glob("*.json")):
        load_cases.append(("corpus:load/" + f.name, json.loads(f.read_text())["case"]))
    def views(name: str, c: dict):
        # a scenario with several hosts is compared once per host (`view`): the specification line, the oracle and the registry /
        # lifecycle model of THAT host, while the operations on the other hosts and the whole-game steps run on the real game
        if not c.get("peers"):
            return [(name, c)]
        return [(f"{name}@{h}", dict(c, view=h)) for h in [lrig.HOST] + [p_["hostname"] for p_ in c["peers"]]]
    for k, c in enumerate(lrig.enum_load_cases()):
        load_cases += views(f"load-enum:{k}", c)
    lrng = ctx.rng.fork("load")
    for k in range(ctx.scale(140, 3000)):
        load_cases.append((f"load-gen:{k}", lrig.gen_load_case(lrng, max_ops=ctx.scale(20, 36))))
    mrng = ctx.rng.fork("load-multi")
    for k in range(ctx.scale(40, 300)):
        load_cases += views(f"load-multi:{k}", lrig.gen_load_case(mrng, max_ops=ctx.scale(16, 30), multi=True))
    results, lines_all, bounds = [], [], []
    for name, case in load_cases:
        res = lrig.run_load_case(case, guards)
        bounds.append((len(lines_all), len(res["lines"])))
        lines_all += res["lines"] + ["reset"]
        results.append(res)
    model_all = run_driver(EXE, lines_all, timeout=3000)
    lagree = 0
    for (name, case), res, (st, ln) in zip(load_cases, results, bounds):
        if _check_load_case(ctx, name, case, res, model_all[st:st + ln], guards):
            lagree += 1
    ctx.oblige("rig:R-load (scenario -> PrimaiteGame.from_config -> configured durations -> timed transitions) agrees on every trace",
               "correspondence", lagree == len(load_cases), f"{len(load_cases) - lagree} of {len(load_cases)} traces disagree")

    # -- R-recv: two real hosts on a link vs the two-node model (receive path, DNS / NTP payload processing, transport)
    wrng = ctx.rng.fork("world")
    for k in range(ctx.scale(300, 6000)):
        world_cases.append((f"wgen:{k}", wrig.gen_world_case(wrng, max_ops=ctx.scale(28, 45))))
    wagree = 0
    for c0 in range(0, len(world_cases), 1500):
        chunk = world_cases[c0:c0 + 1500]
        results, lines_all, bounds = [], [], []
        for name, case in chunk:
            res = wrig.run_world_case(case, guards)
            bounds.append((len(lines_all), len(res["lines"])))
            lines_all += res["lines"] + ["reset"]
            results.append(res)
        model_all = run_driver(EXE_W, lines_all, timeout=3000)
        for (name, case), res, (st, ln) in zip(chunk, results, bounds):
            if _check_world_case(ctx, name, case, res, model_all[st:st + ln], guards):
                wagree += 1
                if name.startswith("wgen:"):
                    keep = [(q, m) for q, m in zip(res["lines"], model_all[st:st + ln]) if not q.endswith("dump") and "|" in m]
                    ctx.sample({"case": name, "focus": case.get("focus"), "traffic": [f"{q} => {m}" for q, m in keep[:4]]}, cap=6)
    ctx.oblige("rig:R-recv (two hosts, real receive of DNS/NTP classes, real transport) agrees on every trace", "correspondence",
               wagree == len(world_cases), f"{len(world_cases) - wagree} of {len(world_cases)} traces disagree")
    ctx.oblige("model:R-recv the model's transport never ran out of fuel and its interleaved tick equals Node.step tick", "correspondence",
               ctx.hist.get("wmodel:overflow", 0) == 0 and ctx.hist.get("wmodel:tick-mismatch", 0) == 0,
               f"overflow={ctx.hist.get('wmodel:overflow', 0)} tick-mismatch={ctx.hist.get('wmodel:tick-mismatch', 0)}")

    # -- R-conn: IOSoftware.add_connection / terminate_connection on real instances with a small max_sessions vs `Conn`
    crng = ctx.rng.fork("conn")
    conn_cases = [wrig.gen_conn_case(crng) for _ in range(ctx.scale(80, 2000))]
    cres = [wrig.run_conn_case(c) for c in conn_cases]
    lines_all = []
    for r in cres:
        lines_all += r["lines"] + ["reset"]
    model_all = run_driver(EXE_W, lines_all, timeout=3000)
    pos, cagree = 0, 0
    for c, r in zip(conn_cases, cres):
        model = model_all[pos:pos + len(r["lines"])]
        pos += len(r["lines"]) + 1
        ctx.cov["traces_validated_against_impl"] += 1
        ctx.case({"conn": c}, any("OVERWHELMED" in m for m in model))
        ctx.count("conn:type:" + c["type"])
        ctx.count("conn:max:" + str(c["max"]))
        for q, m in zip(r["lines"][1:], model[1:]):
            ctx.count(f"conn:{q.split()[1]}:{m.split()[1]}:{m.split()[-1]}")
        for (i, kind, detail) in r["oracle"][:1]:
            ctx.violation({"kind": kind, "via": "conn"}, f"{kind} after op {i}: {detail}", {"conn_case": c, "oracle": kind})
        if model == r["impl"]:
            cagree += 1
        else:
            j = next((k for k, (a, b) in enumerate(zip(r["impl"], model)) if a != b), min(len(model), len(r["impl"])))
            ctx.violation({"kind": "model-vs-impl", "where": "connections", "op": r["lines"][j].split()[1] if j < len(r["lines"]) else "?"},
                          f"connection bookkeeping differs from the proved model at {r['lines'][j] if j < len(r['lines']) else '?'!r}: "
                          f"impl={r['impl'][j] if j < len(r['impl']) else None!r} model={model[j] if j < len(model) else None!r}",
                          {"conn_case": dict(c, ops=c["ops"][:j]), "from": "conn"})
    ctx.oblige("rig:R-conn (add_connection / terminate_connection) agrees on every trace", "correspondence", cagree == len(conn_cases),
               f"{len(conn_cases) - cagree} of {len(conn_cases)} traces disagree")

    # -- R-bot: the attack loops of DoSBot / DataManipulationBot / RansomwareScript on real instances in every state
    brng = ctx.rng.fork("bot")
    bot_cases = [wrig.gen_bot_case(brng) for _ in range(ctx.scale(240, 4000))]
    bres = [wrig.run_bot_case(c) for c in bot_cases]
    lines_all = [l for r in bres for l in r["lines"]]
    model_all = run_driver(EXE_W, lines_all, timeout=3000) if lines_all else []
    pos, bagree, bcompared = 0, 0, 0
    for c, r in zip(bot_cases, bres):
        ctx.cov["traces_validated_against_impl"] += 1
        ctx.case({"bot": c}, bool(r["acted"]))
        ctx.count(f"bot:{c['kind']}:{r['entry']}:{'may-act' if r['can'] else 'may-not-act'}:{'acted' if r['acted'] else 'idle'}")
        for (kind, detail) in r["oracle"]:
            ctx.violation({"kind": kind, "bot": c["kind"], "entry": r["entry"]}, f"{kind}: {detail}", {"bot_case": c, "oracle": kind})
        if r["lines"]:
            bcompared += 1
            model = model_all[pos:pos + len(r["lines"])]
            pos += len(r["lines"])
            if model == r["impl"]:
                bagree += 1
            else:
                ctx.violation({"kind": "model-vs-impl", "where": "bot-loop", "bot": c["kind"]},
                              f"attack loop of {c['kind']} differs from the proved model: line={r['lines']!r} impl={r['impl']!r} model={model!r}",
                              {"bot_case": c, "from": "bot"})
    ctx.oblige("rig:R-bot (attack loops of the red applications) agrees on every trace", "correspondence", bagree == bcompared,
               f"{bcompared - bagree} of {bcompared} traces disagree")

    # -- R-relay: two real hosts, FTP client / server and C2 server / beacon (and every class with a fully translated `receive`) in
    #    every state; at every real receive() / send() call the TRANSLATED chain is run on the observed environment
    rrig.load_names(run_driver, EXE_W)
    rrng = ctx.rng.fork("relay")
    relay_corpus = [json.loads(f.read_text())["case"] for f in sorted((VERIF / "corpus" / "C13" / "relay").glob("*.json"))]
    relay_cases = relay_corpus + [rrig.gen_relay_case(rrng, max_ops=ctx.scale(24, 40)) for _ in range(ctx.scale(100, 1200))]
    ragree, rcalls, rseen = 0, 0, {}
    for k, case in enumerate(relay_cases):
        res = rrig.run_relay_case(case)
        model = run_driver(EXE_W, res["lines"]) if res["lines"] else []
        ctx.cov["traces_validated_against_impl"] += 1
        ctx.case({"relay": case}, any(not m[2] for m in res["meta"]))
        ctx.count("relay:ops-raised", res["raised"])
        for (cls, meth, can, st, nst), i in zip(res["meta"], res["impl"]):
            rcalls += 1
            ctx.count(f"relay:{cls}.{meth}:{'may-act' if can else 'may-not-act'}:{i.split()[0]}:{'handler' if i.split()[1] != 'effs=-' else 'no-call'}")
        hits = set()
        for (kind, detail, cls) in res["oracle"]:
            sig = {"kind": "not-running-software-acted" if kind == "payload-handled-while-not-running" else kind, "cls": cls, "via": "relay"}
            key = json.dumps(sig, sort_keys=True)
            if key in hits:
                continue
            hits.add(key)
            rseen[key] = rseen.get(key, 0) + 1
            ctx.count("oracle:" + kind)
            if rseen[key] <= 2:
                ctx.violation(sig, f"{kind} in relay:{k}: {detail}", {"relay_case": case, "from": f"relay:{k}", "oracle": kind})
        j = next((q for q, (a, b) in enumerate(zip(res["impl"], model)) if a != b), -1)
        if j < 0 and len(model) == len(res["impl"]):
            ragree += 1
            continue
        cls, meth = res["meta"][j][0], res["meta"][j][1]
        sig = {"kind": "model-vs-impl", "where": "relay", "cls": cls, "meth": meth}
        mode = GOV.admit("relay", sig)
        if mode == "count":
            ctx.count(f"relay:disagree-not-reported:{cls}.{meth}")
            continue
        small = case
        if mode == "shrink":
            def fails(ops):
                try:
                    r2 = rrig.run_relay_case({"ops": ops})
                    return (run_driver(EXE_W, r2["lines"]) if r2["lines"] else []) != r2["impl"]
                except Exception:  # noqa
                    return False
            small = {"ops": GOV.shrink(case["ops"], fails, budget=60)}
        ctx.violation(sig, f"real {cls}.{meth} differs from its TRANSLATED chain run on the observed environment: line={res['lines'][j]!r} "
                           f"impl={res['impl'][j]!r} model={model[j] if j < len(model) else None!r} (state {res['meta'][j][3]}, node {res['meta'][j][4]})",
                      {"relay_case": small, "from": f"relay:{k}"})
    ctx.oblige("rig:R-relay (two hosts; FTP client / server, C2 server / beacon: every real receive / send call vs its translated chain) agrees",
               "correspondence", ragree == len(relay_cases), f"{len(relay_cases) - ragree} of {len(relay_cases)} cases disagree")
    ctx.cov["relay_calls_compared"] = rcalls
    missing = [c for c in rrig.TARGETS for m in ("receive", "send") if (m, c) not in rrig.NAMES]
    ctx.oblige("rig:R-relay the driver carries the translated chains of the FTP and C2 classes", "correspondence", not missing,
               "no translated chain in the driver for " + ", ".join(missing))

    # -- R-c2: one apply_timestep of a real C2Beacon / C2Server in every connection state, and the verdict of _check_connection
    c2rng = ctx.rng.fork("c2")
    c2_cases = [wrig.gen_c2_case(c2rng) for _ in range(ctx.scale(300, 5000))]
    c2res = [wrig.run_c2_case(c) for c in c2_cases]
    model_all = run_driver(EXE_W, [l for r in c2res for l in r["lines"]], timeout=3000)
    pos, c2agree = 0, 0
    for c, r in zip(c2_cases, c2res):
        ctx.cov["traces_validated_against_impl"] += 1
        ctx.case({"c2": c}, bool(r["sent"] or r["closed"]))
        ctx.count(f"c2:{c['kind']}:{'ticking' if r['acts'] else 'idle'}:sent={r['sent']}:closed={r['closed']}")
        ctx.count(f"c2:command-gate:{'open' if r['allowed'] else 'shut'}")
        for (kind, detail) in r["oracle"]:
            ctx.violation({"kind": kind, "c2": c["kind"]}, f"{kind}: {detail}", {"c2_case": c, "oracle": kind})
        model = model_all[pos:pos + len(r["lines"])]
        pos += len(r["lines"])
        if model == r["impl"]:
            c2agree += 1
        else:
            ctx.violation({"kind": "model-vs-impl", "where": "c2-connection", "c2": c["kind"]},
                          f"C2 {c['kind']} connection handling differs from the proved model: lines={r['lines']!r} impl={r['impl']!r} model={model!r}",
                          {"c2_case": c, "from": "c2"})
    ctx.oblige("rig:R-c2 (C2 beacon / server connection state machine) agrees on every trace", "correspondence", c2agree == len(c2_cases),
               f"{len(c2_cases) - c2agree} of {len(c2_cases)} traces disagree")
