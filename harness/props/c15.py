"""C15 — the file system stays structurally consistent under any operation sequence."""
from __future__ import annotations

import json
import multiprocessing
import os
import time
from typing import List

from harness.lib.core import VERIF, Ctx, lean_lock, run_driver, shrink_ops
from harness.extract import filesystem as x_fs
from harness.extract import fsxlate as x_fsm
from harness.extract import filesystem_node as x_fsn
from harness.extract import filesystem_callers as x_fsc
from harness.rigs import filesystem as rig
from harness.rigs import filesystem_callers as crig

MANIFEST = {
    "text": "Lean 4 proof, by induction over arbitrary sequences of file-system requests, agent actions and ticks, that the model of "
            "FileSystem/Folder/File keeps the invariant Inv: live folder names and live file names per folder are unique; every folder "
            "and file sits in exactly one of the live/deleted dictionaries (distinct uuids, no uuid in both) and its `deleted` flag says "
            "which; the name-keyed request routes of every live item lead to that item; the root folder is live. Consequences proved: "
            "describe_state lists exactly the live items and exactly the names of the deleted ones; the counters are zero after "
            "pre_timestep and count the successful creations/deletions since; a request aimed at a deleted or never-created item is "
            "refused and changes nothing (only the explicit restore requests and a completing folder restore bring items back); "
            "creating an existing file or folder is refused or a no-op and nothing raises; no item is ever lost. Tie: request tree, "
            "validators, item verbs, method guards, action request templates and the bodies of create_file/restore_file regenerated "
            "from the source (Gen/FileSystem.lean, obligations C15_gen_*) + differential rig R-fs (bounded-exhaustive, then random) "
            "on the real FileSystem, directly, under a node, and through the agent actions' form_request. Deepened: the Python-API "
            "entry points (create_file(force), copy_file, move_file, add_file(force), delete_*_by_id, remove_file_by_id) are operations "
            "of the model too and keep Inv in any interleaving with requests and ticks — unconditionally since round 3: `no file uuid "
            "in two folders` (XDisj) is proved to be preserved by every request, tick, API call and node-level event, and it implies "
            "the side condition move_file needed (C15_any_inv_reachable_full, C15_file_in_one_folder); Folder.restore_file and "
            "Folder.add_file are translated statement by statement from the source and proved equal to the model; num_access and the "
            "folder scan countdown are carried in a passive ledger compared on every operation; truncated / over-long / misspelt "
            "request paths are answered by the model's total `resolve` and compared. Round 3: the glue between a Node and its file "
            "system is part of the model (Model/FileSystemNode.lean) with the power state as an INPUT flag: Node.pre_timestep resets the "
            "file system in every power state, Node.apply_timestep steps it (and completes the node scan = FileSystem.scan(instant)) "
            "only while ON, requests are refused while not ON. Proved for EVERY power history and every sequence of requests, API "
            "calls, node scans and ticks: the counters are zero after every Node.pre_timestep and that is what the node reports "
            "(C15_counters_start_at_zero); at the end of a tick they are the tally of THAT tick's operations only "
            "(C15_node_counters_count_this_tick, with C15_api_counters_step for the API calls); a node that is not ON is frozen; Inv at "
            "node level. The guard table is regenerated from Node.pre_timestep / apply_timestep / describe_state / the file_system and "
            "os routes, the Simulation -> Network -> node call chain and the list of all writers of the counters (Gen/FileSystemNode.lean, "
            "C15_gen_node_glue / _sites / _counter_writers). The full request table (23 shapes) is regenerated from the three "
            "_init_request_manager methods; for ANY path addressed to a folder or file that is not live, other than the explicit create / "
            "restore requests, the node's whole state incl. every num_access is unchanged and the answer is not success "
            "(C15_path_on_deleted_folder/file_changes_nothing). node-file-create / node-folder-create on a live namesake: refused or "
            "no-op; on a deleted namesake: exactly one new live item, the deleted one untouched; no file/folder action ever answers "
            "with an exception (C15_action_*). Every method of the four classes is classified modelled (and then read by a tie) or "
            "listed unmodelled (C15_gen_method_inventory, C15_modelled_iff_tied). Rig: additional surface `net` = a real Computer in a "
            "small network driven only through sim.pre_timestep / apply_request / apply_timestep with shutdown / startup / reset "
            "requests (durations 0..3) and node scans interleaved with file operations and agent actions in the same tick; the "
            "counters are read from the simulation's describe_state() and through a HostObservation at the start and end of every tick. "
            "Round 4: structural consistency is proved INDEPENDENT OF HEALTH - the item methods of File (restore, delete, scan, repair, "
            "corrupt, check_hash) and Folder (restore, delete, check_hash, _restoring_timestep) are translated statement by statement "
            "onto records that carry the structure together with health_status / visible status / num_access and proved equal to the "
            "structural model for EVERY health value (C15_gen_file_methods, C15_gen_folder_methods, C15_gen_restoring_timestep, "
            "C15_file_methods_ignore_health, C15_restore_clears_flag_for_every_health); the complete table of health-dependent branches "
            "of the four classes is regenerated and none controls a return, the deleted flag, a dictionary or a call "
            "(C15_gen_health_branches); seven more methods (get_file, remove_file, remove_file_by_name, get_folder, delete_file, "
            "restore_file) are tied by translation instead of text. No item is lost across folders and across both layers, move_file "
            "included (GKeeps: C15_no_item_lost_any_run, node level too). The initial state: HostNode.__init__'s create loop is modelled "
            "for every configured folder list (duplicates, files listed twice, names colliding after the extension is appended) - Inv "
            "and one-folder-per-file hold whether the loader completes or raises, and after setup_for_episode both counters are zero "
            "(C15_initial_state; the missing reset was defect F-C15e, fixed). Rig: families H / health (corrupt -> delete -> restore at "
            "file and folder level on every surface, with the number of corrupt-and-deleted items brought back MEASURED on the real "
            "objects) and cfg (real Computer.from_config with generated folder lists, then setup_for_episode). "
            "Round 7: NO method of FileSystem / Folder / File is tied by text any more. Translated statement by statement from the source "
            "and proved equal to the model's functions (Props/C15Create.lean): FileSystem.__init__, get_file, create_folder, create_file "
            "(calling the translated create_folder / get_file / Folder.add_file; under Inv: C15_gen_create_file, and through the handler "
            "C15_gen_create_file_request), pre_timestep, setup_for_episode (C15_gen_counter_resets), access_file, the uuid-keyed API "
            "(get_folder_by_id, delete_file_by_id, delete_folder_by_id, Folder.get_file_by_id, remove_file_by_id), "
            "Folder.remove_all_files, copy_file, move_file (under Inv and one-folder-per-file; folder variables are re-read from the "
            "state after an in-place mutation), apply_timestep of FileSystem and Folder (only LIVE folders tick), describe_state of both "
            "(C15_gen_describe_state = the model's describe, which C15_describe_exact is about), the three handler closures of "
            "_init_request_manager and the five validators (C15_gen_handlers, C15_gen_validators = the model's guards). Methods with "
            "no structural effect (Folder.scan / repair / corrupt / reveal_to_red, _scan_timestep, _reveal_to_red_timestep, "
            "pre_timestep of Folder and File, File.apply_timestep / reveal_to_red, FileSystem.scan / reveal_to_red) are CHECKED to be "
            "structurally inert by the extractor (only whitelisted non-structural attributes written, only whitelisted callees). "
            "The routes of FileSystem._init_request_manager are GENERATED from its add_request calls (validator attributes resolved to the "
            "translated validators, lambdas / closures to the translated methods / handlers) and the model's step for delete / restore / "
            "create / access / pre_timestep / apply_timestep is proved to BE that composition (C15_gen_step_from_translated). "
            "Second shift of round 7: the statement translator reads loops over list displays with starred elements / concatenated "
            "dictionary views / list() / .copy() snapshots (order kept, snapshot vs live view distinguished) and expands private Folder "
            "helpers `self._h(X)` in place, so a refactor of restore_file / _restoring_timestep is TRANSLATED and then either re-proved or "
            "refuted: a counter-model search (Drivers/C15Xlate.lean, Model + Gen only, every folder over three file objects, "
            "Inv-satisfying folders first) prints the folder on which a translated Folder method and the model differ; it proves nothing "
            "and must find nothing when the theorems check. Callers OUTSIDE simulator/file_system are inventoried from every module of "
            "src/primaite (Gen/FileSystemCallers.lean): nobody writes files / deleted_files / folders / deleted_folders / a route manager / "
            "a deleted flag directly (C15_gen_callers_no_direct_dict_write), every method they call is a translated one "
            "(C15_gen_callers_use_translated_methods), the only outside writers of the counters are the two ENCRYPT statements "
            "(C15_gen_callers_counter_writers), the structural methods they use are exactly create_file / create_folder / delete_file / "
            "copy_file (C15_gen_callers_covered) and each of these AS TRANSLATED keeps Inv for every state and argument, hence so does "
            "every sequence of such calls (C15_callers_methods_preserve_inv, C15_callers_any_sequence_preserves_inv); rig family `callers` drives "
            "exactly those callers on a real three-node network (DatabaseService backup / restore_backup / service fix, FTP store and "
            "retrieve onto existing names, ransomware and data-manipulation attacks, C2 folder) interleaved with file requests, folder "
            "restores and ticks and evaluates C15's oracle on every node after every step (no Lean model behind this family: an oracle "
            "only). The `_file_action` closure is read structurally (lookup = the translated get_file on request[0], request[1]; "
            "request[2:] handed to that file's manager) and the model's fsFileVerb step is proved to be that composition "
            "(C15_gen_file_action). Still textual: the rows of the two request-tree tables (fsTree / folderTree: which key hangs under "
            "which manager with which validator expression) and the item-verb registration of FileSystemItemABC (guard table).",
    "note": "C15-specific: health status, red-scan timers, sizes and file types are not modelled (no influence on structure "
            "or response status); no request "
            "path raises (after repair F-C05-2 a handler that lacks an option is answered `failure`: C15_no_request_raises, "
            "C15_truncated_request_changes_nothing for every prefix of the 23 request shapes; the rig treats a raise on ANY path as a "
            "violation); `raised` remains an outcome of direct Python-API calls only; the power "
            "machine is C12's: here the power flag is an input read from the real node, theorems hold for every flag history; the "
            "database service's direct writes to the counters (ENCRYPT query) are listed, not modelled.",
    "technique": "Lean 4 invariant proof over an executable file-system model; model tied by regenerated tables and a differential rig",
    "design_ref": "5/C15",
}
MODULES = ["PrimaiteModel.Props.C15Keeps", "PrimaiteModel.Props.C15Loader", "PrimaiteModel.Props.C15", "PrimaiteModel.Props.C15Api", "PrimaiteModel.Props.C15Node", "PrimaiteModel.Props.C15Verbs",
           "PrimaiteModel.Props.C15Actions", "PrimaiteModel.Props.C15Inventory", "PrimaiteModel.Props.C15Disjoint",
           "PrimaiteModel.Props.C15Health", "PrimaiteModel.Props.C15Create", "PrimaiteModel.Props.C15Callers"]
EXE = "drv_c15"


H = rig.HEAD  # protocol lines before the first operation


def _run_case(case: dict):
    impl, verdicts, flags, _ = rig.run_impl(case)
    return impl, verdicts, rig.model_lines(case, flags)


def _impl_only(case: dict):
    """Implementation side of one case (runs in a worker process; cases are independent and deterministic)."""
    return rig.run_impl(case)


def _align(ci: List[str], cm: List[str]) -> List[str]:
    """A configuration that is refused leaves no node: the implementation's trace ends at its `raised`; the model's answers to the
    operations behind it are not compared (its answer to the `load` itself is)."""
    return cm[:len(ci)] if (ci and ci[-1] == "raised" and len(cm) > len(ci)) else cm


def _diff_case(case: dict):
    impl, verdicts, lines = _run_case(case)
    model = run_driver(EXE, lines)
    ci, cm = rig.canon(impl), rig.canon(model)
    cm = _align(ci, cm)
    i = next((j for j, (a, b) in enumerate(zip(ci, cm)) if a != b), -1)
    bad_oracle = next((j for j, v in enumerate(verdicts) if v), -1)
    return (i == -1 and bad_oracle == -1), ci, cm, i, lines, verdicts, bad_oracle


def _op_sig(op: list) -> dict:
    k = op[0]
    sig = {"op": k}
    if k == "cfile":
        sig["force"] = bool(op[3])
    if k in ("fverb", "xverb", "sverb"):
        sig["verb"] = op[-1]
    if k == "power":
        sig["key"] = op[1]
    return sig


def _callers_only(case: dict):
    """One case of the `callers` family (worker process): real DatabaseService / FTP / ransomware / data-manipulation code on a 3-node network."""
    return crig.run_caller_case(case)


def _report_callers(ctx: Ctx, name: str, case: dict, viol: list):
    def fails(ops, case=case):
        return bool(crig.run_caller_case(dict(case, ops=ops))[1])
    small = dict(case, ops=shrink_ops(case["ops"], fails, budget=60))
    trace, v2 = crig.run_caller_case(small)
    if not v2:
        small, (trace, v2) = case, crig.run_caller_case(case)
    k, op, node, clauses = v2[0]
    sig = {"op": op[0] if op else "setup", "kind": "oracle", "clause": clauses[0], "surface": "callers"}
    ctx.violation(sig, f"C15 oracle fails on the file system of node {node} after op {k} {op} of a callers-outside-the-module trace: {clauses}",
                  {"case": small, "trace": trace, "violations": [list(x) for x in v2], "from": name})


def replay(rec: dict) -> bool:
    if rec["replay"]["case"].get("surface") == "callers":
        return not crig.run_caller_case(rec["replay"]["case"])[1]
    with lean_lock():
        from harness.lib.core import lake_build
        lake_build([EXE])
    ok, *_ = _diff_case(rec["replay"]["case"])
    return ok


def _report(ctx: Ctx, name: str, case: dict):
    """A case on which the implementation disagrees with the proved model or fails C15's own oracle: shrink and report."""
    def fails(ops, case=case):
        if case["surface"] == "cfg" and (not ops or ops[0][0] != "load" or any(o[0] == "load" for o in ops[1:])):
            return False  # a configured host starts with its `load`
        ok, *_ = _diff_case(dict(case, ops=ops))
        return not ok
    small = dict(case, ops=shrink_ops(case["ops"], fails, budget=120))
    ok, ci, cm, i, lines, verdicts, bo = _diff_case(small)
    if ok:
        small = case
        ok, ci, cm, i, lines, verdicts, bo = _diff_case(small)
    if bo != -1 and (i == -1 or bo <= i - H):
        op = small["ops"][bo]
        sig = dict(_op_sig(op), kind="oracle", clause=verdicts[bo][0], surface=small["surface"])
        what = f"C15 oracle fails on the implementation after op {bo} {op}: {verdicts[bo]}"
    else:
        op = small["ops"][i - H] if i >= H else ["?"]
        sig = dict(_op_sig(op), kind="model-vs-impl", surface=small["surface"],
                   field="status" if ci[i].split(" | ")[0] != cm[i].split(" | ")[0] else "state")
        what = (f"file system differs from the proved model at op {i - H} {op}: impl={ci[i]!r} model={cm[i]!r}")
    ctx.violation(sig, what, {"case": small, "lines": lines, "impl": ci, "model": cm, "first_diff": i, "oracle": verdicts, "from": name})


def run(ctx: Ctx):
    with lean_lock():
        ctx.extract(x_fs.GEN_NAME, x_fs.emit)
        ctx.extract(x_fsm.GEN_NAME, x_fsm.emit)
        ctx.extract(x_fsn.GEN_NAME, x_fsn.emit)
        ctx.extract(x_fsc.GEN_NAME, x_fsc.emit)
        ctx.prove(MODULES, exes=[EXE], clean=False, leanchecker=ctx.thorough)
        # counter-model search for the translated Folder methods: turns a broken `C15_gen_restore_file / _add_file / _restoring_timestep /
        # _lookups` proof into a readable folder (it proves nothing; when the theorems check it must find nothing). It needs Model + Gen only.
        XNAME = "model:translated Folder methods agree with the model on every small folder (counter-model search)"
        try:
            import subprocess
            from harness.lib.core import LEAN, lake_build
            okb, outb = lake_build(["drv_c15xlate"])
            if okb:
                res = subprocess.run([str(LEAN / ".lake" / "build" / "bin" / "drv_c15xlate")], stdout=subprocess.PIPE, text=True, timeout=600)
                found = [l for l in res.stdout.splitlines() if " counter-model " in l]
                tried = [l for l in res.stdout.splitlines() if " ok " in l]
                ctx.oblige(XNAME, "correspondence", not found and len(tried) == 6, " || ".join(found)[:3000] or res.stdout[:500])
                for l in found:
                    ctx.notes.append("REFUTED — counter-model of a translated Folder method: " + l[:1500])
                ctx.count("counter-model-search:methods-agreeing", len(tried))
                ctx.count("counter-model-search:methods-refuted", len(found))
            else:
                ctx.oblige(XNAME, "correspondence", False, "drv_c15xlate does not build (the translation was refused or does not elaborate): " + outb[-600:])
        except Exception as e:
            ctx.oblige(XNAME, "correspondence", False, f"{type(e).__name__}: {e}")
    ctx.cov["rule"] = ("case = (surface in {FileSystem.apply_request, Simulation.apply_request under a node, agent-action form_request, "
                       "`net` = a computer in a small network driven through sim.pre_timestep/apply_request/apply_timestep with power "
                       "requests, node scans and start-up/shut-down durations 0..3}, "
                       "folder restore duration in {None,0,1,2,3}, operation sequence); after EVERY operation the response status and the "
                       "whole structure (dictionaries in order, flags, countdowns, routes, counters) are compared with the model and "
                       "C15's own oracle is evaluated on the real objects; a case is non-trivial when at some point an item is in a "
                       "deleted set and some request is refused or unreachable; distinct by canonical JSON")
    def all_cases():
        for f in sorted((VERIF / "corpus" / "C15").glob("*.json")):
            yield "corpus:" + f.name, json.loads(f.read_text())["case"]
        # bounded-exhaustive families
        fams = [("A", rig.core_alphabet(), ctx.scale(4, 5)), ("B", rig.full_alphabet(), ctx.scale(2, 3)),
                ("A7", rig.core_alphabet()[:7], ctx.scale(5, 6))]
        for fam, alpha, depth in fams:
            ctx.count(f"exhaustive:{fam}:alphabet={len(alpha)}:depth={depth}", len(alpha) ** depth)
            for k, ops in enumerate(rig.exhaustive(alpha, depth)):
                yield f"exh{fam}{depth}:{k}", {"surface": "fs", "restore_duration": 1 if fam != "B" else None, "ops": ops}
        # state-graph families: every operation out of every distinct model state reachable within `depth - 1` operations
        for fam, alpha, depth, rd in (("GA", rig.core_alphabet(), ctx.scale(6, 8), 1), ("GB", rig.full_alphabet(), ctx.scale(3, 4), None)):
            stats: dict = {}
            for k, ops in enumerate(rig.graph_cases(alpha, depth, rd, lambda ls: run_driver(EXE, ls), stats)):
                yield f"graph{fam}{depth}:{k}", {"surface": "fs", "restore_duration": rd, "ops": ops}
            for d, st in stats.items():
                ctx.count(f"graph:{fam}:alphabet={len(alpha)}:depth={d}:transitions", st["transitions"])
                ctx.count(f"graph:{fam}:alphabet={len(alpha)}:depth={d}:states_so_far", st["states_so_far"])
        depth = ctx.scale(3, 4)
        ctx.count(f"exhaustive:C:alphabet={len(rig.api_alphabet())}:depth={depth}", len(rig.api_alphabet()) ** depth)
        for k, ops in enumerate(rig.exhaustive(rig.api_alphabet(), depth)):
            yield f"exhC{depth}:{k}", {"surface": "fs", "restore_duration": 1, "ops": ops}
        rng = ctx.rng.fork("fs")
        for k in range(ctx.scale(1300, 30000)):
            yield f"gen:{k}", rig.gen_case(rng, max_ops=ctx.scale(30, 60))
        rng2 = ctx.rng.fork("fs-api")
        for k in range(ctx.scale(1300, 15000)):
            yield f"genapi:{k}", rig.gen_case(rng2, max_ops=ctx.scale(30, 60), api=True)
        rng3 = ctx.rng.fork("fs-churn")
        for k in range(ctx.scale(1000, 10000)):
            yield f"churn:{k}", rig.gen_churn_case(rng3)
        # health x deletion: corrupt -> delete -> restore at file and folder level, on every surface
        depth = ctx.scale(4, 5)
        ctx.count(f"exhaustive:H:alphabet={len(rig.health_alphabet())}:depth={depth}", len(rig.health_alphabet()) ** depth)
        for k, ops in enumerate(rig.exhaustive(rig.health_alphabet(), depth)):
            yield f"exhH{depth}:{k}", {"surface": ("fs", "action", "node")[k % 3], "restore_duration": 1,
                                      "ops": [["cfile", "fa", "a", False]] + ops}
        # folder delete / restore against a running (or frozen) restore countdown, default duration 3
        depth = ctx.scale(5, 7)
        ctx.count(f"exhaustive:R:alphabet={len(rig.folder_restore_alphabet())}:depth={depth}", len(rig.folder_restore_alphabet()) ** depth)
        for k, ops in enumerate(rig.exhaustive(rig.folder_restore_alphabet(), depth)):
            yield f"exhR{depth}:{k}", {"surface": ("fs", "node")[k % 2], "restore_duration": 3 if k % 4 < 2 else 2,
                                      "ops": [["cfile", "fa", "a", False]] + ops}
        rng5 = ctx.rng.fork("fs-health")
        for k in range(ctx.scale(500, 10000)):
            yield f"health:{k}", rig.gen_health_case(rng5, max_ops=ctx.scale(24, 40))
        # the configured initial state: HostNode.__init__ over generated folder lists, then setup_for_episode
        rng6 = ctx.rng.fork("fs-cfg")
        for k in range(ctx.scale(350, 5000)):
            yield f"cfg:{k}", rig.gen_cfg_case(rng6)
        # node level: a real computer in a small network, power requests interleaved with file operations
        depth = ctx.scale(3, 4)
        for c, cfg in enumerate(rig.node_configs()):
            ctx.count(f"exhaustive:N:alphabet={len(rig.node_alphabet())}:depth={depth}:up={cfg['up']}:down={cfg['down']}",
                      len(rig.node_alphabet()) ** depth)
            for k, ops in enumerate(rig.exhaustive(rig.node_alphabet(), depth)):
                yield f"exhN{depth}:{c}:{k}", {"surface": "net", "restore_duration": 1, "node": dict(cfg, actions=bool(k % 2)), "ops": ops}
        rng4 = ctx.rng.fork("fs-net")
        for k in range(ctx.scale(600, 6000)):
            yield f"net:{k}", rig.gen_net_case(rng4, max_ticks=ctx.scale(10, 14))

    state = {"agree": 0, "total": 0, "reported": 0, "t_impl": 0.0, "t_model": 0.0, "actions": set()}

    # the implementation side of a chunk is spread over a few forked workers (the machine is shared: at most 3 + this process)
    workers = max(1, min(3, int(os.environ.get("C15_WORKERS", "3")), (os.cpu_count() or 2) - 1))
    pool = multiprocessing.get_context("fork").Pool(workers) if workers > 1 else None
    ctx.notes.append(f"implementation side run by {workers} worker process(es)")

    def process(cases):
        # implementation side, then ONE driver run per chunk
        t0 = time.time()
        impl_all, verd_all, lines_all, bounds = [], [], [], []
        only = [c for _, c in cases]
        results = pool.map(_impl_only, only, chunksize=max(1, min(250, len(only) // (workers * 4) + 1))) if pool else map(_impl_only, only)
        for (name, case), (impl, verdicts, flags, stats) in zip(cases, results):
            for key, n in stats.items():
                ctx.count(key, n)
            lines = rig.model_lines(case, flags)
            bounds.append((len(lines_all), len(lines)))
            lines_all += lines
            impl_all.append(impl)
            verd_all.append(verdicts)
        t1 = time.time()
        model_all = run_driver(EXE, lines_all)
        state["t_impl"] += t1 - t0
        state["t_model"] += time.time() - t1
        for (name, case), impl, verdicts, (st, ln) in zip(cases, impl_all, verd_all, bounds):
            model = model_all[st:st + ln]
            if any(m == "bad-op" for m in model):
                raise RuntimeError(f"driver rejected a line of {name}: {lines_all[st:st + ln]}")
            ctx.cov["traces_validated_against_impl"] += 1
            state["total"] += 1
            ci, cm = rig.canon(impl), rig.canon(model)
            cm = _align(ci, cm)
            statuses = [m.split(" | ")[0] for m in cm[H:]]
            has_deleted = any(":1:" in m or ":1)" in m or ":1," in m for m in cm[H:])
            ctx.case(case, has_deleted and any(s in ("failure", "unreachable") for s in statuses))
            ctx.count("surface:" + case["surface"])
            n = len(case["ops"])
            ctx.count("len:" + ("1-5" if n <= 5 else "6-15" if n <= 15 else "16-30" if n <= 30 else "31+"))
            via_actions = case["surface"] == "action" or bool((case.get("node") or {}).get("actions"))
            for op, s in zip(case["ops"], statuses):
                ctx.count("op:" + op[0])
                ctx.count(f"answer:{op[0]}:{s}")
                act = rig.action_for(op) if via_actions else None
                if act is not None:
                    ctx.count(f"action:{act[0]}:{s}")
                    state["actions"].add(act[0])
            if ci == cm and not any(verdicts):
                state["agree"] += 1
                if name.startswith("gen"):
                    ctx.sample({"case": name, "surface": case["surface"], "lines": lines_all[st + H:st + H + 8], "answers": cm[H:H + 8]}, cap=3)
                continue
            if state["reported"] < 5:  # shrink and report the first few; the rest are counted
                state["reported"] += 1
                _report(ctx, name, case)

    chunk = []
    for item in all_cases():
        chunk.append(item)
        if len(chunk) >= 20000:
            process(chunk)
            chunk = []
    if chunk:
        process(chunk)
    # family `callers`: the code OUTSIDE simulator/file_system that reaches a file system through the Python API (inventory:
    # Gen/FileSystemCallers.lean) — DatabaseService backup / restore_backup (service fix), FTP store / retrieve onto existing names,
    # ransomware and data-manipulation attacks, C2 exfiltration folder — interleaved with file requests, folder restores and ticks on a
    # real three-node network; C15's oracle (Inv + describe_state exact) is evaluated on every node's file system after every step.
    t0 = time.time()
    ccases = [(f"callers-fixed:{k}", c) for k, c in enumerate(crig.fixed_caller_cases())]
    rngc = ctx.rng.fork("fs-callers")
    ccases += [(f"callers:{k}", crig.gen_caller_case(rngc)) for k in range(ctx.scale(250, 4000))]
    cres = pool.map(_callers_only, [c for _, c in ccases], chunksize=20) if pool else list(map(_callers_only, [c for _, c in ccases]))
    cbad = 0
    for (name, case), (trace, viol) in zip(ccases, cres):
        ctx.cov["traces_validated_against_impl"] += 1
        ctx.case(case, any(o[0] in ("db_restore", "db_fix", "ftp_send", "ransom", "data_manip") for o in case["ops"]))
        ctx.count("surface:callers")
        for o, t in zip(case["ops"], trace[-len(case["ops"]):] if case["ops"] else []):
            ctx.count("op:callers:" + o[0])
            ctx.count(f"answer:callers:{o[0]}:{str(t).split(' ')[-1][:24]}")
        if viol:
            cbad += 1
            if cbad <= 2:
                _report_callers(ctx, name, case, viol)
    ctx.notes.append(f"callers family: {len(ccases)} traces in {time.time() - t0:.1f}s")
    ctx.oblige("rig:callers outside the module keep Inv and describe_state exact on every trace", "correspondence", cbad == 0,
               f"{cbad} of {len(ccases)} traces violate the oracle")
    if pool:
        pool.close()
        pool.join()
    registered = rig.registered_file_actions()
    ctx.oblige("rig:every registered file/folder action is driven through form_request", "correspondence",
               registered == state["actions"], f"registered {sorted(registered)}; driven {sorted(state['actions'])}")
    ctx.notes.append(f"implementation side {state['t_impl']:.1f}s, model side {state['t_model']:.1f}s")
    ctx.oblige("rig:R-fs agrees on every trace and the oracle holds", "correspondence", state["agree"] == state["total"],
               f"{state['total'] - state['agree']} of {state['total']} traces disagree")
