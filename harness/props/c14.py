"""C14 — visible health changes only by scanning; fixes and scans take their set time."""
from __future__ import annotations

import json
import os
from typing import Dict, List, Tuple

from harness.lib.core import VERIF, Ctx, lean_lock, run_driver, shrink_ops
from harness.extract import health as x_health
from harness.extract import health_scan_tr as x_scan
from harness.rigs import health as rig
from harness.rigs import health_game as grig
from harness.rigs import health_gamestep as gsrig

MANIFEST = {
    "text": "Lean 4 proof over an executable model of one node's health bookkeeping (software actual/visible/fix countdown, "
            "service/application lifecycle guards, files, folders with scan/restore countdowns, whole-node scan, node power FSM), "
            "for every state and every operation (and, for the timing and shadow theorems, every operation sequence by induction): "
            "a software item's or file's visible health changes in a step only if a scan covering it completes in that step and then "
            "equals its actual health at that moment - by position and, for base operations, BY NAME as describe_state() shows it "
            "(C14_view_sw; C14_view_file under unique names); a folder's visible health changes only when a timed or whole-node scan "
            "of it completes; actual health of software, files AND folders changes only through the enumerated writers "
            "(attack/external write, accepted fix, first start/run, repair/restore/corrupt requests, and the timed completion of fix, "
            "install, folder scan, folder restore); a fix ends GOOD at exactly the max(1,d)-th timestep that reaches the item, in "
            "EVERY operating state of its service/application (timer table C14_timer_*: fix counts iff the node is ON; an "
            "installation iff ON and INSTALLING; folder timers iff ON and the folder not deleted; node scan iff ON), an installation "
            "ends RUNNING/GOOD at exactly the max(1,d)-th such timestep for EVERY continuation (C14_install_exact), a folder "
            "scan/restore at exactly the max(1,d)-th timestep of a live folder on a powered-on node, a whole-node scan fans out at "
            "exactly the max(1,d)-th such timestep after the last request. A file replaced by DatabaseService.restore_backup keeps, "
            "under its name, the visible health the replaced file showed (C14_view_db_restore; new folder when the database folder "
            "was deleted); the restore that a completing database fix runs INSIDE a timestep is modelled (DOp.tickDb) and proved "
            "phase-wise. Tie: enums, defaults, countdown idioms, tick order, request guard tables regenerated from the source "
            "(obligations C14_gen_*), plus the STRUCTURED INVENTORY of every write of a health / visibility / countdown field in the "
            "whole tree (80 rows: file, function, field, kind, value, guard), of every call site of a writer method (45 rows) and "
            "of every apply_timestep body on the path simulation -> item, each row paired with the model event that stands for it "
            "(C14_gen_inventory, C14_gen_triggers, C14_gen_tick_bodies; theorems C14_inv_* state the property against that table) "
            "+ differential rig R-health (real Node of every kind in a Simulation, requests and ticks, whole state AND the by-name "
            "describe_state view diffed after every operation) + an implementation-only oracle for the statement's clauses. "
            "What the agent is SHOWN for a folder is in the model too (Model/HealthObs.lean, Props/C14Obs.lean): the refresh flag "
            "_scanned_this_step is a field of the model's folder, set in-line by the two completing scans, cleared by pre_timestep "
            "(live folders only, whatever the power state); FolderObservation.observe (flag set -> visible_status, else the cached "
            "value; absent folder -> 0, cache kept) and the order of PrimaiteGame.step (pre_timestep; requests; apply_timestep; "
            "observe) are modelled, and C14_obs_faithful proves for EVERY game (any request lists per step, any number of steps, "
            "deletions and restores of the folder included) that the value the observation reports after each step is the folder's "
            "visible_health_status of that moment - so the visible-only-by-scan theorems speak about the value the agent really gets; "
            "C14_flag_iff_scan_completes: after pre_timestep; apply_timestep the flag of a live folder is set iff a scan of it "
            "completed in that timestep. Tie: C14_gen_folder_observe_truth (the extractor executes observe symbolically for all 32 "
            "valuations of its Boolean inputs; the table equals the model's observer on probe values - independent of the shape of "
            "the control flow), C14_gen_folder_observe (the state-dictionary entries it reads), "
            "C14_gen_pre_chain (pre_timestep path game -> folder, live folders only, unguarded; order of the game step), the flag's "
            "writers in the inventory paired with model events; the rig runs one REAL FolderObservation per folder name after every "
            "timestep (one with, one without requires_scan) and diffs flag, reported and cached value (family game-order: every 2-step (thorough 3-step) game over 13 "
            "request lists x durations, enumerated). The fix timing theorems are lifted over the dynamic operations BY NAME "
            "(Props/C14DynTime.lean: C14_dyn_fix_not_early / _completes_on_time / _exact and C14_dyn_install_not_early / _request / _exact "
            "over installs, uninstalls of other items, file-system creation, copies, database restores and tickDb). Finding F-C14-4 "
            "(fixed): the folder observation showed a deleted namesake's cached health for a newly created folder; the repaired "
            "observer (cache tied to the folder's uuid) is what the model follows (FolderObs.cachedId).",
    "note": "C14-specific: items are addressed by name. The item set is dynamic (Model/HealthDyn.lean, Props/C14Dyn.lean: "
            "application install/uninstall requests, SoftwareManager.install/uninstall, create folder/file requests, copy_file, "
            "the database restore) - structural operations leave surviving items untouched and new items start unscanned or "
            "inherit the visible value of the same-named file they copy/replace (StructOk; the ACTUAL health of a restored copy is "
            "an input: whatever the backup server delivered). What the network does in a restore (leftover download cleared? copy "
            "arrived, how healthy?) is observed on the implementation and given to the model as input; the service's GOOD after a "
            "successful Python-API restore is described by the rig as an external write. Where two items of one parent share a name "
            "(created over a deleted one) the by-name restore operations of the model are not the code's first-match semantics: the "
            "rig ends the comparison of that trace there (counted) and relies on the identity-based implementation oracle. The fix "
            "and installation timing theorems are lifted over install/uninstall/tickDb steps by name (round 7: C14_dyn_fix_exact, "
            "C14_dyn_install_exact from the install REQUEST on); round 7c: the folder-scan, folder-restore and node-scan timing theorems "
            "are lifted over every List DOp as well (C14_dyn_node_scan_exact; C14_dyn_folder_scan_exact / C14_dyn_folder_restore_exact "
            "BY POSITION - dynamic operations only append folders, C14_dyn_struct_pos; when the completing timestep is a tickDb only "
            "the countdown reaching 0 is stated, the full conclusion for a plain timestep). The SCAN PATH is TRANSLATED statement "
            "by statement from the source (extract/health_scan_tr.py -> Gen/HealthScan.lean: Software.scan, File.scan, Folder.scan, "
            "Folder._scan_timestep, FileSystem.scan, Node.scan, the node-scan block of Node.apply_timestep) and proved EQUAL to the "
            "model functions for every state (Props/C14GenScan.lean: C14_gen_sw_scan, C14_gen_file_scan, C14_gen_folder_scan, "
            "C14_gen_folder_scan_timestep, C14_gen_fs_scan, C14_gen_node_scan_request, C14_gen_node_scan_block; C14g_refuted keeps the "
            "counter-model of the blind change C14-g - a folder with its own timed scan pending when a whole-node scan completes); the "
            "inventory no longer compares the guard TEXT of those methods (tied semantically by the translation). Game layer: "
            "family game-step drives the REAL PrimaiteGame.step() (PrimaiteGame.from_config, two real ProxyAgents with and without "
            "file_system_requires_scan, actions stored with store_action, folder delete / restore through two rig-registered actions) "
            "and diffs every step against the model driver (whole dump, flag, reported / cached folder value, file values in the "
            "observations): every 2-step game over 13 action pairs x node scan {1,2} x folder scan {1,2} (676), thorough + 1 500 sampled "
            "3-step games; while the host is not ON HostObservation shows its default observation - that gate is applied by the rig, "
            "not modelled. "
            "PrimaiteGymEnv episodes on shipped and generated scenarios are checked by the identity-based oracle, not by the model. "
            "The node's reveal-to-red countdown (top-level `scan` request) is modelled because it shares a block of the timestep with "
            "the whole-node scan: C14_red_scan_independent - whatever stands on it, every operation leaves all health state as it "
            "would otherwise (so both scans completing in one timestep cannot lose the fan-out); rig family `simultaneous`: every "
            "ordered pair of timed processes completing one timestep apart / together. revealed_to_red and the folders' "
            "red_scan_countdown are inventoried but not modelled (not C14 observables). FolderObservation is modelled for one folder "
            "name under unique folder names and base operations (a folder created over a deleted namesake is compared by the rig, "
            "not covered by C14_obs_faithful); FileObservation / ServiceObservation / ApplicationObservation read visible_status / "
            "health_state_visible directly (no cache) and are covered by the by-name view theorems.",
    "technique": "Lean 4 theorems over an executable health model; model tied by regenerated tables and a differential rig",
    "design_ref": "5/C14",
}
MODULES = ["PrimaiteModel.Lemmas.HealthEff", "PrimaiteModel.Props.C14", "PrimaiteModel.Props.C14Gen", "PrimaiteModel.Props.C14Dyn",
           "PrimaiteModel.Props.C14Inv", "PrimaiteModel.Props.C14Life", "PrimaiteModel.Props.C14Obs",
           "PrimaiteModel.Props.C14DynTime", "PrimaiteModel.Props.C14GenScan"]
EXE = "drv_c14"


# ------------------------------------------------------------------------------------------ diffing
def _tokens(line: str) -> List[Tuple[str, str]]:
    """(field class, token) pairs of a `resp | dump` line."""
    if " | " not in line:
        return [("resp", line)]
    resp, dump = line.split(" | ", 1)
    out = [("resp", resp)]
    try:
        dump, view = dump.split(" V=", 1)
        view, _, obs = view.partition(" O=")
        p, rest = dump.split(" S=", 1)
        s, f = rest.split(" F=", 1)
    except ValueError:
        return out + [("dump", dump)]
    for name, tok in zip(("power", "startCd", "shutCd", "resetting", "node-scanCd", "node-redScanCd"), p[2:].split(",")):
        out.append((name, tok))
    for item in s.split():
        parts = item.split(":")
        for name, tok in zip(("sw-name", "sw-op", "sw-actual", "sw-visible", "sw-fixCd", "sw-auxCd"), parts):
            out.append((name, parts[0] + "=" + tok))
    for item in f.split():
        head, _, files = item.partition("[")
        parts = head.split(":")
        for name, tok in zip(("folder-name", "folder-deleted", "folder-actual", "folder-visible", "folder-scanCd", "folder-restoreCd",
                              "folder-scanned-this-step"), parts):
            out.append((name, parts[0] + "=" + tok))
        for fi in files.rstrip("]").split(","):
            if not fi:
                continue
            fp = fi.split(":")
            for name, tok in zip(("file-name", "file-actual", "file-visible", "file-deleted"), fp):
                out.append((name, parts[0] + "/" + fp[0] + "=" + tok))
    # what the agent sees by name (describe_state)
    vsw, _, vfs = view.partition(";")
    out.append(("view-software", vsw))
    out.append(("view-file-system", vfs))
    # what each FolderObservation reported at the last timestep / has cached
    for item in obs.split(","):
        if item:
            out.append(("folder-observation", item))
    return out


def regroup(model: List[str], sizes: List[int]) -> List[str]:
    """one model answer per implementation operation: the last line of the operation's group; a group that is described by
    several model lines (Python-API composite) answers `ok`; an `ambiguous` anywhere in the group makes the group ambiguous"""
    out, k = [], 0
    for n in sizes:
        g = model[k:k + n]
        k += n
        if any(x == "ambiguous" or x == "bad-op" for x in g):
            out.append("ambiguous" if "ambiguous" in g else "bad-op")
        elif n == 1:
            out.append(g[0])
        else:
            out.append("ok | " + g[-1].split(" | ", 1)[1])
    return out


def first_diff(impl: List[str], model: List[str]) -> Tuple[int, str, str, str]:
    for i, (a, b) in enumerate(zip(impl, model)):
        if b == "ambiguous":
            # by-name restore where two items share a name: the model does not describe the code there (see Model/HealthDyn.lean);
            # the comparison of this trace ends here (the implementation-only oracle has covered the whole trace)
            return -1, "", "", ""
        if a != b:
            ta, tb = _tokens(a), _tokens(b)
            for (fa, xa), (fb, xb) in zip(ta, tb):
                if xa != xb:
                    return i, fa, xa, xb
            return i, "shape", a[:80], b[:80]
    if len(impl) != len(model):
        return min(len(impl), len(model)), "length", str(len(impl)), str(len(model))
    return -1, "", "", ""


def _events(lines: List[str], ops: List[List[str]]) -> List[str]:
    """coarse branch tags of a trace, from the model's own answers"""
    tags = set()
    prev = None
    for op, line in zip(ops, lines):
        toks = dict()
        for k, v in _tokens(line):
            toks.setdefault(k, []).append(v)
        if toks.get("resp", [""])[0] in ("failure", "unreachable"):
            tags.add("refused:" + op[0])
        if prev is not None:
            for k in ("sw-visible", "file-visible", "folder-visible"):
                if toks.get(k) != prev.get(k):
                    tags.add(("scan-request:" if op[0] != "tick" else "scan-in-tick:") + k)
            if op[0] == "tick":
                for a, b in zip(prev.get("sw-actual", []), toks.get("sw-actual", [])):
                    if a.endswith("=FIXING") and b.endswith("=GOOD"):
                        tags.add("fix-complete")
                for a, b in zip(prev.get("folder-scanCd", []), toks.get("folder-scanCd", [])):
                    if a.endswith("=1") and b.endswith("=0"):
                        tags.add("folder-scan-complete")
                for a, b in zip(prev.get("folder-restoreCd", []), toks.get("folder-restoreCd", [])):
                    if a.endswith("=1") and b.endswith("=0"):
                        tags.add("folder-restore-complete")
                if prev.get("node-scanCd") == ["1"] and toks.get("node-scanCd") == ["0"]:
                    tags.add("node-scan-fires")
                if prev.get("power") != ["ON"] and any(x.endswith("=FIXING") for x in prev.get("sw-actual", [])):
                    tags.add("tick-while-not-on-during-fix")
            if prev.get("power") != toks.get("power"):
                tags.add("power:" + toks["power"][0])
        prev = toks
    return sorted(tags)


# ------------------------------------------------------------------------------------------ running
def _impl_worker(case: dict):
    try:
        return rig.run_impl(case)
    except Exception as e:  # the machinery (or construction of the scenario) failed, not an operation
        return ([], [f"setup-raised:{type(e).__name__}:{e}"], [], None)


def _run_impl_all(cases: List[dict], procs: int):
    if procs <= 1 or len(cases) < 200:
        return [_impl_worker(c) for c in cases]
    import multiprocessing as mp
    import primaite  # noqa: F401  (import before forking so that the workers share it)
    with mp.get_context("fork").Pool(procs) as pool:
        return pool.map(_impl_worker, cases, chunksize=50)


def _diff_case(case: dict):
    setup, impl, complaints, resolved = _impl_worker(case)
    if not setup:
        return False, impl, [], (0, "setup", impl[0] if impl else "?", ""), complaints
    out = run_driver(EXE, rig.model_lines(setup, case, resolved))
    model = regroup(out[len(setup):], rig.group_sizes(case, resolved))
    i, field, a, b = first_diff(impl, model)
    return i < 0 and not complaints, impl, model, (i, field, a, b), complaints


def replay(rec: dict) -> bool:
    with lean_lock():
        from harness.lib.core import lake_build
        lake_build([EXE])
    r = rec["replay"]
    if "case" in r:
        ok, *_ = _diff_case(r["case"])
        return ok
    if r.get("oracle") == "timing":
        return not rig.timing_oracle(durs=(r["d"],))
    if r.get("oracle") == "db-restore":
        return not rig.db_restore_oracle()
    if r.get("oracle") == "game-step":
        return not gsrig.run_case(r["gcase"])
    if r.get("oracle") == "game":
        return False  # episodes are regenerated from the seed; re-run the check with the same VERIF_SEED
    return False


def run(ctx: Ctx):
    with lean_lock():
        ctx.extract("Health", x_health.emit)
        ctx.extract("HealthScan", x_scan.emit)   # the scan path, translated statement by statement (Props/C14GenScan.lean)
        ctx.prove(MODULES, exes=[EXE], clean=False, leanchecker=ctx.thorough)
    ctx.cov["rule"] = ("case = (node durations, installed software with durations/start health, folders/files, operation sequence over "
                       "requests, ticks, power events and the Python-API stand-ins for external writers); the implementation's response "
                       "and whole health-relevant state are diffed against the model after EVERY operation; a case is non-trivial when "
                       "its trace hits at least one of: a visible value changing, a fix / folder scan / folder restore / node scan "
                       "completing, a refused request, a power transition; distinct by canonical JSON of the case")
    cases: List[Tuple[str, dict]] = []
    for f in sorted((VERIF / "corpus" / "C14").glob("*.json")):
        cases.append(("corpus:" + f.name, json.loads(f.read_text())["case"]))
    # bounded-exhaustive family
    depth = ctx.scale(2, 3)
    for k, c in enumerate(rig.exhaustive_cases(depth)):
        cases.append((f"exh{depth}:{k}", c))
    sdepth = ctx.scale(3, 5)
    for k, c in enumerate(rig.exhaustive_cases(sdepth, durs=ctx.scale((0, 1, 2), (0, 2)), small=True)):
        cases.append((f"exh{sdepth}s:{k}", c))
    # seeded random
    rng = ctx.rng.fork("health")
    for k in range(ctx.scale(1500, 12000)):
        cases.append((f"gen:{k}", rig.gen_case(rng, max_ops=ctx.scale(40, 70))))

    # enumerated timelines: a fix that is interrupted / repeated; a folder scan and a node scan in flight together
    for k, c in enumerate(rig.interrupted_fix_cases(durs=ctx.scale((2, 3, 4), (1, 2, 3, 4, 6)))):
        cases.append((f"ifix:{k}", c))
    for k, c in enumerate(rig.overlap_scan_cases(durs=ctx.scale((0, 1, 2, 6), (0, 1, 2, 3, 6)))):
        cases.append((f"oscan:{k}", c))
    # every timed process x every lifecycle / power disturbance x every offset (enumerated)
    for k, c in enumerate(rig.lifecycle_timer_cases(durs=ctx.scale((1, 2, 3), (0, 1, 2, 3, 5)))):
        cases.append((f"lct:{k}", c))
    # every ordered pair of timed processes of one node completing one timestep apart / in the same timestep (enumerated)
    for k, c in enumerate(rig.simultaneous_cases(durs_a=ctx.scale((1, 2, 3), (1, 2, 3, 4)), durs_b=ctx.scale((1, 2), (1, 2, 3)))):
        cases.append((f"sim:{k}", c))
        ctx.count(f"simultaneous:delta={c['delta']}")
    # deleted items of one name in every deletion order, then a restore by name (enumerated)
    for k, c in enumerate(rig.twin_restore_cases()):
        cases.append((f"twin:{k}", c))
    # the order of a game step (pre_timestep; requests; apply_timestep; observe): refresh flag and FolderObservation (enumerated)
    for k, c in enumerate(rig.game_order_cases(ctx.rng.fork("game-order"), depth=ctx.scale(2, 3), nrandom=ctx.scale(200, 1500))):
        cases.append((f"gord:{k}", c))
    # the fix of a database service whose completion restores the backup inside a timestep (enumerated)
    for k, c in enumerate(rig.db_fix_cases(durs=ctx.scale((0, 1, 3), (0, 1, 2, 3, 5)))):
        cases.append((f"dbfix:{k}", c))
    # dynamic item sets: install / uninstall, create folder / file (also over deleted names), copy; database restore
    drng = ctx.rng.fork("dyn")
    for k in range(ctx.scale(500, 5000)):
        cases.append((f"dyn:{k}", rig.gen_dyn_case(drng, max_ops=ctx.scale(35, 60))))
    dbrng = ctx.rng.fork("db")
    for k in range(ctx.scale(60, 600)):
        cases.append((f"db:{k}", rig.gen_db_case(dbrng, max_ops=ctx.scale(25, 40))))

    # nodes of the shipped scenarios (built by PrimaiteGame.from_config; hosts with unique software names only, see F-22)
    srng = ctx.rng.fork("scenario")
    for k in range(ctx.scale(40, 800)):
        c = rig.gen_scenario_case(srng, max_ops=ctx.scale(30, 50))
        if c is not None:
            cases.append((f"scn:{k}", c))
            ctx.count("scenario:" + c["scenario"])
    for fname in rig.SCENARIOS:
        inv = rig.scenario_inventory(fname)
        ctx.count("scenario-hosts-usable", len(inv["hosts"]))
        ctx.count("scenario-hosts-skipped-duplicate-software-names", len(inv["skipped"]))

    impl_all = _run_impl_all([c for _, c in cases], procs=ctx.scale(1, min(12, os.cpu_count() or 1)))
    lines_all: List[str] = []
    bounds = []
    for (name, case), (setup, impl, complaints, resolved) in zip(cases, impl_all):
        lines = rig.model_lines(setup, case, resolved) if setup else ["reset"]
        bounds.append((len(lines_all), len(setup), len(lines)))
        lines_all += lines
    model_all = run_driver(EXE, lines_all)
    agree = 0
    nviol = 0
    for (name, case), (setup, impl, complaints, resolved), (st, ns, ln) in zip(cases, impl_all, bounds):
        ctx.cov["traces_validated_against_impl"] += 1
        if not setup:
            ctx.oblige(f"rig:setup {name}", "correspondence", False, impl[0] if impl else "?")
            continue
        setup_out = model_all[st:st + ns]
        if any(x != "ok" for x in setup_out):
            raise RuntimeError(f"driver rejected a setup line of {name}: {list(zip(setup, setup_out))[:40]}")
        model = regroup(model_all[st + ns:st + ln], rig.group_sizes(case, resolved))
        if any(m == "bad-op" for m in model):
            raise RuntimeError(f"driver rejected an op line of {name}")
        if "ambiguous" in model:
            ctx.count("trace-comparison-ended-at-restore-among-same-name-items")
            cut = model.index("ambiguous")
            model = model[:cut + 1]
        ctx.count("family:" + case.get("family", name.split(":")[0]))
        ctx.count("node-kind:" + case.get("node", {}).get("kind", "scenario" if "scenario" in case else "computer"))
        for group in resolved or []:
            for l in group:
                if l[0] in ("tickdb", "dbrestore"):
                    # what the network did in a database restore (input of the model): leftover cleared? copy arrived (health)?
                    ctx.count(f"restore:{l[0]}:cleared={l[1]}:arrived={l[2]}")
        tags = _events([m for m in model if m != "ambiguous"], case["ops"])
        ctx.case(case, bool(tags))
        for t in tags:
            ctx.count("branch:" + t)
        for op in case["ops"]:
            ctx.count("op:" + (op[0] if op[0] not in ("sw", "folder", "file") else op[0] + ":" + op[-1]))
        ctx.count("len:" + str(min(len(case["ops"]) // 10 * 10, 70)))
        i, field, a, b = first_diff(impl, model)
        if i < 0 and not complaints:
            agree += 1
            if name.startswith("gen:"):
                ctx.sample({"case": name, "ops": [" ".join(o) for o in case["ops"][:10]], "answers": [m.split(" | ")[0] for m in model[:10]],
                            "branches": tags}, cap=3)
            continue
        nviol += 1
        if nviol > 12:  # enough replays; keep counting agreement
            continue
        if complaints and i < 0:
            c0 = complaints[0]
            ctx.violation({"kind": "oracle", "clause": "visible-only-by-scan", "op": c0["op"][0], "item": c0["item"].split(":")[0]},
                          f"visible health of {c0['item']} changed {c0['visible']} in step {c0['i']} ({' '.join(c0['op'])}) which "
                          f"cannot complete a scan of it / not to its actual value {c0['actual']}",
                          {"case": case, "complaint": c0, "from": name})
            continue

        # disagreement with the proved model: shrink the operation list
        def fails(ops, case=case):
            ok, *_ = _diff_case(dict(case, ops=ops))
            return not ok
        small = dict(case, ops=shrink_ops(case["ops"], fails, budget=120))
        ok, impl2, model2, (i2, field2, a2, b2), comp2 = _diff_case(small)
        if ok:
            small, impl2, model2, i2, field2, a2, b2 = case, impl, model, i, field, a, b
        op = small["ops"][i2] if 0 <= i2 < len(small["ops"]) else ["?"]
        raised = impl2[i2].startswith("raised") if 0 <= i2 < len(impl2) else False
        sig = {"kind": "model-vs-impl", "op": op[0] + (":" + op[-1] if op[0] in ("sw", "folder", "file") else ""),
               "field": "raised" if raised else field2}
        ctx.violation(sig, f"implementation differs from the proved model at op {i2} ({' '.join(op)}), field {field2}: impl={a2!r} model={b2!r}",
                      {"case": small, "first_diff": i2, "field": field2, "impl": impl2[i2] if 0 <= i2 < len(impl2) else None,
                       "model": model2[i2] if 0 <= i2 < len(model2) else None, "from": name})
    ctx.oblige("rig:R-health agrees on every trace", "correspondence", agree == len(cases), f"{len(cases) - agree} of {len(cases)} traces disagree")

    # implementation-only oracle for the statement's timing clauses (testing; independent of the Lean model)
    bad = rig.timing_oracle(durs=(0, 1, 2, 3, 5) if not ctx.thorough else (0, 1, 2, 3, 4, 5, 7, 10))
    ctx.count("timing-oracle-scenarios", (5 if not ctx.thorough else 8) * 3 * 2)
    for bq in bad[:6]:
        ctx.violation({"kind": "oracle", "clause": bq.get("clause", "?"), "d_class": "0" if bq.get("d") == 0 else ">0"},
                      f"timing clause fails on the implementation: {bq['what']} (duration {bq.get('d')})", {"oracle": "timing", **bq})
    ctx.oblige("oracle:timing clauses hold on the implementation", "oracle", not bad, json.dumps(bad[:3], default=str))
    # game layer: whole episodes through PrimaiteGymEnv on shipped and generated scenarios, identity-based oracle (testing)
    from harness.lib import scen
    from harness.gen import scenario as gscen
    grng = ctx.rng.fork("game")
    gcounts: Dict[str, int] = {}
    gbad: List[dict] = []
    shipped = scen.shipped()
    episodes = [(n, scen.load_cfg(shipped[n])) for n in ctx.scale(["data_manipulation", "uc7_config"],
                ["data_manipulation", "uc7_config", "basic_lan_network_example", "multi_lan_internet_network_example"]) if n in shipped]
    for k in range(ctx.scale(6, 40)):
        fam = gscen.FAMILIES[k % len(gscen.FAMILIES)]
        episodes.append((f"generated:{fam}:{k}", gscen.gen_scenario(grng.fork(f"g{k}"), size=1 + k % 2, family=fam)))
    for name, cfg in episodes:
        try:
            gb = grig.run_episode(cfg, grng, ctx.scale(40, 120), gcounts)
        except Exception as e:  # building / stepping the environment is C01's and C20's business; counted, not judged here
            ctx.count("game:episode-raised:" + type(e).__name__)
            continue
        ctx.count("game:episodes")
        for c0 in gb:
            c0["episode"] = name
        gbad += gb
    for k, v in gcounts.items():
        ctx.count(k, v)
    for c0 in gbad[:4]:
        ctx.violation({"kind": "oracle", "layer": "game", "clause": c0["clause"]},
                      f"game layer, episode {c0['episode']} step {c0['t']}: clause {c0['clause']} fails for {c0['item']}: {json.dumps(c0, default=str)[:300]}",
                      {"oracle": "game", **c0})
    ctx.oblige("oracle:game-layer episodes keep visible-only-by-scan and fix timing", "oracle", not gbad, json.dumps(gbad[:3], default=str))
    bad_db = rig.db_restore_oracle()
    for bq in bad_db[:3]:
        ctx.violation({"kind": "oracle", "clause": "db-restore"}, bq["what"], {"oracle": "db-restore", **bq})
    ctx.oblige("oracle:database restore keeps the file's visible health", "oracle", not bad_db, json.dumps(bad_db[:3], default=str))
    # the order of a game step through the REAL PrimaiteGame.step(): two real ProxyAgents, real observations, vs the model driver
    # (ENUMERATED: every 2-step game over 13 action pairs x node scan {1,2} x folder scan {1,2}; thorough adds a strided sample of depth 3)
    gs_n, gs_bad = gsrig.run_family(depth=2)
    if ctx.thorough:
        n3, bad3 = gsrig.run_family(depth=3, limit=1500)
        gs_n, gs_bad = gs_n + n3, gs_bad + bad3
    ctx.count("family:game-step", gs_n)
    ctx.cov["traces_validated_against_impl"] += gs_n
    for c0 in gs_bad[:4]:
        ctx.violation({"kind": "model-vs-impl", "layer": "game-step", "field": c0["field"].split(":")[0]},
                      f"real PrimaiteGame.step() differs from the proved model at game step {c0['step']} of {c0['case']['actions']} "
                      f"(node scan {c0['case']['dn']}, folder scan {c0['case']['df']}), field {c0['field']}: impl={c0['impl']!r} model={c0['model']!r}",
                      {"oracle": "game-step", "gcase": c0["case"], "step": c0["step"], "field": c0["field"], "impl": c0["impl"], "model": c0["model"]})
    ctx.oblige("rig:R-health game-step family (real PrimaiteGame.step) agrees with the model", "correspondence", not gs_bad,
               f"{len(gs_bad)} complaints in {gs_n} traces: " + json.dumps([{k: v for k, v in c.items() if k != 'case'} for c in gs_bad[:3]], default=str))
