"""C17 — database: password-gated connections, connection-gated queries, restorable data."""
from __future__ import annotations

import json
import time
from typing import List

from harness.lib.core import VERIF, Ctx, lean_lock, run_driver, shrink_ops
from harness.extract import database as x_db
from harness.extract import database_tr as x_tr
from harness.extract import database_ftp_tr as x_ftp
from harness.extract import database_client_tr as x_cli
from harness.extract import database_tick_tr as x_tick
from harness.extract import database_conn_writers as x_cw
from harness.extract import database_bot_tr as x_bot
from harness.extract import database_client_send_tr as x_snd
from harness.rigs import database as rig

MANIFEST = {
    "text": "Lean 4 proof, for every state and every operation sequence of the database model (server with lifecycle, health, "
            "password, connection table and session limit; clients with handles; backup host; node power; direction-wise path "
            "blocks): the connect status ladder (404/503/401/500/200, and 200 iff exactly one fresh id is appended to the "
            "connection table); queries run iff the id is in the table (issued and not closed) - forged, closed and foreign-closed "
            "ids get 401 and change nothing, only the owner's address can close; DELETE => COMPROMISED, ENCRYPT => CORRUPT, SELECT on "
            "COMPROMISED data fails and the file leaves COMPROMISED only through a successful restore, an ENCRYPT or deletion; "
            "with the service not running, the node not ON or the request path blocked, connect/query/disconnect/backup/restore "
            "fail and leave the server unchanged; wrong-then-right password. ROUND 3: (1) backup / damage / restore cycles: "
            "downloads/ is modelled explicitly (leftover kept / planted / corrupted / repaired / deleted, folder deleted) and "
            "C17_restore_roundtrip_run proves, for EVERY state and EVERY operation sequence between a successful backup and a "
            "restore (not deleting the backup host's copy, not re-installing the service), that a restore reporting success leaves "
            "the database file with exactly the health it had when the backup was taken and the service GOOD; C17_restore_needs_path: "
            "with either direction of the backup path closed, the backup host off, its FTP server or the database host's FTP client "
            "not running, or a link refusing the file, a restore does not succeed and keeps file / health / table, whatever lies "
            "under downloads/ (finding F-C17-2, repaired: a leftover was restored instead of the backup). (2) the number of live "
            "connections never exceeds max_sessions along every run (C17_sessions_bounded_run), a full table admits nobody, a "
            "disconnect frees exactly one slot. (3) `receive`, `terminate_connection`, `_process_connect`, `_process_sql`, "
            "`add_connection`, `backup_database` and `restore_backup` are TRANSLATED statement by statement from the source on every "
            "run (Gen/DatabaseTr.lean) and PROVED EQUAL to the model (C17_tr_*): the dispatcher's branch conditions, the sql gate, the "
            "owner test of a disconnect, the order of the steps of a restore are proof obligations. (4) re-installing the database "
            "service (refused / raises / replaces the instance: empty table, default limit, new uuid) and the FTP client at run time, "
            "FTP-client restart / fix / scan with their countdowns, payloads the dispatcher does not recognise (answered 500), a "
            "co-located client's own calls; shut-down duration 0; backup_server_ip None; a co-located client owning port 5432; a "
            "saturated link as an adversarial input; DataManipulationBot / RansomwareScript. ROUND 4: (5) a tick backs up / restores only "
            "if the service can act: a FIXING countdown that ends while the service is stopped / paused / disabled / restarting (or its "
            "node is not ON) makes the health GOOD and does NOT fetch the backup, for every lifecycle state x countdown "
            "(C17_tick_restores_only_if_running), and along every sequence of ticks and client traffic a halted service never "
            "restores (C17_halted_service_never_restores_run); helpers shared by backup_database / restore_backup are inlined by the "
            "translator. (6) the FTP layer the two transfers use - FTPClient.send_file / request_file / _connect_to_server / "
            "_disconnect_from_server / receive, FTPServer.receive / _process_ftp_command, FTPServiceABC._store_data / _send_data / "
            "_retrieve_data / _process_ftp_command / send, IOSoftware.send, on both hosts - is translated (Gen/DatabaseFtpTr.lean) and "
            "PROVED EQUAL to the model's ftpSendFile / ftpRequestFile (C17_tr_ftp_*); only the delivery of a frame between the hosts is "
            "stated. (7) the client's decision logic (DatabaseClient.receive, the re-attempt halves of _connect / _query, the handle "
            "guards, _disconnect, get_new_connection / query / check_connection / execute) is translated (Gen/DatabaseClientTr.lean) and "
            "tied to the model; along every run every DatabaseClientConnection carries an id the server issued to its OWN host, so a "
            "query is sent only over such an id (C17_client_queries_own_connection). (8) file-system REQUESTS on database/ and "
            "downloads/ (deleted copies modelled, restore of a deleted copy), re-install with non-default fixing duration / starting "
            "health, compromise on the FTP client; what happens to the stored backup when it is deleted or the service re-installed "
            "(orphans, C17_no_backup_stays_none_run). ROUND 7: (9) the TICK path and the life-cycle methods are translated along the class "
            "chain the way Python dispatches them (DatabaseService.apply_timestep -> Service.apply_timestep -> Software.apply_timestep -> "
            "DatabaseService._update_fix_status -> Software._update_fix_status -> restore_backup; Software.fix; Service.stop / start / "
            "pause / resume / restart / disable / enable; Gen/DatabaseTickTr.lean, with `_fixing_countdown : Optional[int]` and "
            "`restart_countdown : int` as the code has them) and PROVED EQUAL to the model's tickSvc / Server.request / svcStart / "
            "svcStop for every state (C17_tr_tick_svc, C17_tr_lifecycle, C17_tr_start_stop): backup at timestep 1 and at no other, "
            "decrement-then-test of the fix countdown, test-then-decrement of the restart countdown, restore in the very tick the fix "
            "completes, are proof obligations; the same for the FTP client of the database host along ITS class chain "
            "(C17_tr_tick_ftpc, C17_tr_ftpc_admin). (10) the frame of the connection-table theorems - which code can write "
            "`_connections` at all - is regenerated from the whole source tree and compared (C17_gen_table_writers). (11) the rig's "
            "digest shows the live countdowns (FIXING(n), RESTARTING(n), also the FTP client's); the (halt, offset, duration) "
            "combinations of the fix race (70) and the (fixing_duration, restart_duration) pairs 0..3 x 0..3 are ENUMERATED on every "
            "run; the `_process_sql` grid (file state x service health x query, 72 cells, each over a live / forged / closed / missing id) "
            "and the password grid (16 cells) as well. (12) the data-manipulation bot's stage machine (_logon, _perform_port_scan, "
            "_establish_db_connection, _perform_data_manipulation, _application_loop) is translated (Gen/DatabaseBotTr.lean) and proved "
            "equal, for every bot state and every outcome of its calls, to the closed form State.dmAttack is written in "
            "(C17_tr_dm_advance, C17_tr_dm_loop; likewise the ransomware script's _application_loop / _perform_ransomware_encrypt / "
            "_establish_db_connection and State.ransom, C17_tr_rs_loop). SECOND SHIFT: (13) the step from the translated loops to the model's "
            "State-threaded functions is a theorem for every state: State.dmAttack / State.ransom EQUAL the translated loop run against "
            "the state - its calls (get_new_connection, the query over the bot's connection) answered by the model's own functions in the "
            "state in which the code makes them, the writes its result flags applied (C17_tr_dm_attack_is_model, C17_tr_ransom_is_model). "
            "(14) the property's sentences about `_process_sql` are stated branch by branch on the TRANSLATED method "
            "(C17_gen_process_sql_encrypt / _delete / _select / _insert / _refuses: ENCRYPT leaves the file CORRUPT whatever its health "
            "was, ...); the translator reads Folder.corrupt() / File.corrupt() off the source (GOOD -> CORRUPT only), and a counter-model "
            "search over the method's whole domain (120 cells) names the server on which a refuted theorem fails. (15) the SENDING halves "
            "of DatabaseClient._connect / _query / _disconnect are translated (Gen/DatabaseClientSendTr.lean): the payload key by key is "
            "Payload.raw of the model's payload, sent to the server address on the client's port, re-attempt with the same ids, "
            "_disconnect sends before pop / terminate / deactivate (C17_tr_client_*_sends), and the translated dispatcher fed the "
            "translated client's payload does what the model's Server.receive does (C17_tr_client_to_server). "
            "Tie: regenerated tables (Gen/Database.lean, C17_gen_*), the translated functions "
            "(62 method instances, one obligation each), and differential rig R-db on real client/server/backup hosts behind a router.",
    "note": "C17-specific: the network between hosts is abstracted to per-direction reachability flags (validated by the rig "
            "with real ACL rules, NIC state and node power); the FTP transfers are modelled as far as the database uses them "
            "(`ftpSendFile` / `ftpRequestFile`: since round 4 proved equal to the translated FTP code; what stays hand-written is "
            "the delivery of a frame from one host to the other and the file-system primitives get / create / set-health); "
            "link LOAD ACCOUNTING is C18's: here a link refusing the file-transfer frame is an input of the model "
            "(all values covered by the theorems) whose actual value the rig observes on the real links; the outcomes of the "
            "bot's Bernoulli trials are inputs of the model as well (the rig predicts them from the seed of Python's `random` "
            "and checks the draws the real code made); the file-system request surface (C15) is out of scope.",
    "technique": "Lean 4 theorems over an executable client/server/backup model; tied by regenerated tables, statement-by-statement "
                 "translation of the server-side, FTP and client-side methods, and a differential rig",
    "design_ref": "5/C17",
}
MODULES = ["PrimaiteModel.Props.C17", "PrimaiteModel.Props.C17Gen", "PrimaiteModel.Props.C17Run", "PrimaiteModel.Props.C17Recv", "PrimaiteModel.Props.C17Ftp",
           "PrimaiteModel.Props.C17Client", "PrimaiteModel.Props.C17Tick", "PrimaiteModel.Props.C17Bot", "PrimaiteModel.Props.C17BotModel", "PrimaiteModel.Props.C17Sql", "PrimaiteModel.Props.C17ClientSend", "PrimaiteModel.Props.C17RecvGuard",
           "PrimaiteModel.Lemmas.DatabaseReach"]
EXE = "drv_c17"


def _diff_case(case: dict):
    impl = rig.run_impl(case)
    lines = rig.model_lines(case)
    model = rig.align(impl, run_driver(EXE, lines))
    for i, (a, b) in enumerate(zip(impl, model)):
        if a != b:
            return False, impl, model, i, lines
    if len(impl) != len(model) and not (impl and impl[-1].startswith("raised")):
        return False, impl, model, min(len(impl), len(model)), lines
    return True, impl, model, -1, lines


def _sig(lines: List[str], i: int, impl: List[str], model: List[str]) -> dict:
    opname = lines[i].split()[0] if i < len(lines) else "?"
    a = impl[i] if i < len(impl) else ""
    b = model[i] if i < len(model) else ""
    if a.startswith("raised"):
        part = "raised"
    elif a.split(" | ")[0] != b.split(" | ")[0]:
        part = "answer"
    else:
        part = "state"
    return {"kind": "model-vs-impl", "op": opname, "part": part}


def _transfer_branch(op: str, prev_digest: str, blocks: dict) -> str:
    """Which branch of backup_database / restore_backup an op exercised (for the evidence histogram only)."""
    parts = prev_digest.split()
    srv = parts[0][4:].split(",")
    bk = parts[1][3:].split(",")[:3]
    s_on = srv[0] == "ON" and srv[1] == "RUNNING"
    bk_ok = bk[0] == "ON" and bk[1] == "RUNNING"
    if not s_on:
        return "unavailable"
    if op == "backup" and srv[3] == "-":
        return "no-live-file"
    if blocks.get(0) or not bk_ok:
        return "request-path-closed"
    if op == "backup":
        return "already-stored" if bk[2] != "-" else "ok"
    if bk[2] == "-":
        return "nothing-stored"
    if srv[4] != "-":
        return "reply-blocked-leftover-present(F-C17-2 path)" if blocks.get(1) else "ok-leftover-replaced"
    return "reply-blocked-no-copy(F-33 path)" if blocks.get(1) else "ok-fresh"


def _sql_counter_model(ctx: Ctx) -> None:
    """Counter-model search for the translated `_process_sql` (second shift): the whole domain the method reads (120 cells) is
    evaluated on the translated function and on the model by `lake env lean Props/C17SqlCm.lean`; it proves nothing - when
    `C17_tr_process_sql` checks it finds nothing; when a `C17_gen_process_sql_*` / `C17_tr_process_sql` is refuted it names the server."""
    name = "model:translated _process_sql agrees with the model on every cell of its domain (counter-model search, 120 cells)"
    try:
        import subprocess
        from harness.lib.core import LEAN
        if "processSql" in x_tr.FAILED:
            ctx.oblige(name, "correspondence", False, "not translated: " + x_tr.FAILED["processSql"])
            return
        res = subprocess.run(["lake", "env", "lean", "PrimaiteModel/Props/C17SqlCm.lean"], cwd=str(LEAN), stdout=subprocess.PIPE,
                             stderr=subprocess.STDOUT, text=True, timeout=300)
        out = res.stdout.splitlines()
        found = [l for l in out if l.startswith("counter-model ")]
        tally = [l for l in out if l.startswith("cells=")]
        ctx.oblige(name, "correspondence", res.returncode == 0 and not found and tally == ["cells=120 differing=0"],
                   " || ".join(found)[:3000] or res.stdout[-600:])
        for l in found[:6]:
            ctx.notes.append("counter-model of the translated _process_sql: " + l[:600])
        if tally:
            ctx.notes.append("counter-model search _process_sql: " + tally[0])
    except Exception as e:  # noqa: BLE001
        ctx.oblige(name, "correspondence", False, f"{type(e).__name__}: {e}")


def _recv_counter_model(ctx: Ctx) -> None:
    """Counter-model search for the translated `DatabaseService.receive` (second shift, C17-h): 760 cells (node power x operating state
    x health x file x 19 payloads, on a server holding one kept connection) on the translated dispatcher and on the model."""
    name = "model:translated receive agrees with the model on every cell (counter-model search, 760 cells, kept connection)"
    try:
        import subprocess
        from harness.lib.core import LEAN
        if "receive" in x_tr.FAILED or "processSql" in x_tr.FAILED or "processConnect" in x_tr.FAILED:
            ctx.oblige(name, "correspondence", False, "not translated: " + str({k: v for k, v in x_tr.FAILED.items()})[:600])
            return
        res = subprocess.run(["lake", "env", "lean", "PrimaiteModel/Props/C17RecvCm.lean"], cwd=str(LEAN), stdout=subprocess.PIPE,
                             stderr=subprocess.STDOUT, text=True, timeout=300)
        out = res.stdout.splitlines()
        found = [l for l in out if l.startswith("counter-model ")]
        tally = [l for l in out if l.startswith("cells=")]
        ctx.oblige(name, "correspondence", res.returncode == 0 and not found and tally == ["cells=760 differing=0"],
                   " || ".join(found[:4])[:3000] or res.stdout[-600:])
        for l in found[:4]:
            ctx.notes.append("counter-model of the translated receive: " + l[:700])
        if tally:
            ctx.notes.append("counter-model search receive: " + tally[0])
    except Exception as e:  # noqa: BLE001
        ctx.oblige(name, "correspondence", False, f"{type(e).__name__}: {e}")


def _direct_receive_oracle(ctx: Ctx) -> None:
    """Implementation-side oracle (second shift, C17-h): payloads handed DIRECTLY to `DatabaseService.receive`, bypassing the node's
    port demultiplexer, in every operating state that is not RUNNING (and with the node off): the call must return False and change
    nothing (connection table, file health, service health, what the service sent).  Independent of what else runs on the node."""
    from types import SimpleNamespace
    from harness.lib.core import Rng   # noqa: F401
    name = "oracle:DatabaseService.receive, called directly while not RUNNING, returns False and changes nothing"
    bad, n = [], 0
    try:
        rng = ctx.rng.fork("direct")
        sc = rig._Script(rng, "direct", lambda case: (case.update(max=max(case["max"], 3), restart=2),
                                                       case["clients"][0].update(pw=case["srv_pw"])))
        with rig.instrumented(sc.rec):
            w = rig.World(sc.case, sc.rec)
            sc.emit(w, ["connect", 0])
            db = w.db
            kept = list(db.connections)
            if not kept:
                ctx.oblige(name, "correspondence", False, "set-up: no connection could be opened")
                return
            frame = SimpleNamespace(ip=SimpleNamespace(src_ip_address=w.IPv4Address("10.0.1.10")))
            halts = {"STOPPED": (db.stop, db.start), "PAUSED": (db.pause, db.resume), "RESTARTING": (db.restart, None),
                     "DISABLED": (db.disable, lambda: (db.enable(), db.start()))}
            payloads = [{"type": "connect_request", "password": db.password, "connection_request_id": "r"}]
            for q in rig.SQL.values():
                payloads += [{"type": "sql", "sql": q, "uuid": "u", "connection_id": kept[0]},
                             {"type": "sql", "sql": q, "uuid": "u", "connection_id": "forged"}]
            payloads += [{"type": "disconnect", "connection_id": kept[0]}, "hello", {"sql": "SELECT", "connection_id": None}, {"type": "ping"}]
            for state, (halt, back) in halts.items():
                halt()
                if db.operating_state.name != state:
                    bad.append(f"set-up: {state} not reached ({db.operating_state.name})")
                    continue
                for pl in payloads:
                    n += 1
                    before = (w.digest(), sorted(db.connections), getattr(db.db_file, "health_status", None), db.health_state_actual,
                              len(sc.rec.__dict__.get("sent", []) or []))
                    try:
                        ret = db.receive(payload=dict(pl) if isinstance(pl, dict) else pl, session_id="direct", frame=frame)
                    except Exception as e:  # noqa: BLE001
                        ret = f"raised {type(e).__name__}: {e}"
                    after = (w.digest(), sorted(db.connections), getattr(db.db_file, "health_status", None), db.health_state_actual,
                             len(sc.rec.__dict__.get("sent", []) or []))
                    if ret is not False or before != after:
                        bad.append(f"service {state}, payload {pl!r}: returned {ret!r}" + ("" if before == after else
                                   f", state changed: {before[0]} -> {after[0]}"))
                        if getattr(db.db_file, "health_status", None) is not before[2] and db.db_file is not None:
                            db.db_file.health_status = before[2]
                    ctx.count(f"direct-receive:{state}")
                if back is None:
                    for _ in range(4):
                        w.do(["tick"])
                else:
                    back()
                if db.operating_state.name != "RUNNING":
                    bad.append(f"set-up: service did not come back from {state}")
                    break
        ctx.oblige(name, "correspondence", not bad and n > 0, " || ".join(bad[:6])[:3000])
        if bad:
            ctx.violation({"kind": "direct-receive", "part": "not-running-served"},
                          "DatabaseService.receive handled a payload while the service was not RUNNING: " + bad[0][:600],
                          {"case": dict(sc.case, colisten="ntp-client",
                                        ops=[["connect", 0], ["svc", "stop"], ["hq", 0, "DELETE"], ["hq", 0, "SELECT"]]),
                           "direct": bad[:20]})
    except Exception as e:  # noqa: BLE001
        ctx.oblige(name, "correspondence", False, f"{type(e).__name__}: {e}")


def replay(rec: dict) -> bool:
    with lean_lock():
        from harness.lib.core import lake_build
        lake_build([EXE])
    ok, *_ = _diff_case(rec["replay"]["case"])
    return ok


def run(ctx: Ctx):
    with lean_lock():
        ctx.extract(x_db.GEN_NAME, x_db.emit)
        for what in x_db.SOFT:    # a rewritten (translated) method whose old shape test no longer applies: evidence only
            ctx.count("table-shape-superseded-by-translation:" + what)
        ctx.extract(x_tr.GEN_NAME, x_tr.emit)
        for fname, *_ in x_tr.FUNCS:   # one obligation per translated method: an untranslatable one does not hide the others
            ctx.oblige(f"translate:{fname}", "extractor", fname not in x_tr.FAILED, x_tr.FAILED.get(fname, ""))
        ctx.extract(x_ftp.GEN_NAME, x_ftp.emit)
        for fname, why in sorted(x_ftp.FAILED.items()):
            ctx.oblige(f"translate-ftp:{fname}", "extractor", False, why)
        ctx.oblige("translate-ftp:all-22-methods", "extractor", not x_ftp.FAILED, "; ".join(sorted(x_ftp.FAILED)))
        ctx.extract(x_cli.GEN_NAME, x_cli.emit)
        for fname, why in sorted(x_cli.FAILED.items()):
            ctx.oblige(f"translate-client:{fname}", "extractor", False, why)
        ctx.oblige("translate-client:all-10-functions", "extractor", not x_cli.FAILED, "; ".join(sorted(x_cli.FAILED)))
        ctx.extract(x_snd.GEN_NAME, x_snd.emit)
        for fname, *_ in x_snd.FUNCS:   # the sending halves of the client (second shift): one obligation per method
            ctx.oblige(f"translate-client-send:{fname}", "extractor", fname not in x_snd.FAILED, x_snd.FAILED.get(fname, ""))
        ctx.extract(x_cw.GEN_NAME, x_cw.emit)
        ctx.extract(x_bot.GEN_NAME, x_bot.emit)
        for mname in x_bot.ORDER:   # the data-manipulation bot's stage machine (round 7)
            ctx.oblige(f"translate-bot:{mname}", "extractor", mname not in x_bot.FAILED and "class" not in x_bot.FAILED,
                       x_bot.FAILED.get(mname, x_bot.FAILED.get("class", "")))
        for mname in x_bot.RS_ORDER:   # the ransomware script
            ctx.oblige(f"translate-bot:rs:{mname}", "extractor", "rs:" + mname not in x_bot.FAILED and "rs:class" not in x_bot.FAILED,
                       x_bot.FAILED.get("rs:" + mname, x_bot.FAILED.get("rs:class", "")))
        ctx.extract(x_tick.GEN_NAME, x_tick.emit)
        for mname, lname, _ in x_tick.ROOTS:   # tick path + life-cycle methods (round 7): one obligation per root method
            ctx.oblige(f"translate-tick:{mname}", "extractor", mname not in x_tick.FAILED, x_tick.FAILED.get(mname, ""))
        for mname, lname, _ in x_tick.FTPC_ROOTS:   # the FTP client's tick and countdown-loading methods
            ctx.oblige(f"translate-tick:ftpc:{mname}", "extractor", "ftpc:" + mname not in x_tick.FAILED, x_tick.FAILED.get("ftpc:" + mname, ""))
        ctx.prove(MODULES, exes=[EXE], clean=False, leanchecker=ctx.thorough)
        _sql_counter_model(ctx)
        _recv_counter_model(ctx)
    ctx.cov["rule"] = ("case = (number of clients 1..4, session limit, passwords, durations, ransomware presence, op sequence over "
                       "connect / handle+raw+native query / disconnect / forged+foreign ids / execute / uninstall+install / "
                       "service requests / backup / restore / file damage / node power / FTP server stop / per-direction ACL blocks / "
                       "ticks); every op's answer, the status codes sent by the server and a state digest are diffed; a case is "
                       "non-trivial when a refusal status (401/404/500/503), damage, a lifecycle/power change, an uninstall or a "
                       "validator rejection occurred; distinct by canonical JSON")
    ctx.notes.append("client and server both use port 5432: a host carrying both keeps only the last installed in the port map. "
                     "Modelled and driven: a database client installed on the database host takes the entry (service unreachable), "
                     "uninstalling it removes the entry (still unreachable). EXCLUDED: a database service installed on a host whose "
                     "client talks to a remote database - the two services answer each other's 500 for ever (RecursionError out of "
                     "the real code; a totality defect outside C17's statement, reported in the design note)")
    cases = []
    for f in sorted((VERIF / "corpus" / "C17").glob("*.json")):
        cases.append(("corpus:" + f.name, json.loads(f.read_text())["case"]))
    n = ctx.scale(600, 7000)
    rng = ctx.rng.fork("db")
    pre = {}
    for k in range(n):
        case, impl = rig.gen_and_run(rng, max_ops=ctx.scale(40, 70))
        cases.append((f"gen:{k}", case))
        pre[f"gen:{k}"] = impl
    # directed families (scripts built from the same vocabulary, every choice from ctx.rng)
    rng2 = ctx.rng.fork("directed")
    for k in range(ctx.scale(40, 400)):
        case, impl = rig.gen_boundary_and_run(rng2)
        cases.append((f"boundary:{k}", case))
        pre[f"boundary:{k}"] = impl
    for k in range(ctx.scale(40, 400)):
        case, impl = rig.gen_cycles_and_run(rng2)
        cases.append((f"cycles:{k}", case))
        pre[f"cycles:{k}"] = impl
    for k in range(ctx.scale(30, 300)):
        case, impl = rig.gen_backups_and_run(rng2)
        cases.append((f"backups:{k}", case))
        pre[f"backups:{k}"] = impl
    # fixrace: the 70 (halt, j, c) combinations are ENUMERATED on every run (round 7); thorough adds random ones
    for k in range(len(rig.FIXRACE_ALL) + ctx.scale(0, 430)):
        case, impl = rig.gen_fixrace_and_run(rng2, force=rig.FIXRACE_ALL[k] if k < len(rig.FIXRACE_ALL) else None)
        cases.append((f"fixrace:{k}", case))
        pre[f"fixrace:{k}"] = impl
    # countdowns: every (fixing_duration, restart_duration) in 0..3 x 0..3, ENUMERATED
    for c in range(4):
        for r in range(4):
            case, impl = rig.gen_countdowns_and_run(rng2, c, r)
            cases.append((f"countdowns:{c}:{r}", case))
            pre[f"countdowns:{c}:{r}"] = impl
    # the `_process_sql` grid (72 cells) and the password grid (16 cells), ENUMERATED
    for k, (f, h, q) in enumerate(rig.SQLGRID_ALL):
        case, impl = rig.gen_sqlgrid_and_run(rng2, f, h, q)
        cases.append((f"sqlgrid:{f}:{h}:{q}", case))
        pre[f"sqlgrid:{f}:{h}:{q}"] = impl
    # co-listener grid (second shift): listener (4 shipped classes) x halt (4) x query (6) = 96 cells, ENUMERATED
    for l, h, q in rig.COLISTEN_ALL:
        case, impl = rig.gen_colisten_and_run(rng2, l, h, q)
        cases.append((f"colisten:{l}:{h}:{q}", case))
        pre[f"colisten:{l}:{h}:{q}"] = impl
        ctx.count(f"colisten:{l}:{h}")
    for sp, cp in rig.PWGRID_ALL:
        case, impl = rig.gen_pwgrid_and_run(rng2, sp, cp)
        cases.append((f"pwgrid:{sp}:{cp}", case))
        pre[f"pwgrid:{sp}:{cp}"] = impl
    impl_all, lines_all, bounds = [], [], []
    for name, case in cases:
        impl = pre[name] if name in pre else rig.run_impl(case)
        lines = rig.model_lines(case)
        bounds.append((len(lines_all), len(lines)))
        lines_all += lines
        impl_all.append(impl)
    model_all = run_driver(EXE, lines_all)
    agree = 0
    shrunk_per_sig: dict = {}
    t_shrink0 = [time.time()]
    for (name, case), impl, (st, ln) in zip(cases, impl_all, bounds):
        model = rig.align(impl, model_all[st:st + ln])
        lines = lines_all[st:st + ln]
        ctx.cov["traces_validated_against_impl"] += 1
        ctx.case(case, rig.nontrivial(model))
        ctx.count("clients:" + str(len(case["clients"])))
        ctx.count("profile:" + case.get("profile", "corpus"))
        ctx.count("len:" + str(min(len(case["ops"]) // 10 * 10, 60)) + "+")
        if case.get("bw") or case.get("bw_bk"):
            ctx.count(f"links:narrow:{case.get('bw') or 'wide'}/{case.get('bw_bk') or 'wide'}")
        if 0 in case["durs"].values():
            ctx.count("shut-down-or-start-up-duration-0")
        if not case.get("bkcfg", True):
            ctx.count("backup_server_ip:None")
        blocks = {}
        prev = ""
        maxnow = case["max"]
        for halt, j, c in case.get("fixrace", []):
            ctx.count(f"fixrace:halt={halt}:after-{j}-of-{c}-ticks")
        for op in case["ops"]:
            if op[0] == "dmp":
                ctx.count(f"dmp:p_scan={op[4] / 1000}:predicted-scan={int(op[7])}")
                ctx.count(f"dmp:p_attack={op[5] / 1000}:predicted-attack={int(op[8])}")
        for q, m in zip(lines, model):
            w = q.split()
            if w[0] in ("reset", "new", "cfg"):
                continue
            if w[0] == "blk":
                blocks[int(w[1])] = w[2] == "1"
            if w[0] in ("backup", "restore") and prev:
                ctx.count(f"branch:{w[0]}:" + _transfer_branch(w[0], prev, blocks))
            if w[0] == "backup" and prev:
                # file health at the backup / copy already stored / outcome
                ctx.count("backup:file=" + prev.split()[0][4:].split(",")[3] + ":stored-before=" + prev.split()[1][3:].split(",")[2] + ":" + m.split()[0])
            if w[0] in ("backup", "restore", "tick") and "0" in w[1:]:
                ctx.count(f"saturated:{w[0]}:" + "".join(w[1:]))
            if w[0] == "adm":
                ctx.count("op:adm:" + ":".join(w[1:3] if w[1] == "ftpc" else w[1:2]))
            if m.endswith("| LOOP"):
                ctx.count("co:reply-loop(the real call does not return; explicit outcome, trace ends)")
            if w[0] in ("dl", "co", "rj"):
                ctx.count(f"op:{w[0]}:{w[-1] if w[0] != 'dl' else w[1]}")
            if w[0] == "fsr":
                ctx.count(f"op:fsr:{w[1]}:{w[2]}")
            if w[0] == "svcin":
                ctx.count("result:svcin:" + ("raised" if "rej=R" in m else "refused" if "rej=1" in m else "replaced") + (":configured" if len(w) > 1 else ":bare"))
                if "rej=0" in m:
                    maxnow = 100   # a new instance: default max_sessions
            if w[0] == "restore" and prev:
                ctx.count("restore:leftover-before=" + prev.split()[0][4:].split(",")[4] + ":" + m.split()[0])
            if w[0] == "connect" and prev:
                srvp = prev.split()[0][4:]
                nconn = 0 if "[]" in srvp else srvp[srvp.index("[") + 1:srvp.index("]")].count("@")
                ctx.count("connect:table=" + ("full" if nconn >= maxnow else "one-below" if nconn + 1 == maxnow else "room") + ":" + m.split()[2])
            if w[0] == "dm":
                ctx.count(f"dm:scan={w[3]},attack={w[4]},request={w[5]}")
            if " | " in m:
                prev = m.split(" | ")[1]
            ctx.count("op:" + w[0] + (":" + w[1] if w[0] == "svc" else ""))
            if m == "bad-op":
                raise RuntimeError(f"driver rejected line {q!r}")
            head = m.split(" | ")[0]
            for tok in head.split():
                if tok.startswith("st=[") and tok != "st=[]":
                    for s in tok[4:-1].split(","):
                        ctx.count(f"status:{w[0]}:{s}")
                if tok == "rej=1":
                    ctx.count("rejected:" + w[0])
            if w[0] in ("backup", "restore", "connect", "hq", "nq", "rq", "ex", "rs", "nc", "dm", "dl", "co"):
                ctx.count(f"result:{w[0]}:{head.split()[0]}")
        if impl == model:
            agree += 1
            if name.startswith("gen:"):
                ctx.sample({"case": name, "lines": lines[1:10], "answers": [m.split(' | ')[0] for m in model[1:10]]}, cap=3)
            continue
        i = next((j for j, (a, b) in enumerate(zip(impl, model)) if a != b), min(len(impl), len(model)))
        # shrinking re-runs the implementation and the driver for every candidate: on a broken tree hundreds of traces
        # disagree, so it is bounded - two traces per signature, and a wall-clock budget for all of them together
        sig0 = json.dumps(_sig(lines, i, impl, model), sort_keys=True)
        shrunk_per_sig[sig0] = shrunk_per_sig.get(sig0, 0) + 1
        small, impl2, model2, i2, lines2 = case, impl, model, i, lines
        if shrunk_per_sig[sig0] <= 2 and time.time() - t_shrink0[0] < ctx.scale(25, 240):
            t1 = time.time()

            def fails(ops, case=case):
                ok, *_ = _diff_case(dict(case, ops=[list(o) for o in ops]))
                return not ok
            cand = dict(case, ops=shrink_ops(case["ops"], fails, budget=ctx.scale(60, 200)))
            ok, impl3, model3, i3, lines3 = _diff_case(cand)
            if not ok:
                small, impl2, model2, i2, lines2 = cand, impl3, model3, i3, lines3
            ctx.count("shrunk-traces")
            ctx.cov["shrink_s"] = round(ctx.cov.get("shrink_s", 0) + time.time() - t1, 1)
        else:
            ctx.count("unshrunk-disagreeing-traces")
        ctx.violation(_sig(lines2, i2, impl2, model2),
                      f"database answer/state differs from the proved model at op {i2} ({lines2[i2] if i2 < len(lines2) else '?'}): "
                      f"impl={impl2[i2] if i2 < len(impl2) else None!r} model={model2[i2] if i2 < len(model2) else None!r}",
                      {"case": small, "lines": lines2, "impl": impl2, "model": model2, "first_diff": i2, "from": name})
    _direct_receive_oracle(ctx)
    ctx.oblige("rig:R-db agrees on every trace", "correspondence", agree == len(cases), f"{len(cases) - agree} of {len(cases)} traces disagree")
