"""C19 — scripted green/red agents act only when and how their settings allow."""
from __future__ import annotations

import json
from typing import List

from harness.lib.core import VERIF, Ctx, lean_lock, run_driver, shrink_ops
from harness.extract import agents as x_agents
from harness.extract import agents_ctl as x_ctl
from harness.rigs import agents as rig

MANIFEST = {
    "text": "Lean 4 proof, for every configuration, every random draw inside the range the code asks for, every response "
            "sequence and every run length, about executable models of PeriodicAgent / DataManipulationAgent (first action at "
            "start+d0 with |d0|<=start_variance, gaps in [f-v, f+v], at most max_executions, only the configured application on "
            "a configured start node), of numpy's Generator.choice as ProbabilisticAgent uses it (argument checks incl. the accepted "
            "band |sum-1|<=2^-26; least index with u < cdf; a right-sided binary search over any number type never returns an index "
            "of probability zero, sums different from 1 and leading / trailing zeros included; the vector entry i is the probability "
            "configured for action i), and of the TAP001 / TAP003 kill chains transcribed method by method WITH the parameters of "
            "their actions. Run level (induction over the tick list with reachable-state invariants): one theorem per TAP for the "
            "kill chain over whole runs (order, no skipping, never backwards without repeat, a finished chain never acts, stops for "
            "good / restarts at the first execution slot per repeat_kill_chain, failure branches included); actions_concluded is "
            "switched on exactly in an end-of-chain slot; gaps between consecutive execution slots in [max 1 (f-v), max 1 (f+v)] and "
            "between consecutive ACTING ticks k such gaps; TAP003: the stage advances only after the run's own success response, "
            "EXPLOIT.probability<=0 => never an ACL command; every TAP001 action of DOWNLOAD..C2 runs on the selected start node (element "
            "of starting_nodes, or the default) and every c2-server-* action on the configured C2 server, scan targets are configured network addresses / the previous live hosts / the "
            "selected target, TAP003 credentials, account changes and ACL fields come from the configuration (ACL rules in configured "
            "order); a constructed TAP003's starting knowledge covers every host it is told to log into (settings validator modelled); "
            "EXPLOIT.probability<=0 => the chain never SUCCEEDS; PeriodicAgent / DataManipulationAgent return exactly node-application-execute of "
            "the configured application on one node of possible_start_nodes; numpy's binary search equals the model's linear scan on the exact cdf "
            "and the cdf of non-negative probabilities is sorted. A CONSTRUCTED TAP003 (settings validator passed) fed well-formed responses (a failure "
            "carries data['reason'], a success the login data) NEVER RAISES, for every draw and response sequence of any length (invariant: next = "
            "successor(current); the knowledge covers every account-change host and ACL router once PLANNING has run, preserved by both password-"
            "change updates; ACL index in range), hence it reaches every next execution slot without escape clause; the same holds assuming only what the simulator's "
            "two response construction sites give (do-nothing answered success; a successful remote login carries ip_address/username — tied by C19_gen_resp_wf_sites and "
            "checked on every real response of the scenario sweep; nothing assumed of failed responses: in PLANNING the looked-back action is always a do-nothing). "
            "A CONSTRUCTED TAP001 NEVER RAISES either (C19_tap1_validated_never_raises_sim: every draw / response sequence of any length with the repeat_scan draw in range and "
            "well-shaped scan data (ScanSimOk: {live_hosts: list} or host->protocol->ports, tied to the three NMAP response sites and to every use of the data in TAP001 by "
            "C19_gen_scan_resp_sites and checked on every real scan response of the sweep); invariant: a scan in progress has a remembered timestamp, all remembered timestamps "
            "index the history). RandomAgent returns the sampled entry of its action map. "
            "PeriodicAgent.get_action with _set_next_execution_timestep, ProbabilisticAgent.get_action and the probability-vector construction (ProbabilisticAgent.probabilities) are "
            "TRANSLATED statement by statement (Gen/AgentsGet.lean: dict subscripts, comprehensions, append loops, values() in insertion order) and proved equal to the model on every "
            "table / state / draw (C19_gen_prob_vector: the vector is by key for ANY written key order; C19_gen_prob_get_action; C19_gen_periodic_get_action); a vector in written order is "
            "a refuted theorem and Lean's evaluation of the translated method on all written orders of up to 4 keys yields the counter-model, replayed on the real agent. "
            "The control methods _tap_outcome_handler, _tap_start, _tap_return_handler, _agent_trial_handler and both _progress_kill_chain are TRANSLATED "
            "statement by statement (Gen/AgentsCtl.lean) and proved equal to the model functions on every state (C19_gen_ctl_*: a meaning-preserving "
            "rewrite keeps them). Tie: enums, dispatch order, comparators, defaults, the "
            "vector shape, get_action signatures, the empty-history guard, the EXPLOIT trial guard, the source expression of every TAP "
            "action parameter (one table that also defines the model's values), the settings dicts they read, where current_host is "
            "assigned, _select_start_node/_select_target_ip and the writers of actions_concluded are regenerated from the sources "
            "(Gen/Agents.lean, obligations C19_gen_*) + differential rig R-agent feeding the real agents timesteps, prescribed draws and "
            "synthetic responses and comparing the FULL action (name and every parameter) and the kill-chain state with the model at "
            "every step, an implementation-side oracle 'a validated TAP003 with well-formed responses does not raise', plus property oracles on "
            "agent.history in the shipped UC2 / UC7 scenarios under random blue actions.",
    "note": "C19-specific: numpy's Generator.choice and random.randint/choice/random are modelled, not verified (the never-zero theorem for "
            "the binary search assumes only a total order without NaN, x+0=x, 0/x=0 and a sorted cdf); probabilities in the rig are "
            "dyadic so that float comparison is exact (sums off 1 by multiples of 2^-30); the live-host list a ping scan returns is "
            "opaque simulator data.",
    "technique": "Lean 4 theorems over executable agent models; models tied by regenerated tables and a differential rig",
    "design_ref": "5/C19",
}
MODULES = ["PrimaiteModel.Props.C19", "PrimaiteModel.Props.C19Sched", "PrimaiteModel.Props.C19Run", "PrimaiteModel.Props.C19Params", "PrimaiteModel.Props.C19Sampler", "PrimaiteModel.Props.C19Nodes", "PrimaiteModel.Props.C19More", "PrimaiteModel.Props.C19Live", "PrimaiteModel.Props.C19NoRaise", "PrimaiteModel.Props.C19Wf", "PrimaiteModel.Props.C19Ctl", "PrimaiteModel.Props.C19Get", "PrimaiteModel.Props.C19NoRaise1"]
EXE = "drv_c19"
KINDS = ["periodic", "prob", "probn", "tap1", "tap3", "rand"]


def _diff_case(case: dict):
    impl, lines, problems = rig.run_impl(case)
    model = run_driver(EXE, ["reset"] + lines)[1:]
    a, b = rig.normalise(case, impl, model)
    i = next((j for j, (x, y) in enumerate(zip(a, b)) if x != y), -1)
    return (i < 0 and not problems), a, b, i, lines, problems


def _truncate(case: dict, n: int) -> dict:
    c = dict(case)
    if "steps" in c:
        c["steps"] = case["steps"][:n]
    return c


def _oracle_prob(case: dict, impl: List[str]) -> List[int]:
    """Property oracle on the implementation alone: a selected action must have a non-zero configured probability."""
    conf = {int(k): w for k, w in case["table"]}
    return [j for j, l in enumerate(impl) if l.startswith("chose ") and conf.get(int(l.split()[1]), 0) == 0]


def replay(rec: dict) -> bool:
    with lean_lock():
        from harness.lib.core import lake_build
        lake_build([EXE])
    r = rec["replay"]
    if r.get("kind") == "scenario":
        from harness.rigs import agents_scenarios as sc
        return not sc.run_scenario(r["scenario"], r["seed"], r["steps"], r.get("blue", "random"), r.get("tweak", ""))["violations"]
    case = r["case"]
    ok, a, b, i, lines, problems = _diff_case(case)
    if kind_is_prob(case) and _oracle_prob(case, a):
        return False
    return ok


def kind_is_prob(case: dict) -> bool:
    return case.get("agent") in ("prob", "probn")


def _gen_obligations(ctx: Ctx):
    """Run-time cross-check of the extractor: the enum tables read through `ast` equal what the imported classes say."""
    from primaite.game.agent.scripted_agents.abstract_tap import KillChainStageProgress
    from primaite.game.agent.scripted_agents.TAP001 import MobileMalwareKillChain
    from primaite.game.agent.scripted_agents.TAP003 import InsiderKillChain
    try:
        text = x_agents.emit()
    except Exception as e:      # strict extractor: an unrecognised source shape is a broken obligation, not a crash of the check
        ctx.oblige("gen-crosscheck:extractor", "extractor", False, f"{type(e).__name__}: {e}")
        return
    for name, enum in (("mobileMalwareKillChain", MobileMalwareKillChain), ("insiderKillChain", InsiderKillChain),
                       ("stageProgress", KillChainStageProgress)):
        want = "[" + ", ".join(f'("{m.name}", {int(m.value)})' for m in enum) + "]"
        ctx.oblige(f"gen-crosscheck:{name}", "extractor", f"def {name} : List (String × Int) := {want}" in text,
                   f"ast table differs from list({enum.__name__})")
    pin = next(l for l in text.splitlines() if l.startswith("def probVectorOrder"))
    if '"seeTranslation"' in pin:      # not one of the pinned shapes: ask the TRANSLATED method (evaluated by Lean) about the probe table
        got = run_driver(EXE, ["gen-vector 1:1,0:3"])[0].split()[0]
        ok = got == ("3,1" if rig.vector_order_of_impl() == "key" else "1,3")
    else:
        ok = ('"byKey"' if rig.vector_order_of_impl() == "key" else '"insertion"') in pin
    ctx.oblige("gen-crosscheck:probVectorOrder", "extractor", ok,
               "extractor / translation and run-time probe disagree about the order of the probability vector")


def _vector_counter_models(ctx: Ctx):
    """Counter-model search for `C19_gen_prob_vector` (the TRANSLATED `ProbabilisticAgent.probabilities` = the by-key vector
    on every table): every covered table with up to 4 keys in EVERY written order (weights 1,2,4,8 by key: all distinct) is
    evaluated by Lean through the driver.  A table on which the translated method differs from the model is turned into a
    concrete case for the REAL agent (the key whose vector entry is wrong gets probability 0) and replayed."""
    import itertools
    tables = [[(k, 1 << k) for k in perm] for n in range(1, 5) for perm in itertools.permutations(range(n))]
    lines = ["gen-vector " + ",".join(f"{k}:{w}" for k, w in tb) for tb in tables]
    outs = run_driver(EXE, lines)
    ctx.count(f"gen-vector: tables enumerated (all written orders of 1..4 keys)", len(tables))
    bad = [(tb, o) for tb, o in zip(tables, outs) if len(o.split()) != 2 or o.split()[0] != o.split()[1]]
    ctx.oblige("gen-search:C19_gen_prob_vector has no counter-model among all written orders of up to 4 keys", "correspondence",
               not bad, f"{len(bad)} of {len(tables)} tables; first: {bad[0] if bad else None}")
    if not bad:
        return
    tb, o = min(bad, key=lambda x: len(x[0]))
    got, want = o.split()
    n = len(tb)
    wrong = next((i for i, (g, w) in enumerate(zip(got.split(","), want.split(","))) if g != w), 0) if "raised" not in o else 0
    # the same written order; the key whose entry is wrong is configured with probability 0, the others share 1
    den = 1 << max(n - 1, 1).bit_length()
    rest = [k for k, _ in tb if k != wrong]
    ws = {wrong: 0, **{k: den // max(len(rest), 1) for k in rest}}
    ws[rest[0]] += den - sum(ws.values())
    for seed in range(1, 9):
        case = {"agent": "prob", "table": [[k, ws[k]] for k, _ in tb], "den": den, "n_actions": n, "draws": 24, "seed": seed}
        ok, a, b, i, lines2, problems = _diff_case(case)
        if _oracle_prob(case, a) or not ok:
            ctx.violation({"kind": "gen-counter-model", "agent": "probabilistic-agent", "what": "probability-vector-not-by-key",
                           "keys_in_order": False},
                          f"counter-model of C19_gen_prob_vector: for the table written {dict(tb)} the translated probabilities gives "
                          f"[{got}], by key it is [{want}]; on the real agent with {dict(case['table'])} (denominator {den}) action "
                          f"{wrong} (configured probability 0) is selected: {a[:8]}",
                          {"case": case, "impl": a, "model": b, "from": "gen-vector counter-model"})
            return
    ctx.oblige("gen-search:counter-model reproduced on the real agent", "correspondence", False,
               f"table {tb}: translated [{got}] vs by key [{want}], but the real agent did not select a zero-probability action in 8 seeds")


def run(ctx: Ctx):
    with lean_lock():
        ctx.extract("Agents", x_agents.emit)
        ctx.extract("AgentsCtl", x_ctl.emit)
        if ctx.extract("AgentsGet", x_ctl.emit_get):
            import re
            from harness.lib.core import GEN
            m = re.search(r"def untranslated : List \(String × String\) := \[(.*)\]", (GEN / "AgentsGet.lean").read_text())
            for part, why in re.findall(r'\("([^"]*)", "([^"]*)"\)', m.group(1) if m else ""):
                ctx.oblige(f"extract:AgentsGet:{part}", "extractor", False, why)
        ctx.prove(MODULES, exes=[EXE], clean=False, leanchecker=ctx.thorough)
    _gen_obligations(ctx)
    _vector_counter_models(ctx)
    ctx.cov["rule"] = ("cases = (agent kind in {periodic, data-manipulation, probabilistic, TAP001, TAP003, random}, settings, prescribed draws, "
                       "synthetic response sequence); a case is non-trivial when the agent acts at least twice (periodic), selects an "
                       "action from a table with a zero entry (probabilistic), or leaves the first kill-chain stage / fails / raises "
                       "(TAP), or returns two different entries / raises (random); distinct by canonical JSON")
    cases = []
    for f in sorted((VERIF / "corpus" / "C19").glob("*.json")):
        rec = json.loads(f.read_text())
        if "case" in rec:
            cases.append(("corpus:" + f.name, rec["case"]))
    per_kind = {"periodic": ctx.scale(250, 4000), "prob": ctx.scale(250, 4000), "tap1": ctx.scale(300, 5000), "tap3": ctx.scale(300, 5000),
                "rand": ctx.scale(60, 600), "probn": ctx.scale(120, 2000)}
    for kind in KINDS:
        rng = ctx.rng.fork("agents:" + kind)
        for k in range(per_kind[kind]):
            cases.append((f"gen:{kind}:{k}", rig.gen_case(rng, kind, malformed=(k % 5 == 4))))
    impl_all, lines_all, bounds, probs_all = [], [], [], []
    for name, case in cases:
        impl, lines, problems = rig.run_impl(case)
        lines = ["reset"] + lines
        bounds.append((len(lines_all), len(lines)))
        lines_all += lines
        impl_all.append(impl)
        probs_all.append(problems)
    model_all = run_driver(EXE, lines_all)
    agree = 0
    rig_ok = True
    for (name, case), impl, (st, ln), problems in zip(cases, impl_all, bounds, probs_all):
        model = model_all[st + 1:st + ln]
        lines = lines_all[st + 1:st + ln]
        kind = rig.kind_of(case)
        ctx.cov["traces_validated_against_impl"] += 1
        ctx.count("kind:" + case["agent"])
        if any(m == "bad-op" for m, i in zip(model, impl) if i != "bad-op") and not (model and model[0] == "raised"):
            # (after a model-side "raised" at construction the driver has no agent: `bad-op` on the step lines is then the
            # model's way of saying "no agent", and an implementation that did construct one is an ordinary disagreement)
            raise RuntimeError(f"driver rejected a line of {name}")
        _histogram(ctx, kind, case, impl)
        if kind == "probn":
            d = sum(w for _, w in case["table"]) - case["den"]
            ctx.count("probn:sum-1 in 2^-30 units:" + ("0" if d == 0 else ("<=16 (inside numpy's band)" if abs(d) <= 16 else
                      ("17..1073 (validator accepts, numpy raises)" if abs(d) <= 1073 else ">1073 (validator rejects)"))))
            if any(w < 0 for _, w in case["table"]):
                ctx.count("probn:negative-entry")
        ctx.case(case, _nontrivial(kind, case, impl))
        for p in problems:
            if p.startswith("params: "):
                # property oracle on the implementation alone: every parameter of an action comes from the settings
                ctx.violation({"kind": "oracle", "agent": case["agent"], "what": "action-parameters-not-from-settings"},
                              f"{case['agent']} ({name}): {p[8:]}", {"case": case, "from": name})
                continue
            rig_ok = False
            ctx.oblige(f"rig:draw-ranges:{name}", "correspondence", False, p)
        a, b = rig.normalise(case, impl, model)
        # property oracle on the implementation alone, licensed by theorem C19_tap3_validated_never_raises: a TAP003 whose
        # settings were accepted and whose responses are well formed (a failure carries a reason, a success the login data)
        # never raises, whatever the draws and responses
        if kind == "tap3" and impl and impl[0].startswith("ok") and (all(_wf_resp(st["resp"]) for st in case["steps"]) or _sim_ok(case, impl)):
            ctx.count("tap3:validated+well-formed cases (no-raise oracle applies)")
            if not all(_wf_resp(st["resp"]) for st in case["steps"]):
                ctx.count("tap3:… of which only SimOk holds (failed responses without a reason; theorem …_never_raises_sim)")
            j = next((j for j, l in enumerate(impl) if l == "raised"), -1)
            if j >= 1:
                ctx.violation({"kind": "oracle", "agent": "tap3", "what": "validated-agent-raised"},
                              f"TAP003 ({name}) accepted its settings, got only well-formed responses and raised in step {j - 1}",
                              {"case": _truncate(case, j), "from": name})
        # the same for TAP001, licensed by C19_tap1_validated_never_raises_sim: the constructor accepted the settings, the scan draws
        # are in range and every scan answer is well shaped (the rig builds `{"live_hosts": [...]}` / host -> protocol -> ports)
        if kind == "tap1" and impl and impl[0].startswith("ok") and all(st["dScan"] < max(case["nAddr"], 1) for st in case["steps"]):
            ctx.count("tap1:constructed cases with ScanSimOk responses (no-raise oracle applies)")
            j = next((j for j, l in enumerate(impl) if l == "raised"), -1)
            if j >= 1:
                ctx.violation({"kind": "oracle", "agent": "tap1", "what": "validated-agent-raised"},
                              f"TAP001 ({name}) was constructed, got only well-shaped scan responses and raised in step {j - 1}",
                              {"case": _truncate(case, j), "from": name})
        # property oracle evaluated on the implementation alone
        if kind in ("prob", "probn"):
            bad = _oracle_prob(case, a)
            if bad:
                ctx.violation({"kind": "oracle", "agent": "probabilistic-agent", "what": "zero-probability-action-selected",
                               "keys_in_order": [k for k, _ in case["table"]] == sorted(k for k, _ in case["table"])},
                              f"ProbabilisticAgent selected action {a[bad[0]].split()[1]} whose configured probability is 0 "
                              f"(table in file order {case['table']}, denominators {case['den']})",
                              {"case": case, "impl": a, "model": b, "from": name})
        if a == b:
            agree += 1
            if name.startswith("gen:") and _nontrivial(kind, case, impl):
                ctx.sample({"case": name, "lines": lines[:6], "answers": b[:6]}, cap=6)
            continue
        i = next(j for j, (x, y) in enumerate(zip(a, b)) if x != y)
        small = case
        if "steps" in case:
            small = _truncate(case, max(i, 1))      # line i is step i-1: keep steps up to and including it
        ok2, a2, b2, i2, lines2, _ = _diff_case(small)
        if ok2:
            small, a2, b2, i2, lines2 = case, a, b, i, lines
        op = lines2[i2].split()[0] if 0 <= i2 < len(lines2) else "?"
        ctx.violation({"kind": "model-vs-impl", "agent": case["agent"], "op": op},
                      f"{case['agent']} agent differs from the proved model at line {i2} ({lines2[i2] if 0 <= i2 < len(lines2) else '?'}): "
                      f"impl={a2[i2] if 0 <= i2 < len(a2) else None!r} model={b2[i2] if 0 <= i2 < len(b2) else None!r}",
                      {"case": small, "lines": lines2, "impl": a2, "model": b2, "first_diff": i2, "from": name})
    ctx.oblige("rig:R-agent agrees on every trace", "correspondence", agree == len(cases), f"{len(cases) - agree} of {len(cases)} traces disagree")
    if rig_ok:
        ctx.oblige("rig:draw-ranges", "correspondence", True)
    # shipped scenarios: property oracles on agent.history
    try:
        from harness.rigs import agents_scenarios as sc
    except ImportError:
        sc = None
    if sc is not None:
        sc.run_all(ctx)


def _wf_resp(r: dict) -> bool:
    """`Tap3.Resp.wf`."""
    return (r["ok"] or r.get("hasReason", True)) and ((not r["ok"]) or r.get("hasLoginData", True))


def _sim_ok(case: dict, impl: List[str]) -> bool:
    """`Tap3.RunSimOk` on the implementation's own actions: every do-nothing was answered with success, every successful
    remote login with its data (up to the first raise, whose own response is never read)."""
    for j, st in enumerate(case["steps"]):
        if j + 1 >= len(impl) or impl[j + 1] == "raised":
            break
        act, r = impl[j + 1].split()[0], st["resp"]
        if act == "do-nothing" and not r["ok"]:
            return False
        if act == "node-session-remote-login" and r["ok"] and not r.get("hasLoginData", True):
            return False
    return True


def _nontrivial(kind: str, case: dict, impl: List[str]) -> bool:
    if kind == "periodic":
        return sum(1 for l in impl if l.startswith("exec")) >= 2 or any(l.startswith("raised") for l in impl)
    if kind == "prob":
        return any(w == 0 for _, w in case["table"]) and any(l.startswith("chose") for l in impl)
    if kind == "probn":
        return (any(w == 0 for _, w in case["table"]) and any(l.startswith("chose") for l in impl)) or any(l.startswith("r") for l in impl)
    if kind == "rand":
        return len({l for l in impl}) > 1 or any(l.startswith("raised") for l in impl)
    stages = {l.split("|")[1].split()[0] for l in impl if "|" in l}
    return len(stages - {"NOT_STARTED", "DOWNLOAD", "RECONNAISSANCE"}) > 0 or any(l.startswith("raised") for l in impl)


def _histogram(ctx: Ctx, kind: str, case: dict, impl: List[str]):
    for l in impl:
        w = l.split()
        if kind in ("tap1", "tap3"):
            ctx.count(f"{kind}:act:{w[0]}")
            if "|" in w:
                j = w.index("|")
                ctx.count(f"{kind}:stage:{w[j + 1]}")
                if w[j + 4] == "1":
                    ctx.count(f"{kind}:concluded-steps")
        else:
            ctx.count(f"{kind}:{w[0]}")
    if kind in ("tap1", "tap3"):
        seen = {l.split("|")[1].split()[0] for l in impl if "|" in l}
        for s in seen:
            ctx.count(f"{kind}:cases-reaching:{s}")
        ctx.count(f"{kind}:len:{min(len(case['steps']) // 20 * 20, 80)}+")
