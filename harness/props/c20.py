"""C20 — the simulation built from a scenario file is what the file says; key order / formatting irrelevant."""
from __future__ import annotations

import copy
import json
import traceback
from pathlib import Path
from typing import Any, Dict, List, Optional, Tuple

import yaml

from harness.extract import config_sites as x_cfg
from harness.gen import scenario as G
from harness.lib import scen
from harness.lib.core import VERIF, Ctx, Rng, lean_lock, run_driver
from harness.rigs import config as R

MANIFEST = {
    "text": "Lean 4 proof about an executable model of the scenario loader (PrimaiteGame.from_config with the computer/server/switch/"
            "router/firewall from_config paths, software install, users, folders/files, links, agents with action maps): for EVERY "
            "well-formed scenario AST the loader builds exactly the inventory the configuration documentation declares - nodes and "
            "their attributes, interfaces and addresses, ACL rules at their stated positions (incl. the six firewall ACLs), routes, "
            "software with options, users, folders/files, links with bandwidths, agents (C20_build_eq_declared, full strength since the "
            "F-22 repair: SoftwareManager.install replaces an installed namesake, proved as foldl installOne = last request per name; "
            "C20_software_one_instance_per_name for EVERY node entry, well-formed or not; C20_configured_application_wins); "
            "for EVERY permutation of the entries of EVERY mapping "
            "(network_interfaces, router ports, firewall ports, acl at both levels, action maps) the loader builds the same simulation "
            "or raises the same error (C20_key_order_irrelevant, from one lemma per mapping-iteration site of the regenerated site "
            "inventory; the ACL site reuses C07_add_commute); an episode schedule assembles variants(n mod len) then the base scenario "
            "(C20_schedule_assembles/_periodic/_key_order). Tie: Gen/Config.lean (site inventory, default constants, system-software "
            "tables, firewall ACL table, scheduler shape, shape of install/uninstall) + rig R-cfg: generated scenario families and every shipped "
            "scenario (incl. the episode-scheduled directories) -> real from_config -> inventory walked from the object graph, diffed with "
            "the driver's build and declared; permuted / reversed / re-serialised files compared by inventory and by seeded trajectory "
            "digest. PARTIAL: wireless routers, printers, airspace, the observation space and the office-lan node set are outside the "
            "Lean model (office-lan has a closed-form Python oracle in the rig); initial software/NIC states and the YAML text join of "
            "schedules are checked by rig oracles, not theorems.",
    "note": "C20-specific: option mappings handed wholesale to pydantic schemas are atoms in the model (canonical tokens made by the rig); "
            "action_probabilities key order is C19's (F-29) and is kept in file order by the permutation rig.",
    "technique": "Lean 4 theorems over an executable loader model; regenerated site inventory and tables; differential inventory rig",
    "design_ref": "5/C20",
}
MODULES = ["PrimaiteModel.Props.C20"]
EXE = "drv_c20"
KEEP = ("action_probabilities",)  # F-29 (owned by C19): the order of this mapping changes behaviour; not permuted here
# test assets that are not well-formed scenario files: one needs a plug-in node type, one has `agent_settings:` null
SKIP_SHIPPED = {"bad_primaite_session", "no_nodes_links_agents_network", "extended_config", "eval_only_primaite_session"}


# ------------------------------------------------------------------------------------------------ one scenario
def _load(cfg: Dict):
    """(game, None) or (None, failure-dict)."""
    try:
        return scen.make_game(cfg), None
    except RecursionError as e:
        return None, {"kind": "load-raises", "exc": "RecursionError", "where": "HostARP", "msg": str(e)[:100]}
    except Exception as e:
        tb = traceback.extract_tb(e.__traceback__)[-1]
        return None, {"kind": "load-raises", "exc": type(e).__name__, "where": f"{tb.filename.split('primaite/')[-1]}:{tb.name}",
                      "msg": str(e)[:200]}


def _classify(only_impl: List[str], only_decl: List[str]) -> Dict:
    """Signature of a declared-vs-built difference."""
    items = sorted({l.split()[0] for l in only_impl + only_decl})
    if items == ["sw"] and all(" n=1" not in l for l in only_impl) and all(" n=1" in l for l in only_decl):
        return {"kind": "declared-vs-built", "item": "software", "cause": "name-installed-twice"}
    return {"kind": "declared-vs-built", "item": ",".join(items), "cause": "other"}


def check_scenario(cfg: Dict, model_out: Optional[Tuple[str, str]]) -> Tuple[List[dict], Optional[List[str]]]:
    """Implementation-side checks of one scenario; `model_out` = the driver's (build, declared) answers or None."""
    fails: List[dict] = []
    game, f = _load(cfg)
    if f:
        return [f], None
    inv = R.inventory(game, cfg)
    for b in R.state_oracle(game):
        fails.append({"kind": "initial-state", "item": b.split()[0], "detail": b})
    if model_out is not None:
        b, d = R.split_inventory(model_out[0]), R.split_inventory(model_out[1])
        if b != inv:
            fails.append({"kind": "model-vs-impl", "item": ",".join(sorted({l.split()[0] for l in set(b) ^ set(inv)})),
                          "only_model": [l for l in b if l not in inv][:6], "only_impl": [l for l in inv if l not in b][:6]})
        if d != inv:
            oi, od = [l for l in inv if l not in d], [l for l in d if l not in inv]
            fails.append(dict(_classify(oi, od), only_impl=oi[:6], only_declared=od[:6]))
    return fails, inv


def check_variants(cfg: Dict, inv: List[str], rng: Rng, digest_steps: int, n_variants: int = 3) -> List[dict]:
    """Permuted / reversed / re-serialised copies must build the same inventory and (digest_steps > 0) behave identically."""
    fails = []
    variants = [("permuted", G.permute_mappings(cfg, rng, keep=KEEP)), ("reversed", G.reverse_mappings(cfg, keep=KEEP)),
                ("reserialised", G.reserialise(cfg, rng))][:n_variants]
    for name, v in variants:
        game, f = _load(v)
        if f:
            fails.append({"kind": "key-order-changes-loading", "variant": name, "exc": f["exc"], "where": f["where"]})
            continue
        inv2 = R.inventory(game, cfg)
        if inv2 != inv:
            diff = sorted(set(inv) ^ set(inv2))
            fails.append({"kind": "key-order-changes-inventory", "variant": name, "item": diff[0].split()[0], "diff": diff[:6]})
    if digest_steps > 0:
        try:
            d0 = R.trajectory_digest(cfg, 7, digest_steps)
            for name, v in variants[:2]:
                d1 = R.trajectory_digest(v, 7, digest_steps)
                if d1 != d0:
                    fails.append({"kind": "key-order-changes-behaviour", "variant": name, "digest": [d0, d1]})
        except Exception as e:
            tb = traceback.extract_tb(e.__traceback__)[-1]
            fails.append({"kind": "digest-raises", "exc": type(e).__name__, "where": f"{tb.filename.split('primaite/')[-1]}:{tb.name}",
                          "msg": str(e)[:160]})
    return fails


# ------------------------------------------------------------------------------------------------ office-lan oracle (not in the Lean model)
def office_lan_expected(ns: Dict) -> Tuple[List[str], List[str]]:
    """What docs/source/node_sets.rst says an `office-lan` entry builds: num_pcs computers, enough 24-port edge switches for 23 PCs
    each, a core switch when more than one edge switch is needed, an optional router (gateway 192.168.<base>.1), all wired."""
    lan, n, base, start = ns["lan_name"], ns["num_pcs"], ns["subnet_base"], ns["pcs_ip_block_start"]
    bw = ns.get("bandwidth", 100)
    router = ns.get("include_router", True)
    n_sw = max(1, -(-n // 23))
    nodes = [f"switch_edge_{k}_{lan}" for k in range(1, n_sw + 1)] + [f"pc_{i}_{lan}" for i in range(1, n + 1)]
    links = []
    if n_sw > 1:
        nodes.append(f"switch_core_{lan}")
        for k in range(1, n_sw + 1):
            links.append(f"switch_core_{lan}:{k}<->switch_edge_{k}_{lan}:24 {bw}")
    if router:
        nodes.append(f"router_{lan}")
        links.append(f"router_{lan}:1<->" + (f"switch_core_{lan}:24" if n_sw > 1 else f"switch_edge_1_{lan}:24") + f" {bw}")
    for i in range(1, n + 1):
        k, p = (i - 1) // 23 + 1, (i - 1) % 23 + 1
        links.append(f"switch_edge_{k}_{lan}:{p}<->pc_{i}_{lan}:1 {bw}")
    return sorted(nodes), sorted(links)


def check_office_lan(ns: Dict) -> List[dict]:
    cfg = {"io_settings": dict(G.QUIET_IO), "game": {"ports": ["HTTP"], "protocols": ["TCP"]},
           "simulation": {"network": {"nodes": [], "links": [], "node_sets": [ns]}}, "agents": []}
    game, f = _load(cfg)
    if f:
        return [dict(f, kind="office-lan-raises")]
    net = game.simulation.network
    nodes = sorted(n.config.hostname for n in net.nodes.values())
    links = sorted(f"{l.endpoint_a.parent.config.hostname}:{l.endpoint_a.port_num}<->{l.endpoint_b.parent.config.hostname}:"
                   f"{l.endpoint_b.port_num} {int(l.bandwidth)}" for l in net.links.values())
    en, el = office_lan_expected(ns)
    fails = []
    if nodes != en:
        fails.append({"kind": "office-lan-nodes", "diff": sorted(set(nodes) ^ set(en))[:6]})
    if links != el:
        fails.append({"kind": "office-lan-links", "diff": sorted(set(links) ^ set(el))[:6]})
    base, start = ns["subnet_base"], ns["pcs_ip_block_start"]
    for i in range(1, ns["num_pcs"] + 1):
        pc = net.get_node_by_hostname(f"pc_{i}_{ns['lan_name']}")
        if pc is None:
            continue
        want_gw = f"192.168.{base}.1" if ns.get("include_router", True) else "None"
        if str(pc.network_interface[1].ip_address) != f"192.168.{base}.{i + start - 1}" or str(pc.config.default_gateway) != want_gw:
            fails.append({"kind": "office-lan-addressing", "pc": i})
            break
    # every PC's NIC and its switch port are enabled, and (with a router) the PC reaches its gateway at layer 2
    for l in net.links.values():
        if not (l.endpoint_a.enabled and l.endpoint_b.enabled):
            fails.append({"kind": "office-lan-link-down", "link": str(l)[:80]})
            break
    return fails


# ------------------------------------------------------------------------------------------------ schedules
def check_schedule_dir(d: Path, ctx: Ctx) -> Tuple[List[str], List[str], List[dict], List[Tuple[str, Dict]]]:
    """Real EpisodeListScheduler vs an independent assembly and vs the model's document selection."""
    from primaite.session.episode_schedule import build_scheduler
    fails, cfgs = [], []
    sch = build_scheduler(d)
    spec = yaml.safe_load((d / "schedule.yaml").read_text())
    table = spec["schedule"]
    lines, expect = ["reset"], ["ok"]
    for e, names in table.items():
        lines.append(f"sched-entry {e} " + " ".join(names))
        expect.append("ok")
    for fn in sorted({n for v in table.values() for n in v}):
        lines.append(f"sched-file {fn}")
        expect.append("ok")
    lines.append(f"sched-base {spec['base_scenario']}")
    expect.append("ok")
    for n in range(0, 2 * len(table) + 1):
        got = sch(n)
        names = table[n % len(table)]
        text = "\n".join([(d / f).read_text() for f in names] + [(d / spec["base_scenario"]).read_text()])
        want = yaml.safe_load(text)
        flat = []
        for a in want["agents"]:
            flat.extend(a) if isinstance(a, list) else flat.append(a)
        want["agents"] = flat
        if got != want:
            fails.append({"kind": "schedule-assembly", "dir": d.name, "episode": n})
        lines.append(f"sched {n}")
        expect.append(" ".join(list(names) + [spec["base_scenario"]]))
        if n < len(table):
            cfgs.append((f"{d.name}#ep{n}", got))
        ctx.count("schedule-episode")
    return lines, expect, fails, cfgs


# ------------------------------------------------------------------------------------------------ replay / run
def replay(rec: dict) -> bool:
    rp = rec["replay"]
    mode = rp.get("mode", "scenario")
    if mode == "office-lan":
        return not check_office_lan(rp["node_set"])
    cfg = rp["cfg"]
    with lean_lock():
        from harness.lib.core import lake_build
        lake_build([EXE])
    out = None
    try:
        lines = ["reset"] + R.scenario_lines(cfg) + ["build", "declared"]
        o = run_driver(EXE, lines)
        out = (o[-2], o[-1])
    except R.Unmodelled:
        pass
    fails, inv = check_scenario(cfg, out)
    if not fails and inv is not None:
        fails = check_variants(cfg, inv, Rng(1), rp.get("digest_steps", 0))
    return not fails


def _int_keys(o: Any) -> Any:
    """JSON turns mapping keys into strings; corpus scenarios get their integer keys back."""
    if isinstance(o, dict):
        return {(int(k) if isinstance(k, str) and k.lstrip("-").isdigit() else k): _int_keys(v) for k, v in o.items()}
    if isinstance(o, list):
        return [_int_keys(v) for v in o]
    return o


def run(ctx: Ctx):
    with lean_lock():
        ctx.extract("Config", x_cfg.emit)
        ctx.prove(MODULES, exes=[EXE], leanchecker=ctx.thorough)
    ctx.cov["rule"] = ("cases = corpus witnesses + generated scenarios (families lan / routed / dmz x size 1-3 x with / without configured "
                       "system software x optional office-lan node set) + every shipped scenario + every episode of every shipped "
                       "schedule directory; one evaluation = one scenario loaded and its inventory diffed with the model's build and "
                       "declared, plus one per permuted / reversed / re-serialised variant; non-trivial = the scenario has a router or "
                       "firewall ACL, routes, configured software and at least one agent; distinct by canonical scenario JSON")
    cases: List[Tuple[str, Dict, int]] = []  # name, cfg, digest_steps
    # 1. corpus
    for f in sorted((VERIF / "corpus" / "C20").glob("*.json")):
        rec = json.loads(f.read_text())
        if rec.get("mode") == "office-lan":
            for fl in check_office_lan(rec["node_set"]):
                ctx.violation({"kind": fl["kind"]}, f"corpus {f.name}: {fl}", {"mode": "office-lan", "node_set": rec["node_set"]})
            ctx.count("corpus:office-lan")
            ctx.case(rec["node_set"], True)
            continue
        cases.append(("corpus:" + f.name, _int_keys(rec["cfg"]), rec.get("digest_steps", 0)))
    # 2. generated families
    rng = ctx.rng.fork("scenarios")
    n_gen = ctx.scale(18, 200)
    for k in range(n_gen):
        fam = G.FAMILIES[k % 3]
        cfg = G.gen_scenario(rng, size=1 + (k // 3) % 3, family=fam, shadowing=(k % 4 == 3), node_sets=False)
        cases.append((f"gen:{k}:{fam}", cfg, ctx.scale(10, 20) if k % ctx.scale(6, 5) == 0 else 0))
    # 3. shipped single-file scenarios
    shipped = scen.shipped()
    for name, path in shipped.items():
        if name in SKIP_SHIPPED:
            continue
        try:
            cfg = scen.load_cfg(path)
        except Exception:
            continue
        if not isinstance(cfg, dict) or "game" not in cfg:
            continue
        heavy = name.startswith("uc7")
        steps = 0 if (heavy and not ctx.thorough) else (ctx.scale(8, 20) if name in ("data_manipulation", "basic_firewall", "uc7_config",
                                                                                     "dmz_network", "multi_lan_internet_network_example")
                                                        or ctx.thorough else 0)
        cases.append((f"shipped:{name}", cfg, steps))
    # 4. episode-scheduled directories
    sched_lines: List[str] = []
    sched_expect: List[str] = []
    for d in sorted(p for p in scen.PKG.iterdir() if p.is_dir() and (p / "schedule.yaml").exists()):
        try:
            lines, expect, fails, cfgs = check_schedule_dir(d, ctx)
        except Exception as e:
            ctx.violation({"kind": "schedule-raises", "dir": d.name, "exc": type(e).__name__}, f"schedule {d.name}: {e}", {"dir": str(d)})
            continue
        sched_lines += lines
        sched_expect += expect
        for fl in fails:
            ctx.violation({"kind": fl["kind"], "dir": fl["dir"]}, f"schedule {fl}", fl)
        for nm, cfg in cfgs:
            io = dict(cfg.get("io_settings") or {})
            io.update(scen.QUIET_IO)
            cfg["io_settings"] = io
            cases.append((f"scheduled:{nm}", cfg, ctx.scale(0, 8)))
    # model side, batched
    all_lines: List[str] = []
    spans: Dict[str, Tuple[int, int]] = {}
    for name, cfg, _ in cases:
        try:
            ls = ["reset"] + R.scenario_lines(cfg) + ["build", "declared"]
        except R.Unmodelled as u:
            ctx.count("unmodelled:" + str(u).split(" [")[0][:40])
            continue
        except Exception as e:
            ctx.count("not-translatable:" + type(e).__name__)
            continue
        spans[name] = (len(all_lines), len(ls))
        all_lines += ls
    out = run_driver(EXE, all_lines + sched_lines) if (all_lines or sched_lines) else []
    bad_ops = [q for q, a in zip(all_lines + sched_lines, out) if a == "bad-op"]
    ctx.oblige("driver accepted every protocol line", "correspondence", not bad_ops, "; ".join(bad_ops[:3]))
    sched_out = out[len(all_lines):]
    sched_bad = [(q, a, b) for q, a, b in zip(sched_lines, sched_out, sched_expect) if a != b]
    ctx.oblige("rig:schedule selection agrees with scheduleDocs on every shipped schedule", "correspondence", not sched_bad,
               str(sched_bad[:2]))
    # implementation side
    agree = modelled = 0
    for name, cfg, steps in cases:
        kind = name.split(":")[0]
        ctx.count("case:" + kind)
        mo = None
        if name in spans:
            st, ln = spans[name]
            mo = (out[st + ln - 2], out[st + ln - 1])
            modelled += 1
            ctx.cov["traces_validated_against_impl"] += 1
        fails, inv = check_scenario(copy.deepcopy(cfg), mo)
        summ = G.summary(cfg) if "simulation" in cfg else {}
        nontrivial = bool(summ.get("acl_rules") and summ.get("agents") and (summ.get("services") or summ.get("applications")))
        ctx.case({"name": name, "cfg": cfg}, nontrivial)
        for k, v in summ.items():
            if v:
                ctx.count("has:" + k.split(":")[0])
        if inv is not None:
            nv = 3 if (ctx.thorough or kind in ("gen", "corpus") or steps) else 1
            vf = check_variants(cfg, inv, ctx.rng.fork(name), steps, nv)
            ctx.cov["evaluations"] += nv
            ctx.count("variants-checked", nv)
            if steps:
                ctx.count("digest-compared", 2)
            fails += vf
        if mo is not None and not any(f["kind"] == "model-vs-impl" for f in fails):
            agree += 1
        for f in fails:
            sig = {k: f[k] for k in ("kind", "item", "cause", "exc", "where", "variant") if k in f}
            if f["kind"] == "load-raises" and f.get("exc") == "RecursionError":
                sig["cause"] = "second-nic-linked-before-first"
            ctx.violation(sig, f"{name}: {json.dumps({k: v for k, v in f.items()}, default=str)[:600]}",
                          {"mode": "scenario", "cfg": cfg, "digest_steps": steps, "failure": f, "from": name})
        if kind == "gen" and len(ctx.cov["samples"]) < 3 and inv is not None:
            ctx.sample({"case": name, "summary": summ, "inventory_lines": len(inv), "first": inv[:3]})
    ctx.oblige("rig:R-cfg the modelled loader (Lean build) agrees with the real inventory on every modelled scenario", "correspondence",
               agree == modelled, f"{modelled - agree} of {modelled} scenarios disagree")
    # 5. office-lan node sets (Python oracle; corners included)
    orng = ctx.rng.fork("office")
    sets = [{"type": "office-lan", "lan_name": "A", "subnet_base": 5, "pcs_ip_block_start": 10, "num_pcs": 3, "include_router": False},
            {"type": "office-lan", "lan_name": "B", "subnet_base": 6, "pcs_ip_block_start": 10, "num_pcs": 24},
            {"type": "office-lan", "lan_name": "C", "subnet_base": 7, "pcs_ip_block_start": 10, "num_pcs": 47, "include_router": False,
             "bandwidth": 150}]
    for _ in range(ctx.scale(6, 40)):
        ns = {"type": "office-lan", "lan_name": orng.choice(["X", "LAB", "HQ"]), "subnet_base": orng.range(2, 200),
              "pcs_ip_block_start": orng.range(5, 60), "num_pcs": orng.choice([1, 2, 5, 22, 23, 24, 30, 46, 47, 60])}
        if orng.chance(1, 2):
            ns["include_router"] = orng.chance(1, 2)
        if orng.chance(1, 2):
            ns["bandwidth"] = orng.choice([10, 100, 150])
        sets.append(ns)
    for ns in sets:
        ctx.count("case:office-lan")
        ctx.case(ns, ns["num_pcs"] > 23 or ns.get("include_router") is False)
        for fl in check_office_lan(ns):
            ctx.violation({"kind": fl["kind"]}, f"office-lan {ns}: {fl}", {"mode": "office-lan", "node_set": ns, "failure": fl})
