"""C20 — the simulation built from a scenario file is what the file says; key order / formatting irrelevant."""
from __future__ import annotations

import copy
import json
import re
import traceback
from pathlib import Path
from typing import Any, Dict, List, Optional, Tuple

import yaml

from harness.extract import config_resolve as x_res
from harness.extract import config_sites as x_cfg
from harness.gen import scenario as G
from harness.lib import scen
from harness.lib.core import VERIF, Ctx, Rng, lean_lock, run_driver
from harness.rigs import config as R
from harness.rigs import config_falsy as F

MANIFEST = {
    "text": "Lean 4 proof about an executable model of the scenario loader (PrimaiteGame.from_config: game options, airspace capacities, "
            "the defaults section, nodes of type computer/server/printer/switch/router/firewall/wireless-router through their "
            "from_config paths, software install, users, folders/files, office-lan node sets (the adder's loop), links, agents with "
            "action maps): for EVERY well-formed scenario AST the loader builds exactly the inventory the file declares "
            "(C20_build_eq_declared, full strength) - nodes with attributes and durations (own value, else the defaults section's, else "
            "the library's), interfaces and addresses, wireless access points with their frequency, ACL rules at their stated "
            "positions, routes, software with options, users, folders/files, links with bandwidths incl. 0 (node-set links first), "
            "agents, game options, capacity of every airspace frequency - EACH IN ITS DECLARED INITIAL STATE (node in its declared "
            "operating state; software RUNNING iff its node is ON with the configured starting health; a wired interface wired iff a "
            "link of the file or of a node set ends at it and enabled iff wired and node ON; an access point enabled iff node ON). "
            "OPTIONS: the option mapping of a software entry is carried as a mapping; the model constructs the live attributes by "
            "folding the REGENERATED table of constructor assignments (class, attribute, option) over the constructor chain of the "
            "software and reads every declared option off the attribute that carries it: C20_live_option_eq_declared (for every "
            "software name and every mapping the value read is the declared one) and C20_live_attribute_per_class; only pydantic's "
            "handling of the schema's keyword arguments is trusted. SPECIFICATION: `declared` is the closed form of the loader; "
            "`spec` (software = the SET of names each with the options of the last entry naming it; NIC number k carries the entry "
            "under key k; ACLs position by position - the rule the file lists under key p, else ARP at 22 / ICMP at 23 on a router, "
            "else nothing, with the documented implicit actions; router port k carries the address under key k; users and "
            "folders/files by name) shares no helper with the loader model and C20_declared_meets_spec / C20_build_meets_spec prove them equal up "
            "to the order of software (C20_software_meets_spec for EVERY node entry; C20_nics_by_key). Also: C20_software_one_instance_"
            "per_name, C20_software_initial_state (every node entry, well-formed or not), C20_key_order_irrelevant (every mapping incl. "
            "airspace capacities; one lemma per mapping-iteration site of the regenerated site inventory), C20_schedule_assembles/"
            "_periodic/_key_order, the office-lan theorems (C20_office_build_eq_declared and the structure theorems) which now also "
            "hold INSIDE build; C20_option_precedence: for every option that has a second source outside the entry (regenerated table "
            "of install() hooks: dns-client dns_server vs the node's dns_server) the built value is the entry's, else the outer "
            "source's, else none - part of build = declared / spec through SoftInv.effective. ONE ATTRIBUTE, SEVERAL SOURCES (round 7): the "
            "statements of PrimaiteGame.from_config that decide a service's fixing_duration, a node's start_up / shut_down / node_scan "
            "duration, a service's restart_duration and a link's bandwidth are TRANSLATED on every run (symbolic execution of the slice "
            "that writes the attribute, Python truthiness / int() / .get / in / or / and included -> Gen/ConfigResolve.lean) and proved, "
            "for ALL values of both sources (0, '', False, '0', 0.0 included), every initial value and every other key, equal to "
            "`effective` = the entry's own value if the entry DECLARES the key, else the defaults section's, else what was there "
            "(C20_gen_resolve_*; C20_or_rewrite_is_not_effective shows the `own or default` shape fails at own = 0; "
            "C20_effective_is_getD links `effective` to the closed forms of build / declared / spec); C20_gen_truthiness_sites pins every "
            "truthiness test of a value in the loader functions. The rig enumerates the same grid on the real loader, evaluates the "
            "regenerated translation against the specification on it (counter-model -> scenario file -> replay) and declares every "
            "option of every registered software schema / node schema key / user / file / ACL rule / route / link / game option / "
            "agent setting with each falsy value its schema accepts, without and with the competing sources. The node keys "
            "revealed_to_red / start_up_countdown / shut_down_countdown / is_resetting are part of build = declared (NodeFlags; "
            "node-state family on all seven node types incl. transitional states with countdowns). Variants are also compared by "
            "canonical describe_state(). THE OTHER LOADERS (round 7, second shift): every keyword argument that Router / Firewall / "
            "WirelessRouter.from_config (and the NIC(..) call of PrimaiteGame.from_config) read from a mapping of the file - ACL action, "
            "ports, protocol, both address spellings, wildcard masks, port addresses and masks, route address / mask / next hop / metric - "
            "is TRANSLATED (Gen kwargTable, one row per distinct expression, walrus / IfExp / or / in / lookup tables as opaque functions) "
            "and proved equal to kwSpec for every value of the keys and every lookup table (C20_gen_kwargs_resolve): an ACL address is the "
            "first declared spelling (src_ip, whatever its value) else the documented one (src_ip_address) else None in ALL eight ACL loops "
            "(C20_acl_address_first_declared_spelling; C20_acl_address_or_rewrite_differs); this semantic tie REPLACES the text pin of "
            "the address expressions. The rig evaluates the same translated expressions against kwSpec (counter-model -> scenario) and "
            "runs both spellings x {absent, null, address} through the real loader on every ACL of every router-like node type. Outside "
            "the Lean model, as declared-vs-built oracles only: custom observation-space component labels, shared-reward wiring INCLUDING "
            "whose reward each component yields (sentinel rewards), reward calculation order, agent settings the file leaves out = the "
            "schema defaults read off the source by ast; software right after loading: every kill-chain stage is the class's initial "
            "member and the software states do not depend on the random generators (six generator states) - this is what found "
            "F-C20r7b-1/2 (a configured dos-bot executed its attack loop, random port-scan trial included, while the scenario was "
            "loaded; fixed). Tie: Gen/Config.lean (site inventory; constants; system-software, firewall-ACL, frequency tables; "
            "assignment table and constructor chains of every software class; every key of the defaults section with the statement "
            "that applies it; the number of ACL rule loops per loader (what they read is translated, see above); "
            "wireless-router ports and sections; scheduler shape and freshness; no loader consumes its argument; install/uninstall "
            "shape; office-lan constants and wiring calls) + rig R-cfg: generated families, software-matrix scenarios, `enrich`ed "
            "scenarios (defaults, wireless router + airspace, node set with a cross link, documented ACL keys, bandwidth 0) and EVERY "
            "shipped scenario (none is outside the model any more) -> real from_config -> inventory walked from the object graph "
            "(option effects read off live attributes, initial states, type-strict durations) diffed with the driver's build, declared "
            "AND spec; second build from the same mapping; environments from a user-held mapping; schedule directories used as reset() "
            "uses them; permuted / reversed / re-serialised / aliased / merge-key / commented / quoted-integer files; per KIND of integer "
            "site a quoted-integer variant must build the identical simulation or be refused loudly. PARTIAL: observation-space "
            "construction, reward sharing and agent-setting defaults are oracles outside the Lean model; the software `configure` request paths "
            "and Switch / host constructors are not sliced (they resolve nothing from two sources: schema fields only); pydantic's coercions are trusted; after reset() every node is "
            "powered on (F-31, not claimed: states are compared at load time).",
    "note": "C20-specific: WellFormed asks for unique hostnames over nodes AND node-set nodes, unique option keys, registered "
            "frequencies, valid node sets; the spec theorem additionally asks that network_interfaces keys are the NIC numbers 2..m+1. "
            "A quoted integer is a YAML string: a loud refusal (router ports keys, link endpoint ports, listen_on_ports entries) is not "
            "counted as a formatting-only difference; building something else would be.",
    "technique": "Lean 4 theorems over an executable loader model; regenerated site inventory and tables; differential inventory rig",
    "design_ref": "5/C20",
}
MODULES = ["PrimaiteModel.Props.C20", "PrimaiteModel.Props.C20Office", "PrimaiteModel.Props.C20Spec", "PrimaiteModel.Props.C20Resolve"]
EXE = "drv_c20"
KEEP = ()  # every mapping is permuted, at every level (F-29, which made `action_probabilities` order-sensitive, is repaired)
# test assets that are not well-formed scenario files: one needs a plug-in node type, one has `agent_settings:` null
SKIP_SHIPPED = {"bad_primaite_session", "no_nodes_links_agents_network", "extended_config", "eval_only_primaite_session"}


# ------------------------------------------------------------------------------------------------ one scenario
def _fail_of(e: Exception) -> Dict:
    if isinstance(e, RecursionError):
        return {"kind": "load-raises", "exc": "RecursionError", "where": "HostARP", "msg": str(e)[:100]}
    tb = traceback.extract_tb(e.__traceback__)[-1]
    return {"kind": "load-raises", "exc": type(e).__name__, "where": f"{tb.filename.split('primaite/')[-1]}:{tb.name}", "msg": str(e)[:200]}


def _build(cfg_obj: Dict):
    """PrimaiteGame.from_config on THIS object (no copy): (game, None) or (None, failure-dict)."""
    from primaite.game.game import PrimaiteGame
    try:
        return PrimaiteGame.from_config(cfg_obj), None
    except Exception as e:
        return None, _fail_of(e)


def _load(cfg: Dict):
    """(game, None) or (None, failure-dict); the loader works on a private copy."""
    return _build(copy.deepcopy(cfg))


def mutation_paths(a: Any, b: Any, path: str = "") -> List[str]:
    """What a call did to its argument: generalised paths (list indices and integer keys dropped) of every difference."""
    out: List[str] = []
    if type(a) is not type(b):
        return [f"{path}:{type(a).__name__}->{type(b).__name__}"]
    if isinstance(a, dict):
        for k in list(a.keys()) + [k for k in b if k not in a]:
            kp = f"{path}/{'#' if isinstance(k, int) else k}"
            if k not in b:
                out.append(kp + ":removed")
            elif k not in a:
                out.append(kp + ":added")
            else:
                out += mutation_paths(a[k], b[k], kp)
    elif isinstance(a, list):
        if len(a) != len(b):
            out.append(path + ":length")
        for x, y in zip(a, b):
            out += mutation_paths(x, y, path + "[]")
    elif a != b:
        out.append(path + ":changed")
    return sorted(set(out))


def _classify(only_impl: List[str], only_decl: List[str]) -> Dict:
    """Signature of a declared-vs-built difference: the kind of item, and for software the option whose built value differs."""
    items = sorted({l.split()[0] for l in only_impl + only_decl})
    if items == ["sw"] and all(" n=1" not in l for l in only_impl) and all(" n=1" in l for l in only_decl):
        return {"kind": "declared-vs-built", "item": "software", "cause": "name-installed-twice"}
    if items == ["sw"]:
        # which software / which field: name the first differing token of the first differing line
        for a in only_impl:
            b = next((d for d in only_decl if d.split()[:3] == a.split()[:3]), None)
            if b:
                ta, tb = a.split(), b.split()
                dif = [x.split("=")[0] for x, y in zip(ta, tb) if x != y] or ["options"]
                return {"kind": "declared-vs-built", "item": "sw", "cause": f"{ta[2]}:{dif[0]}"}
    return {"kind": "declared-vs-built", "item": ",".join(items), "cause": "other"}


def check_scenario(cfg: Dict, model_out: Optional[Tuple[str, str]], twice: bool = True,
                   ctx: Optional[Ctx] = None) -> Tuple[List[dict], Optional[List[str]]]:
    """Implementation-side checks of one scenario; `model_out` = the driver's (build, declared) answers or None.
    `twice`: the SAME mapping object is handed to the loader a second time - it must build the same simulation."""
    fails: List[dict] = []
    work = copy.deepcopy(cfg)
    snap = copy.deepcopy(work) if twice else None
    game, f = _build(work)
    if f:
        return [f], None
    inv = R.inventory(game, cfg)
    for b in R.state_oracle(game):
        fails.append({"kind": "initial-state", "item": b.split()[0], "detail": b})
    for b in R.options_oracle(game, cfg):
        fails.append({"kind": "game-options", "item": b.split()[1], "detail": b})
    try:
        for b in R.agents_oracle(game, cfg):
            fails.append({"kind": "agents-declared-vs-built", "item": b.split()[1], "detail": b})
        if ctx is not None and cfg.get("agents"):
            ctx.count("agents-oracle:applied")
    except Exception as e:  # an agent kind the oracle does not know how to read is counted, not reported
        if ctx is not None:
            ctx.count("agents-oracle:not-applicable:" + type(e).__name__)
    if twice:
        if ctx is not None:
            for mp in mutation_paths(snap, work):
                ctx.count("loader-changed-its-argument:" + mp)
        game2, f2 = _build(work)
        if f2:
            fails.append(dict(f2, kind="second-build-from-same-mapping-raises"))
        else:
            inv2 = R.inventory(game2, cfg)
            if inv2 != inv:
                diff = sorted(set(inv) ^ set(inv2))
                fails.append({"kind": "second-build-from-same-mapping-differs", "item": diff[0].split()[0], "diff": diff[:6],
                              "argument_changes": mutation_paths(snap, work)[:8]})
    if model_out is not None:
        b, d = R.split_inventory(model_out[0]), R.split_inventory(model_out[1])
        if b != inv:
            fails.append({"kind": "model-vs-impl", "item": ",".join(sorted({l.split()[0] for l in set(b) ^ set(inv)})),
                          "only_model": [l for l in b if l not in inv][:6], "only_impl": [l for l in inv if l not in b][:6]})
        if d != inv:
            oi, od = [l for l in inv if l not in d], [l for l in d if l not in inv]
            fails.append(dict(_classify(oi, od), only_impl=oi[:6], only_declared=od[:6]))
        if len(model_out) > 2:
            sp = R.split_inventory(model_out[2])
            if sp != inv:
                oi, od = [l for l in inv if l not in sp], [l for l in sp if l not in inv]
                fails.append(dict(_classify(oi, od), kind="spec-vs-built", only_impl=oi[:6], only_spec=od[:6]))
    return fails, inv


def has_red_application(cfg: Dict) -> bool:
    return any(a.get("type") in R.RED_APPLICATIONS for n in (cfg.get("simulation", {}).get("network", {}).get("nodes") or [])
               for a in (n.get("applications") or []))


def check_load_rng_independent(cfg: Dict, seeds=(11, 12, 13, 14, 15, 16)) -> List[dict]:
    """"each in its declared initial state WHEN THE SCENARIO IS LOADED": the state of every piece of software right after loading is
    a function of the file, not of the random generators - the same file loaded under different generator states (Python's and
    numpy's) gives the same software states. (Agents may draw their schedule; the SIMULATION may not be built by a draw.)"""
    import random as _random

    import numpy as _np
    seen: Dict[str, Dict[str, str]] = {}
    for sd in seeds:
        _random.seed(sd)
        _np.random.seed(sd)
        game, f = _load(cfg)
        if f:
            return []
        seen[sd] = R.software_states(game)
    first = seen[seeds[0]]
    differing = sorted({k for sd in seeds[1:] for k in first if seen[sd].get(k) != first[k]})
    if not differing:
        return []
    k = differing[0]
    other = next(sd for sd in seeds[1:] if seen[sd].get(k) != first[k])
    return [{"kind": "load-depends-on-random-generator", "item": ",".join(sorted({d.split(":")[1] for d in differing})),
             "software": differing[:4], "seeds": [seeds[0], other], "states": [first[k][:300], seen[other].get(k, "")[:300]]}]


STATE_TOKENS = re.compile(r" (wired|en|st|h|flags)=\S+|^(node \S+ \S+) \S+")


def mask_states(inv: List[str]) -> List[str]:
    """Inventory without the initial-state fields (used after `reset()`, which powers every node on: F-31, not claimed)."""
    return sorted(STATE_TOKENS.sub(lambda m: m.group(2) or "", l) for l in inv)


def check_env_twice(cfg: Dict, inv: List[str], resets: int = 1) -> Tuple[List[dict], int]:
    """A user-held mapping passed twice to `PrimaiteGymEnv(env_config=cfg)`: both environments hold the declared simulation, the
    user's mapping is untouched, and after `reset()` the same items are there (states aside). Returns (failures, F-31 count)."""
    from primaite.session.environment import PrimaiteGymEnv
    fails: List[dict] = []
    held = copy.deepcopy(cfg)
    snap = copy.deepcopy(held)
    f31 = 0
    try:
        for k in (1, 2):
            env = PrimaiteGymEnv(env_config=held)
            got = R.inventory(env.game, cfg)
            if got != inv:
                diff = sorted(set(got) ^ set(inv))
                fails.append({"kind": "env-build-differs", "which": k, "item": diff[0].split()[0], "diff": diff[:6]})
            if k == 2:
                for r in range(resets):
                    env.reset()
                    after = R.inventory(env.game, cfg)
                    if mask_states(after) != mask_states(inv):
                        diff = sorted(set(mask_states(after)) ^ set(mask_states(inv)))
                        fails.append({"kind": "env-reset-build-differs", "episode": r + 1, "item": diff[0].split()[0], "diff": diff[:6]})
                    f31 += sum(1 for a, b in zip(sorted(l for l in after if l.startswith("node ")), sorted(l for l in inv if l.startswith("node "))) if a != b)
            env.close()
        if held != snap:
            fails.append({"kind": "env-changed-the-users-mapping", "changes": mutation_paths(snap, held)[:8]})
    except Exception as e:
        fails.append(dict(_fail_of(e), kind="env-raises"))
    return fails, f31


def check_variants(cfg: Dict, inv: List[str], rng: Rng, digest_steps: int, n_variants: int = 3,
                   formats: Optional[List[str]] = None, digest_variants: int = 2) -> List[dict]:
    """Permuted / reversed / re-serialised copies, and the formatting-only re-writings named in `formats` (anchors and aliases,
    merge keys, comments, quoted integers), must build the same inventory and (digest_steps > 0) behave identically."""
    fails = []
    variants = [("permuted", G.permute_mappings(cfg, rng, keep=KEEP)), ("reversed", G.reverse_mappings(cfg, keep=KEEP)),
                ("reserialised", G.reserialise(cfg, rng))][:n_variants]
    if formats:
        try:
            variants += G.format_variants(cfg, rng, formats)
        except Exception as e:  # the rig's own text generation failing is a rig problem, reported as such
            fails.append({"kind": "format-variant-not-producible", "exc": type(e).__name__, "msg": str(e)[:160]})
    # describe_state() of the whole simulation, canonical (uuids / MAC addresses masked): the variant must give the same text as the
    # file itself. Python's `random` is seeded before each of these loads: DoSBot.run() draws a port-scan trial WHILE LOADING (see
    # the design note), so two loads of one file differ unless the generator is in the same state.
    import random as _random
    base_state = None
    if len(inv) < 1500:
        _random.seed(20)
        g0, f0 = _load(cfg)
        base_state = None if f0 else R.state_digest(g0)
    for name, v in variants:
        # aliases make the parsed document SHARE sub-mappings: the loader gets it as parsed (deepcopy keeps the sharing)
        _random.seed(20)
        game, f = _load(v)
        if f:
            fails.append({"kind": "key-order-changes-loading" if name in ("permuted", "reversed") else "formatting-changes-loading",
                          "variant": name, "exc": f["exc"], "where": f["where"], "msg": f.get("msg", "")[:120]})
            continue
        inv2 = R.inventory(game, cfg)
        if inv2 != inv:
            diff = sorted(set(inv) ^ set(inv2))
            fails.append({"kind": "key-order-changes-inventory" if name in ("permuted", "reversed") else "formatting-changes-inventory",
                          "variant": name, "item": diff[0].split()[0], "diff": diff[:6]})
        elif base_state is not None and R.state_digest(game) != base_state:
            fails.append({"kind": "key-order-changes-describe-state" if name in ("permuted", "reversed") else "formatting-changes-describe-state",
                          "variant": name, "digests": [base_state, R.state_digest(game)]})
    if digest_steps > 0:
        try:
            d0 = R.trajectory_digest(cfg, 7, digest_steps)
            for name, v in variants[:digest_variants]:
                d1 = R.trajectory_digest(v, 7, digest_steps)
                if d1 != d0:
                    fails.append({"kind": "key-order-changes-behaviour", "variant": name, "digest": [d0, d1]})
        except Exception as e:
            tb = traceback.extract_tb(e.__traceback__)[-1]
            fails.append({"kind": "digest-raises", "exc": type(e).__name__, "where": f"{tb.filename.split('primaite/')[-1]}:{tb.name}",
                          "msg": str(e)[:160]})
    return fails


# ------------------------------------------------------------------------------------------------ office-lan oracle (not in the Lean model)
def office_lan_expected(ns: Dict) -> Tuple[List[str], List[str]]:
    """What docs/source/node_sets.rst says an `office-lan` entry builds: num_pcs computers, enough 24-port edge switches for 23 PCs
    each, a core switch when more than one edge switch is needed, an optional router (gateway 192.168.<base>.1), all wired."""
    lan, n, base, start = ns["lan_name"], ns["num_pcs"], ns["subnet_base"], ns["pcs_ip_block_start"]
    bw = ns.get("bandwidth", 100)
    router = ns.get("include_router", True)
    n_sw = max(1, -(-n // 23))
    nodes = [f"switch_edge_{k}_{lan}" for k in range(1, n_sw + 1)] + [f"pc_{i}_{lan}" for i in range(1, n + 1)]
    links = []
    if n_sw > 1:
        nodes.append(f"switch_core_{lan}")
        for k in range(1, n_sw + 1):
            links.append(f"switch_core_{lan}:{k}<->switch_edge_{k}_{lan}:24 {bw}")
    if router:
        nodes.append(f"router_{lan}")
        links.append(f"router_{lan}:1<->" + (f"switch_core_{lan}:24" if n_sw > 1 else f"switch_edge_1_{lan}:24") + f" {bw}")
    for i in range(1, n + 1):
        k, p = (i - 1) // 23 + 1, (i - 1) % 23 + 1
        links.append(f"switch_edge_{k}_{lan}:{p}<->pc_{i}_{lan}:1 {bw}")
    return sorted(nodes), sorted(links)


def office_lines(ns: Dict) -> List[str]:
    """Driver input for one `office-lan` entry: the model's build and the declared closed form."""
    args = (f"{R.tok(ns['lan_name'])} {ns['subnet_base']} {ns['pcs_ip_block_start']} {ns['num_pcs']} "
            f"{'-' if 'include_router' not in ns else (1 if ns['include_router'] else 0)} {ns.get('bandwidth', '-')}")
    return ["office-build " + args, "office-declared " + args]


def office_inventory(net) -> List[str]:
    """What the adder put into the network, in the driver's format."""
    out = []
    for n in net.nodes.values():
        nic1 = n.network_interface.get(1)
        ip = getattr(nic1, "ip_address", None)
        if n._discriminator == "router" and str(ip) == "127.0.0.1":
            ip = None
        out.append(f"onode {R.tok(n.config.hostname)} {n._discriminator} {R._o(ip)} {R._o(getattr(n.config, 'default_gateway', None))}")
    for l in net.links.values():
        bw = l.bandwidth
        out.append(f"olink {R.tok(l.endpoint_a.parent.config.hostname)} {l.endpoint_a.port_num} {R.tok(l.endpoint_b.parent.config.hostname)} "
                   f"{l.endpoint_b.port_num} {int(bw) if float(bw) == int(bw) else bw}")
    return sorted(out)


def check_office_lan(ns: Dict, model_out: Optional[Tuple[str, str]] = None) -> List[dict]:
    cfg = {"io_settings": dict(G.QUIET_IO), "game": {"ports": ["HTTP"], "protocols": ["TCP"]},
           "simulation": {"network": {"nodes": [], "links": [], "node_sets": [ns]}}, "agents": []}
    game, f = _load(cfg)
    valid = ns["pcs_ip_block_start"] + ns["num_pcs"] < 254 and ns["pcs_ip_block_start"] > max(0, -(-ns["num_pcs"] // 23))
    if f:
        if not valid and f["exc"] in ("ValueError", "ValidationError"):
            # a refused entry: the model must refuse it too, for the same reason
            want = "error ipRange" if "octets cannot exceed" in f["msg"] else ("error ipStartSmall" if "pcs_ip_block_start must be greater" in f["msg"] else "?")
            if model_out is not None and model_out[0] != want:
                return [{"kind": "office-lan-model-vs-impl", "model": model_out[0][:80], "impl": f"raises {f['exc']}: {f['msg'][:80]}"}]
            return []
        return [dict(f, kind="office-lan-raises")]
    if not valid:
        return [{"kind": "office-lan-invalid-entry-built", "node_set": ns}]
    net = game.simulation.network
    nodes = sorted(n.config.hostname for n in net.nodes.values())
    links = sorted(f"{l.endpoint_a.parent.config.hostname}:{l.endpoint_a.port_num}<->{l.endpoint_b.parent.config.hostname}:"
                   f"{l.endpoint_b.port_num} {int(l.bandwidth)}" for l in net.links.values())
    en, el = office_lan_expected(ns)
    fails = []
    if nodes != en:
        fails.append({"kind": "office-lan-nodes", "diff": sorted(set(nodes) ^ set(en))[:6]})
    if links != el:
        fails.append({"kind": "office-lan-links", "diff": sorted(set(links) ^ set(el))[:6]})
    base, start = ns["subnet_base"], ns["pcs_ip_block_start"]
    for i in range(1, ns["num_pcs"] + 1):
        pc = net.get_node_by_hostname(f"pc_{i}_{ns['lan_name']}")
        if pc is None:
            continue
        want_gw = f"192.168.{base}.1" if ns.get("include_router", True) else "None"
        if str(pc.network_interface[1].ip_address) != f"192.168.{base}.{i + start - 1}" or str(pc.config.default_gateway) != want_gw:
            fails.append({"kind": "office-lan-addressing", "pc": i})
            break
    # every node is ON and every link end enabled (the adder powers its nodes on and wires them afterwards)
    for n in net.nodes.values():
        if n.operating_state.name != "ON":
            fails.append({"kind": "office-lan-node-not-on", "node": n.config.hostname})
            break
    for l in net.links.values():
        if not (l.endpoint_a.enabled and l.endpoint_b.enabled):
            fails.append({"kind": "office-lan-link-down", "link": str(l)[:80]})
            break
    if model_out is not None:
        inv = office_inventory(net)
        for which, line in (("build", model_out[0]), ("declared", model_out[1])):
            m = R.split_inventory(line)
            if m != inv:
                fails.append({"kind": "office-lan-model-vs-impl" if which == "build" else "office-lan-declared-vs-built",
                              "only_model": [x for x in m if x not in inv][:5], "only_impl": [x for x in inv if x not in m][:5]})
    return fails


# ------------------------------------------------------------------------------------------------ schedules
def _scramble(o: Any) -> None:
    """Do to a scenario mapping the worst a consumer may do: empty every container in it, in place."""
    if isinstance(o, dict):
        for v in list(o.values()):
            _scramble(v)
        o.clear()
    elif isinstance(o, list):
        for v in o:
            _scramble(v)
        del o[:]


def _quiet(cfg: Dict) -> Dict:
    io = dict(cfg.get("io_settings") or {})
    io.update(scen.QUIET_IO)
    cfg["io_settings"] = io
    return cfg


def check_schedule_dir(d: Path, ctx: Ctx, env_level: bool = True) -> Tuple[List[str], List[str], List[dict], List[Tuple[str, Dict]]]:
    """Real EpisodeListScheduler vs an independent assembly and vs the model's document selection, used the way the environment
    uses it: ONE scheduler object, asked for episode after episode PAST the end of the schedule, every answer handed straight to
    `PrimaiteGame.from_config` (which may do to it what it likes) - so every combination of files is built at least twice."""
    from primaite.session.episode_schedule import build_scheduler
    fails: List[dict] = []
    cfgs: List[Tuple[str, Dict]] = []
    sch = build_scheduler(d)
    loader = getattr(yaml, "CSafeLoader", yaml.SafeLoader)
    spec = yaml.load((d / "schedule.yaml").read_text(), Loader=loader)
    table = spec["schedule"]
    L = len(table)
    lines, expect = ["reset"], ["ok"]
    for e, names in table.items():
        lines.append(f"sched-entry {e} " + " ".join(names))
        expect.append("ok")
    for fn in sorted({n for v in table.values() for n in v}):
        lines.append(f"sched-file {fn}")
        expect.append("ok")
    lines.append(f"sched-base {spec['base_scenario']}")
    expect.append("ok")
    assembled: Dict[Tuple[str, ...], Dict] = {}

    def want_of(names) -> Dict:
        key = tuple(names)
        if key not in assembled:
            text = "\n".join([(d / f).read_text() for f in names] + [(d / spec["base_scenario"]).read_text()])
            w = yaml.load(text, Loader=loader)
            flat = []
            for a in w["agents"]:
                flat.extend(a) if isinstance(a, list) else flat.append(a)
            w["agents"] = flat
            assembled[key] = w
        return copy.deepcopy(assembled[key])

    # which episodes: all of 0 .. 2L in the thorough tier and for short schedules; for long ones a selection in which every
    # combination of files is requested (and built) at least twice, the wrap-around indices L, L+1, 2L included
    if ctx.thorough or L <= 6:
        ns = list(range(0, 2 * L + 1))
    else:
        first: Dict[Tuple[str, ...], List[int]] = {}
        for e in sorted(table):
            first.setdefault(tuple(table[e]), []).append(e)
        ns = sorted({occ[0] for occ in first.values()} | {(occ[1] if len(occ) > 1 else occ[0] + L) for occ in first.values()}
                    | {L - 1, L, L + 1, 2 * L})
    reference: Dict[Tuple[str, ...], List[str]] = {}
    built: Dict[Tuple[str, ...], int] = {}
    for n in ns:
        names = table[n % L]
        key = tuple(names)
        got = sch(n)
        want = want_of(names)
        lines.append(f"sched {n}")
        expect.append(" ".join(list(names) + [spec["base_scenario"]]))
        ctx.count("schedule-episode")
        if got != want:
            fails.append({"kind": "schedule-assembly", "dir": d.name, "episode": n, "times_built_before": built.get(key, 0),
                          "differs_at": mutation_paths(want, got)[:6]})
            continue
        if key not in reference:
            g0, f0 = _build(_quiet(want_of(names)))
            if f0:
                fails.append(dict(f0, kind="schedule-episode-raises", dir=d.name, episode=n))
                continue
            reference[key] = R.inventory(g0, want)
            cfgs.append((f"{d.name}#ep{n}", _quiet(want_of(names))))
        # exactly what reset() does: the scheduler's own answer goes to the loader
        game, f = _build(got)
        ctx.count("schedule-build")
        if f:
            fails.append(dict(f, kind="schedule-episode-raises", dir=d.name, episode=n))
            continue
        inv = R.inventory(game, want)
        built[key] = built.get(key, 0) + 1
        if inv != reference[key]:
            diff = sorted(set(inv) ^ set(reference[key]))
            fails.append({"kind": "schedule-build-differs", "dir": d.name, "episode": n, "build_number": built[key],
                          "item": diff[0].split()[0], "diff": diff[:6]})
    ctx.count("schedule-combination-built-twice", sum(1 for v in built.values() if v >= 2))
    ctx.count("schedule-combination", len(reference))
    # what the scheduler hands out is the caller's to consume: wreck one answer, ask again
    for key in list(reference)[: ctx.scale(2, 99)]:
        n = next(e for e in sorted(table) if tuple(table[e]) == key)
        a = sch(n)
        b = sch(n)
        if a is b:
            fails.append({"kind": "schedule-hands-out-shared-object", "dir": d.name, "episode": n, "how": "same object twice"})
            continue
        _scramble(a)
        c = sch(n)
        if c != want_of(table[n]) or b != want_of(table[n]):
            fails.append({"kind": "schedule-hands-out-shared-object", "dir": d.name, "episode": n,
                          "how": "emptying one answer changed another"})
        ctx.count("schedule-freshness-probe")
    # the environment itself, reset past the end of the schedule (small scenarios; all in the thorough tier)
    if env_level and not fails:
        from primaite.session.environment import PrimaiteGymEnv
        try:
            env = PrimaiteGymEnv(env_config=d)
            for ep in range(0, 2 * L + 1):
                if ep:
                    env.reset()
                key = tuple(table[ep % L])
                inv = R.inventory(env.game, assembled[key])
                if mask_states(inv) != mask_states(reference[key]):
                    diff = sorted(set(mask_states(inv)) ^ set(mask_states(reference[key])))
                    fails.append({"kind": "schedule-env-build-differs", "dir": d.name, "episode": ep, "item": diff[0].split()[0],
                                  "diff": diff[:6]})
                    break
                ctx.count("schedule-env-episode")
            env.close()
        except Exception as e:
            fails.append(dict(_fail_of(e), kind="schedule-env-raises", dir=d.name))
    return lines, expect, fails, cfgs


# ------------------------------------------------------------------------------------------------ replay / run
def replay(rec: dict) -> bool:
    rp = rec["replay"]
    mode = rp.get("mode", "scenario")
    if mode == "office-lan":
        with lean_lock():
            from harness.lib.core import lake_build
            lake_build([EXE])
        o = run_driver(EXE, office_lines(rp["node_set"]))
        return not check_office_lan(rp["node_set"], (o[0], o[1]))
    if mode == "schedule":
        ctx = Ctx("C20", "quick", 1)
        return not check_schedule_dir(Path(rp["dir"]), ctx)[2]
    cfg = rp["cfg"] if rp.get("raw_keys") else _int_keys(rp["cfg"])
    with lean_lock():
        from harness.lib.core import lake_build
        lake_build([EXE])
    out = None
    try:
        lines = ["reset"] + R.scenario_lines(cfg) + ["build", "declared", "spec"]
        o = run_driver(EXE, lines)
        out = (o[-3], o[-2], o[-1])
    except R.Unmodelled:
        pass
    fails, inv = check_scenario(cfg, out)
    if not fails and inv is not None:
        fails = check_variants(cfg, inv, Rng(1), rp.get("digest_steps", 0), 3, rp.get("formats"))
    if not fails and inv is not None and rp.get("env"):
        fails = check_env_twice(cfg, inv)[0]
    if not fails and inv is not None and has_red_application(cfg):
        fails = check_load_rng_independent(cfg)
    return not fails


def _int_keys(o: Any) -> Any:
    """JSON turns mapping keys into strings; corpus scenarios get their integer keys back."""
    if isinstance(o, dict):
        return {(int(k) if isinstance(k, str) and k.lstrip("-").isdigit() else k): _int_keys(v) for k, v in o.items()}
    if isinstance(o, list):
        return [_int_keys(v) for v in o]
    return o


FORMATS = ["aliases", "merge-keys", "comments", "quoted-ints"]


def _vocabulary_gaps() -> List[str]:
    """Software types the implementation registers that the generator's vocabulary or the live-option table does not know."""
    import primaite.game.game as gg
    from primaite.simulator.system.applications.application import Application
    from primaite.simulator.system.services.service import Service
    registered = set(gg.SERVICE_TYPES_MAPPING) | set(Application._registry)
    gaps = [f"generator lacks {t}" for t in sorted(registered - set(G.SOFTWARE_VOCABULARY))]
    gaps += [f"generator has unknown {t}" for t in sorted(set(G.SOFTWARE_VOCABULARY) - registered)]
    # every option a schema declares is either generated or common
    common = {"type", "starting_health_state", "criticality", "fixing_duration", "listen_on_ports"}
    for t in sorted(registered & set(G.SOFTWARE_VOCABULARY)):
        cls = R._software_class(t)
        fields = set(cls.ConfigSchema.model_fields) - common
        gen = set(G.SOFTWARE_VOCABULARY[t][1])
        inherited = {"db_server_ip", "server_password"} if t == "dos-bot" else set()  # DoSBot's schema extends DatabaseClient's
        gaps += [f"{t}: option {o} never generated" for o in sorted(fields - gen - inherited)]
        gaps += [f"{t}: generated option {o} not in the schema" for o in sorted(gen - fields)]
    # every (class, attribute, option) the constructors apply under ANOTHER name has a reader in LIVE_OPTIONS
    by_class = {R._software_class(t).__name__: t for t in registered}
    for cls, attr, opt in x_cfg._software_inits()[0]:
        t = by_class.get(cls)
        if t and attr != opt and opt not in R.LIVE_OPTIONS.get(t, {}):
            gaps.append(f"{t}: option {opt} is applied to .{attr} but LIVE_OPTIONS does not read it")
    return gaps


def run(ctx: Ctx):
    with lean_lock():
        ctx.extract("Config", x_cfg.emit)
        ctx.extract("ConfigResolve", x_res.emit)
        ctx.prove(MODULES, exes=[EXE], leanchecker=ctx.thorough)
    ctx.cov["rule"] = ("cases = corpus witnesses + generated scenarios (families lan / routed / dmz x size 1-3 x with / without configured "
                       "system software) + software-matrix scenarios (every configurable software type with non-default options on "
                       "hosts declared absent/ON/OFF/BOOTING/SHUTTING_DOWN) + every shipped scenario + one per combination of files "
                       "of every shipped schedule directory; one evaluation = one scenario loaded and its inventory (items, option "
                       "effects read off the live objects, initial states) diffed with the model's build and declared, plus one per "
                       "variant (permuted / reversed / re-serialised / aliases / merge keys / comments / quoted integers), per second "
                       "build from the same mapping, per environment built from a user-held mapping, per scheduled episode built the "
                       "way reset() does; non-trivial = the scenario has a router or firewall ACL, configured software and an agent, or "
                       "a host that is not ON carrying configured software; distinct by canonical scenario JSON")
    gaps = _vocabulary_gaps()
    ctx.oblige("rig:generator vocabulary and live-option table cover every registered software type and schema option", "correspondence",
               not gaps, "; ".join(gaps[:6]))
    cases: List[Tuple[str, Dict, int]] = []  # name, cfg, digest_steps
    raw_corpus = set()
    # 1. corpus
    for f in sorted((VERIF / "corpus" / "C20").glob("*.json")):
        rec = json.loads(f.read_text())
        if rec.get("mode") == "office-lan":
            for fl in check_office_lan(rec["node_set"]):
                ctx.violation({"kind": fl["kind"]}, f"corpus {f.name}: {fl}", {"mode": "office-lan", "node_set": rec["node_set"]})
            ctx.count("corpus:office-lan")
            ctx.case(rec["node_set"], True)
            continue
        name = "corpus:" + f.name
        if rec.get("raw_keys"):
            raw_corpus.add(name)
        cases.append((name, rec["cfg"] if rec.get("raw_keys") else _int_keys(rec["cfg"]), rec.get("digest_steps", 0)))
    # 2. generated families
    rng = ctx.rng.fork("scenarios")
    n_gen = ctx.scale(12, 100)
    for k in range(n_gen):
        fam = G.FAMILIES[k % 3]
        cfg = G.gen_scenario(rng, size=1 + (k // 3) % 3, family=fam, shadowing=(k % 4 == 3), node_sets=False)
        steps = ctx.scale(8, 20) if k % ctx.scale(6, 5) == 0 else 0
        if k % 3 != 2:   # two of three carry the round-4 sections (defaults, wireless router + airspace, node set, documented ACL keys)
            cfg = G.enrich(cfg, rng, stepped=bool(steps))
        cases.append((f"gen:{k}:{fam}", cfg, steps))
    # 2b. software matrix: every software type x non-default options x declared operating state of the node
    mrng = ctx.rng.fork("matrix")
    for k in range(ctx.scale(9, 60)):
        cfg = G.gen_software_matrix(mrng, size=1 + k % 3)
        steps = ctx.scale(8, 16) if k % ctx.scale(5, 4) == 0 else 0
        if k % 2 == 1:
            cfg = G.enrich(cfg, mrng, stepped=bool(steps))
        cases.append((f"matrix:{k}", cfg, steps))
    # 3. shipped single-file scenarios
    shipped = scen.shipped()
    for name, path in shipped.items():
        if name in SKIP_SHIPPED:
            continue
        try:
            cfg = scen.load_cfg(path)
        except Exception:
            continue
        if not isinstance(cfg, dict) or "game" not in cfg:
            continue
        heavy = name.startswith("uc7")
        steps = 0 if (heavy and not ctx.thorough) else (ctx.scale(8, 20) if name in ("data_manipulation", "basic_firewall", "uc7_config",
                                                                                     "dmz_network", "multi_lan_internet_network_example")
                                                        or ctx.thorough else 0)
        cases.append((f"shipped:{name}", cfg, steps))
    # 4. episode-scheduled directories
    sched_lines: List[str] = []
    sched_expect: List[str] = []
    for d in sorted(p for p in scen.PKG.iterdir() if p.is_dir() and (p / "schedule.yaml").exists()):
        small = sum(f.stat().st_size for f in d.glob("*.yaml")) < 30000
        try:
            lines, expect, fails, cfgs = check_schedule_dir(d, ctx, env_level=small or ctx.thorough)
        except Exception as e:
            ctx.violation({"kind": "schedule-raises", "dir": d.name, "exc": type(e).__name__}, f"schedule {d.name}: {e}",
                          {"mode": "schedule", "dir": str(d)})
            continue
        sched_lines += lines
        sched_expect += expect
        for fl in fails:
            ctx.violation({k: fl[k] for k in ("kind", "dir", "item", "how", "exc") if k in fl}, f"schedule {json.dumps(fl, default=str)[:600]}",
                          {"mode": "schedule", "dir": str(d), "failure": fl})
        for nm, cfg in cfgs:
            cases.append((f"scheduled:{nm}", cfg, ctx.scale(0, 8)))
    # 5. one attribute, several sources: the full grid own value x competing default of every translated resolution site (the domain
    #    of the C20_gen_resolve_* theorems on a small value set, on the REAL loader), the grid points where the regenerated
    #    translation and the specification differ (counter-models; none on a correct loader), and every falsy-but-legal value of
    #    every option the real schemas know, without and with the competing sources
    try:
        cms = F.counter_models()
        cm_detail = "; ".join(f"{n}: own={F._tag(o)} default={F._tag(d)} -> loader statements give {g!r}, declared meaning {w!r}" for n, o, d, g, w in cms[:4])
    except Exception as e:
        cms, cm_detail = [], f"translation not available ({type(e).__name__}: {str(e)[:120]})"
        ctx.count("counter-models:translation-not-available")
    ctx.oblige("rig:the regenerated translation of every two-source site meets `effective` on the whole value grid", "correspondence",
               not cms, cm_detail)
    meta_of: Dict[str, Dict] = {}
    for n, o, d, g, w in cms:
        nm = f"counter-model:{n}:own={F._tag(o)}:dflt={F._tag(d)}"
        cases.append((nm, F.place(n, o, d), 0))
        meta_of[nm] = {"site": n, "own": F._tag(o), "dflt": F._tag(d), "translated": repr(g), "specified": repr(w)}
        ctx.count("counter-model:" + n)
    # 5b. the other loaders (Router / Firewall / WirelessRouter.from_config): every keyword argument read from the file is translated
    #     (Gen kwargTable, C20_gen_kwargs_resolve); the same expressions evaluated against `kwSpec` on the value grid give the
    #     counter-models, and both spellings of an ACL address x {absent, null, an address} go through the real loader on every ACL
    try:
        kcms = F.kw_counter_models()
        kcm_detail = "; ".join(f"{r['function']} {r['callee']}({r['keyword']}=): {r['own_key']}={F._tag(o)} {r['alt_key'] or '-'}={F._tag(a)} -> "
                               f"loader expression gives {g!r}, declared meaning {w!r}" for r, o, a, g, w in kcms[:4])
    except Exception as e:
        kcms, kcm_detail = [], f"translation not available ({type(e).__name__}: {str(e)[:160]})"
        ctx.count("kw-counter-models:translation-not-available")
        ctx.oblige("extract:every keyword argument of the router-like loaders that reads the file is translatable", "extractor", False, kcm_detail)
    ctx.oblige("rig:the regenerated translation of every keyword argument of Router / Firewall / WirelessRouter.from_config meets kwSpec on the value grid",
               "correspondence", not kcms, kcm_detail)
    for r, o, a, g, w in kcms:
        for j, c in enumerate(F.place_kw(r, o, a) or []):
            nm = f"kw-counter-model:{r['function']}:{r['keyword']}:{j}:own={F._tag(o)}:alt={F._tag(a)}"
            if nm not in meta_of:
                cases.append((nm, c, 0))
                meta_of[nm] = {"site": f"kw:{r['function']}:{r['keyword']}", "own": F._tag(o), "dflt": F._tag(a), "translated": repr(g), "specified": repr(w)}
                ctx.count("kw-counter-model:" + r["keyword"])
    srng = ctx.rng.fork("acl-spelling")
    for nm, cfg, meta in F.acl_spelling_grid():
        if ctx.thorough or srng.chance(1, 3):
            cases.append((nm, cfg, 0))
            meta_of[nm] = meta
    for nm, cfg, meta in F.load_state_cases():
        cases.append((nm, cfg, 0))
        meta_of[nm] = meta
    fam = F.two_source_grid()
    sf = F.schema_falsy_cases() + F.node_state_cases() + F.agent_settings_cases(ctx.rng.fork("falsy-agents"))
    if not ctx.thorough:   # quick: the two-source grid in full, the schema-driven family thinned (every option still appears over seeds)
        frng = ctx.rng.fork("falsy")
        sf = [c for c in sf if c[2].get("thing") != "software" and c[2].get("thing") != "agent-setting" or frng.chance(1, 2)]
    for nm, cfg, meta in fam + sf:
        cases.append((nm, cfg, 0))
        meta_of[nm] = meta
    # model side, batched
    all_lines: List[str] = []
    spans: Dict[str, Tuple[int, int]] = {}
    for name, cfg, _ in cases:
        try:
            ls = ["reset"] + R.scenario_lines(cfg) + ["build", "declared", "spec"]
        except R.Unmodelled as u:
            ctx.count("unmodelled:" + str(u).split(" [")[0][:40])
            continue
        except Exception as e:
            ctx.count("not-translatable:" + type(e).__name__)
            continue
        spans[name] = (len(all_lines), len(ls))
        all_lines += ls
    out = run_driver(EXE, all_lines + sched_lines) if (all_lines or sched_lines) else []
    bad_ops = [q for q, a in zip(all_lines + sched_lines, out) if a == "bad-op"]
    ctx.oblige("driver accepted every protocol line", "correspondence", not bad_ops, "; ".join(bad_ops[:3]))
    sched_out = out[len(all_lines):]
    sched_bad = [(q, a, b) for q, a, b in zip(sched_lines, sched_out, sched_expect) if a != b]
    ctx.oblige("rig:schedule selection agrees with scheduleDocs on every shipped schedule", "correspondence", not sched_bad,
               str(sched_bad[:2]))
    # implementation side
    agree = modelled = 0
    env_budget = ctx.scale(6, 50)
    rng_budget = ctx.scale(6, 60)
    f31_total = 0
    for idx, (name, cfg, steps) in enumerate(cases):
        kind = name.split(":")[0]
        ctx.count("case:" + kind)
        mo = None
        if name in spans:
            st, ln = spans[name]
            mo = (out[st + ln - 3], out[st + ln - 2], out[st + ln - 1])
            modelled += 1
            ctx.cov["traces_validated_against_impl"] += 1
        family = kind in ("two-source", "falsy", "counter-model", "kw-counter-model", "acl-spelling", "load-state")
        small = (kind in ("gen", "matrix", "corpus") or not name.startswith(("shipped:uc7", "scheduled:uc7"))) and not family
        fails, inv = check_scenario(cfg, mo, twice=small or (ctx.thorough and not family), ctx=ctx)
        if inv is not None and has_red_application(cfg) and (kind == "load-state" or (rng_budget > 0 and kind in ("gen", "matrix", "corpus"))):
            if kind != "load-state":
                rng_budget -= 1
            fails += check_load_rng_independent(cfg)
            ctx.count("load-under-six-generator-states")
            ctx.cov["evaluations"] += 6
        if family:
            ctx.cov["evaluations"] += 1
            m = meta_of.get(name, {})
            ctx.count(f"{kind}:{m.get('site') or m.get('thing')}")
            if m.get("thing"):
                ctx.count(f"falsy-option:{m.get('thing')}:{m.get('type', '')}:{m.get('option')}")
            if mo is None:
                ctx.count(f"{kind}:outside-the-model")
        if small or (ctx.thorough and not family):
            ctx.count("second-build-from-same-mapping")
            ctx.cov["evaluations"] += 1
        summ = G.summary(cfg) if "simulation" in cfg else {}
        netc = cfg.get("simulation", {}).get("network", {}) if "simulation" in cfg else {}
        for flag, present in (("defaults-section", bool(cfg.get("defaults"))), ("node-set-in-scenario", bool(netc.get("node_sets"))),
                              ("airspace-capacities", bool((netc.get("airspace") or {}).get("frequency_max_capacity_mbps"))),
                              ("wireless-router", any(n.get("type") == "wireless-router" for n in netc.get("nodes") or [])),
                              ("documented-acl-keys", "src_ip_address" in json.dumps(netc) or "dst_ip_address" in json.dumps(netc)),
                              ("bandwidth-0", any(l.get("bandwidth") == 0 for l in netc.get("links") or []))):
            if present:
                ctx.count("has:" + flag)
        off_hosts = [n for n in (cfg.get("simulation", {}).get("network", {}).get("nodes") or [])
                     if str(n.get("operating_state", "ON")).upper() not in ("ON", "TRUE") and n.get("operating_state") not in (None, "", False)
                     and (n.get("services") or n.get("applications"))]
        nontrivial = bool((summ.get("acl_rules") and summ.get("agents") and (summ.get("services") or summ.get("applications"))) or off_hosts)
        ctx.case({"name": name, "cfg": cfg}, nontrivial)
        for k, v in summ.items():
            if v:
                ctx.count("has:" + k.split(":")[0])
        if off_hosts:
            ctx.count("has:not-ON-host-with-configured-software", len(off_hosts))
            for n in off_hosts:
                for e in (n.get("services") or []) + (n.get("applications") or []):
                    ctx.count(f"software-on-{str(n['operating_state']).upper()}-node:{e['type']}")
        if inv is not None and not family:
            nv = 3 if (ctx.thorough or kind in ("gen", "corpus", "matrix") or steps) else 1
            fmts = None
            if kind in ("gen", "matrix") and name not in raw_corpus:
                fmts = FORMATS if ctx.thorough else [FORMATS[idx % 4], FORMATS[(idx + 1) % 4]]
            vf = check_variants(cfg, inv, ctx.rng.fork(name), steps, nv, fmts, digest_variants=ctx.scale(1, 2))
            ctx.cov["evaluations"] += nv + len(fmts or [])
            ctx.count("variants-checked", nv)
            for fm in fmts or []:
                ctx.count("format-variant:" + fm)
            if steps:
                ctx.count("digest-compared", ctx.scale(1, 2))
            fails += vf
            if kind in ("gen", "matrix") and env_budget > 0 and any(a.get("type") == "proxy-agent" for a in cfg.get("agents", [])) \
                    and (idx % 3 == 0 or ctx.thorough):
                env_budget -= 1
                ef, f31 = check_env_twice(cfg, inv)
                f31_total += f31
                fails += ef
                ctx.count("env-built-twice-from-user-held-mapping")
                ctx.cov["evaluations"] += 2
        if mo is not None and not any(f["kind"] == "model-vs-impl" for f in fails):
            agree += 1
        for f in fails:
            sig = {k: f[k] for k in ("kind", "item", "cause", "exc", "where", "variant") if k in f}
            if f["kind"] == "load-raises" and f.get("exc") == "RecursionError":
                sig["cause"] = "second-nic-linked-before-first"
            rp = {"mode": "scenario", "cfg": cfg, "digest_steps": steps, "failure": f, "from": name}
            if name in meta_of:
                rp["family"] = meta_of[name]
            if name in raw_corpus:
                rp["raw_keys"] = True
            if f["kind"].startswith("env-"):
                rp["env"] = True
            ctx.violation(sig, f"{name}: {json.dumps({k: v for k, v in f.items()}, default=str)[:700]}", rp)
        if kind in ("gen", "matrix") and len(ctx.cov["samples"]) < 4 and inv is not None and (kind == "matrix" or len(ctx.cov["samples"]) < 2):
            ctx.sample({"case": name, "summary": summ, "inventory_lines": len(inv), "first": inv[:3],
                        "a_software_line": next((l for l in inv if l.startswith("sw ") and "=" in l.split(" h=")[-1]), None)})
    # quoted integers, one KIND of integer site at a time: the file either builds the identical simulation or is refused loudly
    # (a quoted scalar is a string in YAML's data model; the loader may insist on an integer, it may not build something else)
    qrng = ctx.rng.fork("quoted")
    pool = [(nm, cfg) for nm, cfg, _ in cases if nm.split(":")[0] in ("gen", "matrix")]
    for nm, cfg in qrng.shuffle(pool)[: ctx.scale(2, 16)]:
        game, f = _load(cfg)
        if f:
            continue
        inv = R.inventory(game, cfg)
        for site, v in G.quoted_int_sites(cfg):
            g2, f2 = _load(v)
            ctx.cov["evaluations"] += 1
            if f2:
                ctx.count(f"quoted-integer:{site}:refused:{f2['exc']}")
                continue
            inv2 = R.inventory(g2, cfg)
            if inv2 == inv:
                ctx.count(f"quoted-integer:{site}:same")
            else:
                diff = sorted(set(inv) ^ set(inv2))
                ctx.count(f"quoted-integer:{site}:DIFFERENT")
                ctx.violation({"kind": "quoted-integer-builds-another-simulation", "site": site},
                              f"{nm}: quoted integers at '{site}' build another simulation: {diff[:4]}",
                              {"mode": "scenario", "cfg": v, "digest_steps": 0, "raw_keys": True, "from": nm, "site": site,
                               "expected_inventory_of": cfg})
    # OUT OF DOMAIN, measured and reported only: a file in which a node set's generated hostname collides with a declared node, and
    # one with two `nodes:` entries of one hostname. `WellFormed` excludes both (hostnames reference nodes); the model wires the
    # adder's links by hostname, the code by object reference (C20_wiring_by_name_is_by_reference: the same under unique hostnames).
    dup = {"io_settings": dict(G.QUIET_IO), "game": {"ports": ["HTTP"], "protocols": ["TCP"]}, "agents": [],
           "simulation": {"network": {"nodes": [
               {"hostname": "pc_1_LAB", "type": "computer", "ip_address": "10.0.0.5", "subnet_mask": "255.255.255.0"},
               {"hostname": "dup", "type": "computer", "ip_address": "10.0.0.6", "subnet_mask": "255.255.255.0"},
               {"hostname": "dup", "type": "server", "ip_address": "10.0.0.7", "subnet_mask": "255.255.255.0"}],
               "node_sets": [{"type": "office-lan", "lan_name": "LAB", "subnet_base": 66, "pcs_ip_block_start": 20, "num_pcs": 2,
                              "include_router": False}], "links": []}}}
    gdup, fdup = _load(dup)
    if fdup:
        ctx.count(f"out-of-domain:duplicate-hostnames:refused:{fdup['exc']}")
    else:
        names = [n.config.hostname for n in gdup.simulation.network.nodes.values()]
        shown = len(gdup.simulation.describe_state()["network"]["nodes"])
        ctx.count("out-of-domain:duplicate-hostnames:accepted-silently")
        ctx.cov["duplicate_hostnames_probe"] = {"nodes_built": len(names), "distinct_hostnames": len(set(names)), "nodes_in_describe_state": shown,
                                                "note": "not claimed: the file is not well-formed; the loader builds every node, by-hostname "
                                                        "lookups and describe_state reach one per name"}
    ctx.count("nodes-not-in-declared-state-after-reset (F-31, not claimed)", f31_total)
    ctx.oblige("rig:R-cfg the modelled loader (Lean build) agrees with the real inventory on every modelled scenario", "correspondence",
               agree == modelled, f"{modelled - agree} of {modelled} scenarios disagree")
    # 5. office-lan node sets: real adder vs the Lean model of its loop, vs the declared closed form (Lean) and vs an independent
    #    Python closed form; corners and refused entries included
    orng = ctx.rng.fork("office")
    sets = [{"type": "office-lan", "lan_name": "A", "subnet_base": 5, "pcs_ip_block_start": 10, "num_pcs": 3, "include_router": False},
            {"type": "office-lan", "lan_name": "B", "subnet_base": 6, "pcs_ip_block_start": 10, "num_pcs": 24},
            {"type": "office-lan", "lan_name": "C", "subnet_base": 7, "pcs_ip_block_start": 10, "num_pcs": 47, "include_router": False,
             "bandwidth": 150},
            {"type": "office-lan", "lan_name": "D", "subnet_base": 8, "pcs_ip_block_start": 2, "num_pcs": 46},          # start = #switches: refused
            {"type": "office-lan", "lan_name": "E", "subnet_base": 9, "pcs_ip_block_start": 200, "num_pcs": 54}]        # past .253: refused
    for _ in range(ctx.scale(6, 40)):
        ns = {"type": "office-lan", "lan_name": orng.choice(["X", "LAB", "HQ"]), "subnet_base": orng.range(2, 200),
              "pcs_ip_block_start": orng.range(5, 60), "num_pcs": orng.choice([0, 1, 2, 5, 22, 23, 24, 30, 46, 47, 60, 69, 70, 92, 93])}
        if orng.chance(1, 2):
            ns["include_router"] = orng.chance(1, 2)
        if orng.chance(1, 2):
            ns["bandwidth"] = orng.choice([10, 100, 150])
        if orng.chance(1, 8):
            ns["pcs_ip_block_start"] = orng.choice([1, 2, 3, 250])
        sets.append(ns)
    olines: List[str] = []
    for ns in sets:
        olines += office_lines(ns)
    oout = run_driver(EXE, olines)
    ctx.oblige("driver accepted every office-lan line", "correspondence", "bad-op" not in oout, str([q for q, a in zip(olines, oout) if a == "bad-op"][:2]))
    obad = 0
    for k, ns in enumerate(sets):
        ctx.count("case:office-lan")
        ctx.count(f"office-lan:switches={max(1, -(-ns['num_pcs'] // 23))}:router={ns.get('include_router', 'default')}")
        ctx.case(ns, ns["num_pcs"] > 23 or ns.get("include_router") is False)
        ctx.cov["traces_validated_against_impl"] += 1
        for fl in check_office_lan(ns, (oout[2 * k], oout[2 * k + 1])):
            if fl["kind"] == "office-lan-model-vs-impl":
                obad += 1
            ctx.violation({"kind": fl["kind"]}, f"office-lan {ns}: {json.dumps(fl, default=str)[:500]}", {"mode": "office-lan", "node_set": ns, "failure": fl})
    ctx.oblige("rig:office-lan the modelled adder (Lean officeBuild) agrees with the real one on every node set", "correspondence", obad == 0,
               f"{obad} node sets disagree")
